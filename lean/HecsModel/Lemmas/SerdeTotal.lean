import HecsModel.Model.Serde
import HecsModel.Lemmas.WorldInvStep
import HecsModel.Lemmas.Batch
/-
  C15, totality: whatever tree the deserializers are handed, they either report an error or produce
  a world satisfying the representation invariant.
-/
namespace Hecs.SerdeLemmas
open Hecs Hecs.Serde

/-! ### the row context builds a bundle naming each type once -/

theorem keys_map_replace (acc : List Comp) (t x : Nat) :
    (acc.map (fun c => if c.1 == t then (t, x) else c)).map (·.1) = acc.map (·.1) := by
  induction acc with
  | nil => rfl
  | cons c cs ih =>
    simp only [List.map_cons, ih]
    congr 1
    by_cases h : c.1 = t <;> simp [h]

theorem deEntityMap_nodup (H : List Nat) (kvs : List (Tree × Tree)) (acc b : List Comp)
    (hacc : (acc.map (·.1)).Nodup) (h : deEntityMap H kvs acc = .ok b) : (b.map (·.1)).Nodup := by
  fun_induction deEntityMap H kvs acc with
  | case1 acc => cases h; exact hacc
  | case2 t v rest acc hc ih =>
    apply ih _ h
    split
    · rw [keys_map_replace]; exact hacc
    · rename_i hany
      rw [List.map_append, List.nodup_append]
      refine ⟨hacc, by simp, ?_⟩
      intro a ha b hb
      simp at hb; subst hb
      intro hab; subst hab
      apply hany
      simp only [List.mem_map] at ha
      obtain ⟨c, hcm, rfl⟩ := ha
      exact List.any_eq_true.2 ⟨c, hcm, by simp⟩
  | case3 => cases h
  | case4 => cases h

theorem deRowEntries_inv (H : List Nat) (kvs : List (Tree × Tree)) (w w' : World) (hw : w.Inv)
    (h : deRowEntries H kvs w = .ok w') : w'.Inv := by
  fun_induction deRowEntries H kvs w with
  | case1 w => cases h; exact hw
  | case2 k comps rest w hk => cases h
  | case3 k comps rest w e he m hm => cases h
  | case4 k comps rest w e he b hb ih =>
    apply ih _ h
    exact World.inv_step w (.spawnAt e b) (deEntityMap_nodup H comps [] b (by simp) hb) hw
  | case5 => cases h

theorem deRow_total (H : List Nat) (t : Tree) :
    (∃ m, deRow H t = .error m) ∨ (∃ w, deRow H t = .ok w ∧ w.Inv) := by
  cases h : deRow H t with
  | error m => exact .inl ⟨m, rfl⟩
  | ok w =>
    refine .inr ⟨w, rfl, ?_⟩
    cases t with
    | map kvs => exact deRowEntries_inv H kvs _ w World.inv_new h
    | num n => cases h
    | seq xs => cases h

/-! ### the column format -/

/-- the rows `deArchetype` hands to `spawn_column_batch_at` -/
def colRows (n : Nat) (ts : List Nat) (filled : List (Nat × List Nat)) : List (List Comp) :=
  (List.range n).map (fun i =>
    ts.map (fun t => (t, normVal t ((((filled.find? (·.1 == t)).map (·.2)).getD []).getD i 0))))

theorem deArchetype_ok_inv (H : List Nat) (w : World) (t : Tree) (w' : World)
    (h : deArchetype H w t = .ok w') :
    ∃ n k0 ids ents cols idl bits es filled,
      t = .seq [.num n, .num k0, .seq ids, .seq (.seq ents :: cols)] ∧
      n < 4294967296 ∧ k0 < 4294967296 ∧ natsOf ids = some idl ∧ idl.all H.contains = true ∧
      natsOf ents = some bits ∧ bits.mapM entityOfBits = some es ∧ es.length = n ∧
      (es.map (·.id)).Nodup ∧ deColumns n idl cols [] = .ok (filled, []) ∧
      w' = (w.spawnColumnBatchAt es (dedupSorted (sortNat idl))
              (colRows n (dedupSorted (sortNat idl)) filled)).1 := by
  unfold deArchetype at h
  split at h
  · rename_i n0 k0 ids comps
    split at h
    · rename_i n k idl hn hk hidl
      split at h
      · cases h
      · rename_i h1
        split at h
        · cases h
        · rename_i ents cols
          split at h
          · cases h
          · rename_i bits hbits
            split at h
            · cases h
            · rename_i es hes
              split at h
              · cases h
              · rename_i h2
                split at h
                · cases h
                · rename_i h3
                  split at h
                  · cases h
                  · rename_i filled rest hcols
                    split at h
                    · cases h
                    · rename_i h4
                      have hn' : n0 < 4294967296 ∧ n = n0 := by
                        unfold u32? at hn; split at hn <;> simp_all
                      have hk' : k0 < 4294967296 := by
                        unfold u32? at hk; split at hk <;> simp_all
                      obtain ⟨hn1, rfl⟩ := hn'
                      have hr : rest = [] := by cases rest <;> simp_all
                      subst hr
                      refine ⟨n, k0, ids, ents, cols, idl, bits, es, filled, rfl, hn1, hk', hidl, by simpa using h1,
                        hbits, hes, by simpa using h2, by simpa using h3, hcols, ?_⟩
                      simp only [Except.ok.injEq] at h
                      exact h.symm
        · cases h
    · cases h
  · cases h

/-- the converse: an input of the right shape is accepted -/
theorem deArchetype_eq (H : List Nat) (w : World) (n k0 : Nat) (ids ents cols : List Tree)
    (idl bits : List Nat) (es : List Entity) (filled : List (Nat × List Nat))
    (hn : n < 4294967296) (hk : k0 < 4294967296) (hidl : natsOf ids = some idl)
    (hH : idl.all H.contains = true) (hbits : natsOf ents = some bits)
    (hes : bits.mapM entityOfBits = some es) (hlen : es.length = n) (hnd : (es.map (·.id)).Nodup)
    (hcols : deColumns n idl cols [] = .ok (filled, [])) :
    deArchetype H w (.seq [.num n, .num k0, .seq ids, .seq (.seq ents :: cols)]) =
      .ok (w.spawnColumnBatchAt es (dedupSorted (sortNat idl))
              (colRows n (dedupSorted (sortNat idl)) filled)).1 := by
  have h1 : u32? n = some n := by simp [u32?, hn]
  have h2 : u32? k0 = some k0 := by simp [u32?, hk]
  simp [deArchetype, h1, h2, hidl, hH, hbits, hes, hlen, hnd, hcols, colRows]

theorem dedupSorted_eq : ∀ l : List Nat, Serde.dedupSorted l = BatchB.dedupSorted l
  | [] => rfl
  | [a] => rfl
  | a :: b :: r => by
    simp only [Serde.dedupSorted, BatchB.dedupSorted, dedupSorted_eq (b :: r)]

theorem dedupSorted_sortNat_sorted (l : List Nat) : strictSorted (dedupSorted (sortNat l)) = true := by
  rw [dedupSorted_eq]; exact BatchLemmas.dedupSorted_sortNat_sorted l

theorem mem_dedupSorted_sortNat (x : Nat) (l : List Nat) : x ∈ dedupSorted (sortNat l) ↔ x ∈ l := by
  rw [dedupSorted_eq]; exact BatchLemmas.mem_dedupSorted_sortNat x l

theorem colRows_types (n : Nat) (ts : List Nat) (filled : List (Nat × List Nat)) (row : List Comp)
    (h : row ∈ colRows n ts filled) : row.map (·.1) = ts := by
  simp only [colRows, List.mem_map] at h
  obtain ⟨i, _, rfl⟩ := h
  simp [List.map_map, Function.comp_def]

theorem colRows_length (n : Nat) (ts : List Nat) (filled : List (Nat × List Nat)) :
    (colRows n ts filled).length = n := by simp [colRows]

theorem colBatch_wf (es : List Entity) (n : Nat) (idl : List Nat) (filled : List (Nat × List Nat)) :
    (Op.spawnColumnBatchAt es (dedupSorted (sortNat idl)) (colRows n (dedupSorted (sortNat idl)) filled)).WF :=
  ⟨dedupSorted_sortNat_sorted idl, fun row h => colRows_types _ _ _ row h⟩

theorem deArchetype_inv (H : List Nat) (w : World) (t : Tree) (w' : World) (hw : w.Inv)
    (h : deArchetype H w t = .ok w') : w'.Inv := by
  obtain ⟨n, k0, ids, ents, cols, idl, bits, es, filled, -, -, -, -, -, -, -, -, -, -, rfl⟩ :=
    deArchetype_ok_inv H w t w' h
  exact World.inv_step w (.spawnColumnBatchAt es _ _) (colBatch_wf es n idl filled) hw

theorem deColArchs_inv (H : List Nat) (xs : List Tree) (w w' : World) (hw : w.Inv)
    (h : deColArchs H xs w = .ok w') : w'.Inv := by
  induction xs generalizing w with
  | nil => cases h; exact hw
  | cons t rest ih =>
    simp only [deColArchs] at h
    split at h
    · cases h
    · rename_i w1 h1
      exact ih w1 (deArchetype_inv H w t w1 hw h1) h

theorem deCol_total (H : List Nat) (t : Tree) :
    (∃ m, deCol H t = .error m) ∨ (∃ w, deCol H t = .ok w ∧ w.Inv) := by
  cases h : deCol H t with
  | error m => exact .inl ⟨m, rfl⟩
  | ok w =>
    refine .inr ⟨w, rfl, ?_⟩
    cases t with
    | seq xs => exact deColArchs_inv H xs _ w World.inv_new h
    | num n => cases h
    | map kvs => cases h

end Hecs.SerdeLemmas
