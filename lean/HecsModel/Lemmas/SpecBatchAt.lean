import HecsModel.Lemmas.SpecClear
/-
  Refinement of the abstract map specification, `spawn_column_batch_at` (accepted half): closed form of
  the abstract fold `spawnAtMany` for distinct ids (evictions are computed against the state before the
  call; lookups afterwards), matched against `World.spawnColumnBatchAt_spec` / `occupant_spec`.
-/
namespace Hecs
namespace Spec

/-- lookup after one abstract id-targeted spawn -/
theorem lookup_spawnAtOne (s : SpecW) (h : Entity) (b : List Comp) (x : Entity) :
    (spawnAtOne s h b).1.lookup x =
      if x.id = h.id then (if x = h then some (canon b) else none) else s.lookup x := by
  let s1 := s.eraseId h.id
  have hap := SpecW.lookup_append { s1 with targeted := h.id :: s1.targeted } [(h, canon b)] x
  have e1 : ({ s1 with targeted := h.id :: s1.targeted } : SpecW).lookup x = s1.lookup x := rfl
  rw [e1, lookup_eraseId] at hap
  show SpecW.lookup { ({ s1 with targeted := h.id :: s1.targeted } : SpecW) with
          live := ({ s1 with targeted := h.id :: s1.targeted } : SpecW).live ++ [(h, canon b)] } x = _
  rw [hap]
  by_cases hid : x.id = h.id
  · rw [if_pos hid, if_pos hid]
    by_cases hx : x = h
    · subst hx; simp
    · have : (h == x) = false := by simp; exact fun hh => hx hh.symm
      simp [this, hx]
  · rw [if_neg hid, if_neg hid]
    cases s.lookup x with
    | some v => rfl
    | none =>
      have : (h == x) = false := by simp; intro hh; exact hid (by rw [hh])
      simp [this]

theorem keys_spawnAtOne (s : SpecW) (h : Entity) (b : List Comp) (hk : (s.live.map (·.1)).Nodup) :
    ((spawnAtOne s h b).1.live.map (·.1)).Nodup := by
  show (((s.eraseId h.id).live ++ [(h, canon b)]).map (·.1)).Nodup
  simp only [List.map_append, List.map_cons, List.map_nil]
  rw [List.nodup_append]
  refine ⟨hk.sublist (List.Sublist.map _ List.filter_sublist), by simp, ?_⟩
  intro a ha c hc hac
  simp only [List.mem_singleton] at hc
  subst hc; subst hac
  obtain ⟨q, hq, rfl⟩ := List.mem_map.1 ha
  have := (List.mem_filter.1 hq).2
  simp at this

theorem evict_spawnAtOne (s : SpecW) (h : Entity) (b : List Comp) (k : Nat) (hne : k ≠ h.id) :
    (spawnAtOne s h b).1.live.filter (·.1.id == k) = s.live.filter (·.1.id == k) := by
  show ((s.live.filter (·.1.id != h.id)) ++ [(h, canon b)]).filter (·.1.id == k) = _
  rw [List.filter_append, List.filter_filter]
  have : (([(h, canon b)] : List (Entity × List Comp)).filter (·.1.id == k)) = [] := by
    simp [List.filter_cons]; exact fun hh => hne hh.symm
  rw [this, List.append_nil]
  apply List.filter_congr
  intro q _
  by_cases hq : q.1.id = k
  · simp [hq, hne]
  · simp [hq]

theorem flatMap_congr' {α β : Type} (l : List α) (f g : α → List β) (h : ∀ a, a ∈ l → f a = g a) :
    l.flatMap f = l.flatMap g := by
  induction l with
  | nil => rfl
  | cons a l ih =>
    rw [List.flatMap_cons, List.flatMap_cons, h a (by simp), ih (fun x hx => h x (by simp [hx]))]

theorem spawnAtMany_spec (hs : List Entity) : ∀ (rows : List (List Comp)) (s : SpecW) (d : List Comp),
    hs.length = rows.length → (hs.map (·.id)).Nodup →
    (spawnAtMany s hs rows d).2 = d ++ hs.flatMap (fun h => (s.live.filter (·.1.id == h.id)).flatMap (·.2)) ∧
    (∀ p, p ∈ hs.zip rows → (spawnAtMany s hs rows d).1.lookup p.1 = some (canon p.2)) ∧
    (∀ x, x.id ∈ hs.map (·.id) → x ∉ hs → (spawnAtMany s hs rows d).1.lookup x = none) ∧
    (∀ x, x.id ∉ hs.map (·.id) → (spawnAtMany s hs rows d).1.lookup x = s.lookup x) ∧
    ((s.live.map (·.1)).Nodup → ((spawnAtMany s hs rows d).1.live.map (·.1)).Nodup) ∧
    (spawnAtMany s hs rows d).1.reserved = s.reserved ∧
    (spawnAtMany s hs rows d).1.issued = s.issued ∧
    (∀ k, k ∈ (spawnAtMany s hs rows d).1.targeted ↔ k ∈ hs.map (·.id) ∨ k ∈ s.targeted) := by
  induction hs with
  | nil =>
    intro rows s d hlen _
    cases rows with
    | nil => simp [spawnAtMany]
    | cons _ _ => cases hlen
  | cons h hs ih =>
    intro rows s d hlen hnd
    cases rows with
    | nil => cases hlen
    | cons b rows =>
      simp only [List.length_cons, Nat.add_right_cancel_iff] at hlen
      simp only [List.map_cons, List.nodup_cons] at hnd
      obtain ⟨i1, i2, i3, i4, i5, i6, i7, i8⟩ := ih rows (spawnAtOne s h b).1 (d ++ (spawnAtOne s h b).2) hlen hnd.2
      have hstep : spawnAtMany s (h :: hs) (b :: rows) d =
          spawnAtMany (spawnAtOne s h b).1 hs rows (d ++ (spawnAtOne s h b).2) := rfl
      rw [hstep]
      refine ⟨?_, ?_, ?_, ?_, ?_, ?_, ?_, ?_⟩
      · have hc : hs.flatMap (fun h' => ((spawnAtOne s h b).1.live.filter (·.1.id == h'.id)).flatMap (·.2)) =
            hs.flatMap (fun h' => (s.live.filter (·.1.id == h'.id)).flatMap (·.2)) := by
          apply flatMap_congr'
          intro h' hh'
          rw [evict_spawnAtOne s h b h'.id (fun e => hnd.1 (e ▸ List.mem_map_of_mem hh'))]
        rw [i1, hc, List.flatMap_cons, List.append_assoc]
        rfl
      · intro p hp
        simp only [List.zip_cons_cons, List.mem_cons] at hp
        rcases hp with rfl | hp
        · rw [i4 _ hnd.1, lookup_spawnAtOne]; simp
        · exact i2 p hp
      · intro x hx hnx
        simp only [List.map_cons, List.mem_cons] at hx
        simp only [List.mem_cons, not_or] at hnx
        by_cases hid : x.id = h.id
        · rw [i4 x (hid ▸ hnd.1), lookup_spawnAtOne, if_pos hid, if_neg hnx.1]
        · exact i3 x (hx.resolve_left hid) hnx.2
      · intro x hx
        simp only [List.map_cons, List.mem_cons, not_or] at hx
        rw [i4 x hx.2, lookup_spawnAtOne, if_neg hx.1]
      · intro hk; exact i5 (keys_spawnAtOne s h b hk)
      · rw [i6]; rfl
      · rw [i7]; rfl
      · intro k
        rw [i8 k]
        show k ∈ hs.map (·.id) ∨ k ∈ h.id :: s.targeted ↔ _
        simp only [List.map_cons, List.mem_cons]
        constructor
        · rintro (a | a | a)
          · exact Or.inl (Or.inr a)
          · exact Or.inl (Or.inl a)
          · exact Or.inr a
        · rintro ((a | a) | a)
          · exact Or.inr (Or.inl a)
          · exact Or.inl a
          · exact Or.inr (Or.inr a)

theorem evicted_eq (s : SpecW) (w : World) (hf : Sim s.flush w.flush) (hwf : w.flush.Inv) (id : Nat) (D : List Comp)
    (r5 : ∀ g cs, w.flush.lookup ⟨id, g⟩ = some cs → D = cs)
    (r6 : (∀ g, w.flush.lookup ⟨id, g⟩ = none) → D = []) :
    (s.flush.live.filter (fun q => q.1.id == id)).flatMap (·.2) = D := by
  have hk := hf.keys; rw [SpecW.flush_reserved, List.append_nil] at hk
  by_cases hex : ∃ g cs, w.flush.lookup ⟨id, g⟩ = some cs
  · obtain ⟨g, cs, hl⟩ := hex
    have hcx : w.flush.contains ⟨id, g⟩ = true := by rw [World.contains_eq_lookup' _ hwf, hl]; rfl
    have hsingle := filter_single s.flush.live hk ⟨id, g⟩ (fun e => e.id == id)
      (by
        intro q hq hpq
        have hid : q.1.id = id := by simpa using hpq
        have hkq : q.1 ∈ s.flush.live.map (·.1) := List.mem_map.2 ⟨q, hq, rfl⟩
        have hl2 : s.flush.lookup q.1 ≠ none := fun hn => (SpecW.lookup_eq_none_iff _ _).1 hn hkq
        rw [hf.look' q.1] at hl2
        have hcq : w.flush.contains q.1 = true := by
          rw [World.contains_eq_lookup' _ hwf]
          cases hq2 : w.flush.lookup q.1 with
          | none => exact absurd hq2 hl2
          | some _ => rfl
        exact World.contains_unique _ _ _ hcx hcq hid)
      (by simp)
    have hfind : s.flush.live.find? (·.1 == (⟨id, g⟩ : Entity)) = some (⟨id, g⟩, cs) ∨
        ∃ q, s.flush.live.find? (·.1 == (⟨id, g⟩ : Entity)) = some q ∧ q.2 = cs := by
      have hlk : s.flush.lookup ⟨id, g⟩ = some cs := by rw [hf.look']; exact hl
      unfold SpecW.lookup at hlk
      cases hq : s.flush.live.find? (·.1 == (⟨id, g⟩ : Entity)) with
      | none => rw [hq] at hlk; cases hlk
      | some q => right; rw [hq] at hlk; exact ⟨q, rfl, by simpa using hlk⟩
    rw [hsingle, r5 g cs hl]
    rcases hfind with hq | ⟨q, hq, hq2⟩
    · rw [hq]; simp
    · rw [hq]; simp [hq2]
  · have hnone : ∀ g, w.flush.lookup ⟨id, g⟩ = none := by
      intro g
      cases hq : w.flush.lookup ⟨id, g⟩ with
      | none => rfl
      | some cs => exact absurd ⟨g, cs, hq⟩ hex
    rw [r6 hnone]
    have : s.flush.live.filter (fun q => q.1.id == id) = [] := by
      rw [List.filter_eq_nil_iff]
      intro q hq hpq
      have hid : q.1.id = id := by simpa using hpq
      have hkq : q.1 ∈ s.flush.live.map (·.1) := List.mem_map.2 ⟨q, hq, rfl⟩
      have hl2 : s.flush.lookup q.1 ≠ none := fun hn => (SpecW.lookup_eq_none_iff _ _).1 hn hkq
      rw [hf.look' q.1] at hl2
      have : q.1 = ⟨id, q.1.gen⟩ := by cases hq3 : q.1; simp_all
      rw [this] at hl2
      exact hl2 (hnone _)
    rw [this]; rfl

open CmdBufLemmas in
theorem accepts_spawnColumnBatchAt (s : SpecW) (w : World) (hs : Sim s w) (hh : Hist s w) (hw : w.Inv)
    (es : List Entity) (ts : List Nat) (rows : List (List Comp)) (hop : (Op.spawnColumnBatchAt es ts rows).WF)
    (hgen : ∀ h, h ∈ es → 1 ≤ h.gen) (hlen : es.length = rows.length) (hnd : (es.map (·.id)).Nodup) :
    ∃ s', apply s (.spawnColumnBatchAt es ts rows) (Hecs.step w (.spawnColumnBatchAt es ts rows)).2.res
        (Hecs.step w (.spawnColumnBatchAt es ts rows)).2.dropped = .ok s' ∧
      Sim s' (Hecs.step w (.spawnColumnBatchAt es ts rows)).1 ∧ Hist s' (Hecs.step w (.spawnColumnBatchAt es ts rows)).1 := by
  have hf := hs.flush hw
  have hg := (World.inv_iff_good w).1 hw
  have hwf : w.flush.Inv := World.inv_step w .flush trivial hw
  have hw' : (w.spawnColumnBatchAt es ts rows).1.Inv := World.inv_step w (.spawnColumnBatchAt es ts rows) hop hw
  obtain ⟨r1, r2, r3, r4, r5⟩ := World.spawnColumnBatchAt_spec w es ts rows hg hop.1 hop.2 hlen hnd
  have hk := hf.keys; rw [SpecW.flush_reserved, List.append_nil] at hk
  obtain ⟨m1, m2, m3, m4, m5, m6, m7, m8⟩ := spawnAtMany_spec es rows s.flush [] hlen hnd
  have hgood : ¬ (es.length ≠ rows.length ∨ ¬ (es.map (·.id)).Nodup) := by
    simp only [not_or, Decidable.not_not]; exact ⟨hlen, hnd⟩
  have hstep : Hecs.step w (.spawnColumnBatchAt es ts rows) = w.spawnColumnBatchAt es ts rows := rfl
  rw [hstep]
  have hdrop : (spawnAtMany s.flush es rows []).2 = (w.spawnColumnBatchAt es ts rows).2.dropped := by
    rw [m1, r2, List.nil_append]
    apply flatMap_congr'
    intro h _
    have := World.occupant_spec w.flush (World.flush_flushed' w hg) h.id
    exact evicted_eq s w hf hwf h.id _ (fun g cs hl => this.1 g cs hl) (fun hn => this.2 hn)
  have hr' : (spawnAtMany s.flush es rows []).1.reserved = [] := by rw [m6]; rfl
  refine ⟨(spawnAtMany s.flush es rows []).1, ?_, ⟨?_, ?_⟩, ⟨?_, ?_⟩⟩
  · simp only [apply, if_neg hgood, r1]
    have : sameComps (spawnAtMany s.flush es rows []).2 (w.spawnColumnBatchAt es ts rows).2.dropped = true := by
      rw [hdrop]; exact SpecW.sameComps_refl _
    simp [this, check, bind, Except.bind, pure, Except.pure]
  · rw [hr', List.append_nil]; exact m5 hk
  · intro x
    rw [SpecW.flush_of_nil _ hr']
    by_cases hid : x.id ∈ es.map (·.id)
    · by_cases hx : x ∈ es
      · obtain ⟨i, hi, rfl⟩ := List.mem_iff_getElem.1 hx
        have hp : (es[i], rows[i]'(hlen ▸ hi)) ∈ es.zip rows := by
          rw [List.mem_iff_getElem]
          exact ⟨i, by simp [List.length_zip, ← hlen]; exact hi, by simp⟩
        rw [m2 _ hp, r3 _ hp]
        have hsorted : (rows[i]'(hlen ▸ hi)).Pairwise (fun x y => x.1 ≤ y.1) := by
          have h1 := hop.2 _ (List.getElem_mem (hlen ▸ hi))
          have h2 := (strictSorted_iff _).1 hop.1
          rw [← h1] at h2
          exact (List.pairwise_map.1 h2).imp (fun h => Nat.le_of_lt h)
        show some (canon (rows[i]'(hlen ▸ hi))) = some (rows[i]'(hlen ▸ hi))
        rw [canon_of_sorted _ hsorted]
      · rw [m3 x hid hx, r4 x hid hx]
    · rw [m4 x hid, r5 x hid]; exact hf.look' x
  · -- history
    rw [m7]
    have hI : World.IssuedOk (spawnAtMany s.flush es rows []).1.targeted w s.issued :=
      issuedOk_mono hh.issued (fun x hx => (m8 x).2 (Or.inr hx))
    have := (World.issued_step (spawnAtMany s.flush es rows []).1.targeted w (.spawnColumnBatchAt es ts rows) s.issued hw hop
      (by
        intro id hres
        simp only [Op.resurrects, List.any_eq_true, beq_iff_eq] at hres
        obtain ⟨h, hh1, hh2⟩ := hres
        exact (m8 id).2 (Or.inl (hh2 ▸ List.mem_map_of_mem hh1))) hI).2
    have hnh : (Hecs.step w (.spawnColumnBatchAt es ts rows)).2.res.handles_eff = [] := World.no_handles w _ trivial
    rw [hnh, List.append_nil] at this
    exact this
  · intro id
    by_cases hid : id ∈ es.map (·.id)
    · obtain ⟨h, hh1, rfl⟩ := List.mem_map.1 hid
      obtain ⟨i, hi, rfl⟩ := List.mem_iff_getElem.1 hh1
      have hp : (es[i], rows[i]'(hlen ▸ hi)) ∈ es.zip rows := by
        rw [List.mem_iff_getElem]
        exact ⟨i, by simp [List.length_zip, ← hlen]; exact hi, by simp⟩
      have hc : (w.spawnColumnBatchAt es ts rows).1.contains es[i] = true := by
        rw [World.contains_eq_lookup' _ hw', r3 _ hp]; rfl
      rw [← World.contains_gen _ _ hc]; exact hgen _ hh1
    · have := (World.gen_step w (.spawnColumnBatchAt es ts rows) id (by
        simp only [Op.resurrects]
        rw [Bool.eq_false_iff]
        intro hany
        simp only [List.any_eq_true, beq_iff_eq] at hany
        obtain ⟨h, hh1, hh2⟩ := hany
        exact hid (hh2 ▸ List.mem_map_of_mem hh1))).2
      exact Nat.le_trans (hh.gens id) this

end Spec
end Hecs
