import HecsModel.Lemmas.WorldInvMove
import HecsModel.Lemmas.SortLemmas
/-
  C10, item 1: the canonical form of a bundle (`canon`, `sortNat`) depends on the multiset only.
  Also the row-level permutation facts used by the ledger (C03): `putComp`, `bundleGet`.
-/
namespace Hecs
namespace CanonLemmas

/-! ### `insertComp` / `canon` are permutations of their input -/

theorem insertComp_perm (c : Comp) (l : List Comp) : (insertComp c l).Perm (c :: l) := by
  induction l with
  | nil => exact List.Perm.refl _
  | cons d ds ih =>
    simp only [insertComp]
    split
    · exact List.Perm.refl _
    · exact (ih.cons d).trans (List.Perm.swap c d ds)

theorem canon_perm_self (b : List Comp) : (canon b).Perm b := by
  induction b with
  | nil => exact List.Perm.refl _
  | cons c cs ih => exact (insertComp_perm c (canon cs)).trans (ih.cons c)

theorem insertNat_perm (c : Nat) (l : List Nat) : (insertNat c l).Perm (c :: l) := by
  induction l with
  | nil => exact List.Perm.refl _
  | cons d ds ih =>
    simp only [insertNat]
    split
    · exact List.Perm.refl _
    · exact (ih.cons d).trans (List.Perm.swap c d ds)

theorem sortNat_perm_self (l : List Nat) : (sortNat l).Perm l := by
  induction l with
  | nil => exact List.Perm.refl _
  | cons c cs ih => exact (insertNat_perm c (sortNat cs)).trans (ih.cons c)

/-! ### sortedness -/

theorem insertNat_le_sorted (c : Nat) (l : List Nat) (hl : l.Pairwise (· ≤ ·)) :
    (insertNat c l).Pairwise (· ≤ ·) := by
  induction l with
  | nil => simp [insertNat]
  | cons d ds ih =>
    simp only [insertNat]
    rw [List.pairwise_cons] at hl
    split
    · rename_i hcd
      rw [List.pairwise_cons]
      refine ⟨?_, List.pairwise_cons.2 hl⟩
      intro x hx
      rcases List.mem_cons.1 hx with rfl | hx
      · exact hcd
      · exact Nat.le_trans hcd (hl.1 x hx)
    · rename_i hcd
      rw [List.pairwise_cons]
      refine ⟨?_, ih hl.2⟩
      intro x hx
      rcases (mem_insertNat c x ds).1 hx with rfl | hx
      · omega
      · exact hl.1 x hx

/-- `sortNat` sorts (weakly), whatever the input -/
theorem sortNat_le_sorted (l : List Nat) : (sortNat l).Pairwise (· ≤ ·) := by
  induction l with
  | nil => simp [sortNat]
  | cons c cs ih => exact insertNat_le_sorted c _ ih

/-- `canon` sorts by type (strictly, when the types are distinct) -/
theorem canon_pairwise (b : List Comp) (h : (b.map (·.1)).Nodup) :
    (canon b).Pairwise (fun x y => x.1 < y.1) := by
  have := (strictSorted_iff _).1 (canon_sorted b h)
  exact List.pairwise_map.1 this

/-! ### uniqueness of the sorted form -/

/-- C10.1: insertion sort of a bundle with distinct types is determined by the multiset -/
theorem canon_perm {b₁ b₂ : List Comp} (hp : b₁.Perm b₂) (hn : (b₁.map (·.1)).Nodup) :
    canon b₁ = canon b₂ := by
  have hn2 : (b₂.map (·.1)).Nodup := (hp.map (·.1)).nodup_iff.1 hn
  apply List.Perm.eq_of_pairwise (le := fun x y => x.1 < y.1)
  · intro a b _ _ h1 h2; exact absurd h1 (Nat.lt_asymm h2)
  · exact canon_pairwise b₁ hn
  · exact canon_pairwise b₂ hn2
  · exact (canon_perm_self b₁).trans (hp.trans (canon_perm_self b₂).symm)

/-- C10.1: `sortNat` is determined by the multiset (no distinctness needed: `≤` is antisymmetric) -/
theorem sortNat_perm {l₁ l₂ : List Nat} (hp : l₁.Perm l₂) : sortNat l₁ = sortNat l₂ := by
  apply List.Perm.eq_of_pairwise (le := (· ≤ ·))
  · intro a b _ _ h1 h2; exact Nat.le_antisymm h1 h2
  · exact sortNat_le_sorted l₁
  · exact sortNat_le_sorted l₂
  · exact (sortNat_perm_self l₁).trans (hp.trans (sortNat_perm_self l₂).symm)

/-- for duplicate-free type lists the sorted form depends on the *set* only -/
theorem sortNat_ext {l₁ l₂ : List Nat} (h1 : l₁.Nodup) (h2 : l₂.Nodup) (h : ∀ x, x ∈ l₁ ↔ x ∈ l₂) :
    sortNat l₁ = sortNat l₂ :=
  sortNat_perm ((List.perm_ext_iff_of_nodup h1 h2).2 h)

theorem canon_count (b : List Comp) (c : Comp) : (canon b).count c = b.count c :=
  (canon_perm_self b).count_eq c

/-! ### lists with distinct keys -/

/-- a list with distinct types is, up to order, one of its elements plus the elements of other type -/
theorem perm_cons_filter_ne (l : List Comp) (c : Comp) (hn : (l.map (·.1)).Nodup) (hc : c ∈ l) :
    l.Perm (c :: l.filter (fun d => !(d.1 == c.1))) := by
  induction l with
  | nil => cases hc
  | cons d ds ih =>
    simp only [List.map_cons, List.nodup_cons] at hn
    rcases List.mem_cons.1 hc with rfl | hc
    · -- head is `c`; nothing else has its type
      have : ds.filter (fun d => !(d.1 == c.1)) = ds := by
        rw [List.filter_eq_self]
        intro x hx
        have : x.1 ≠ c.1 := fun e => hn.1 (e ▸ List.mem_map_of_mem (f := (·.1)) hx)
        simpa using this
      simp [this]
    · have hne : d.1 ≠ c.1 := fun e => hn.1 (e ▸ List.mem_map_of_mem (f := (·.1)) hc)
      have hd : (!(d.1 == c.1)) = true := by simpa using hne
      rw [List.filter_cons, if_pos hd]
      exact ((ih hn.2 hc).cons d).trans (List.Perm.swap c d _)

theorem nodup_of_keys {l : List Comp} (hn : (l.map (·.1)).Nodup) : l.Nodup :=
  (List.pairwise_map.1 hn).imp (fun h e => h (congrArg (·.1) e))

theorem keys_filter {l : List Comp} (p : Comp → Bool) (hn : (l.map (·.1)).Nodup) :
    ((l.filter p).map (·.1)).Nodup :=
  (List.filter_sublist.map _).nodup hn

/-- two values of the same type in a list with distinct types are the same value -/
theorem eq_of_key_eq {l : List Comp} (hn : (l.map (·.1)).Nodup) {c d : Comp} (hc : c ∈ l) (hd : d ∈ l)
    (h : c.1 = d.1) : c = d := by
  induction l with
  | nil => cases hc
  | cons x xs ih =>
    simp only [List.map_cons, List.nodup_cons] at hn
    have key : ∀ y : Comp, y ∈ xs → y.1 ∈ xs.map (·.1) := fun y hy => List.mem_map_of_mem (f := (·.1)) hy
    rcases List.mem_cons.1 hc with e1 | h1 <;> rcases List.mem_cons.1 hd with e2 | h2
    · rw [e1, e2]
    · subst e1; exact absurd (h ▸ key d h2) hn.1
    · subst e2; exact absurd (h ▸ key c h1) hn.1
    · exact ih hn.2 h1 h2

/-! ### `lookupComp`, `bundleGet` -/

theorem lookupComp_some {t v : Nat} {l : List Comp} (h : lookupComp t l = some v) : (t, v) ∈ l := by
  induction l with
  | nil => cases h
  | cons c cs ih =>
    simp only [lookupComp] at h
    split at h
    · rename_i hc
      simp only [Option.some.injEq] at h
      have : c = (t, v) := by cases c; simp_all
      simp [this]
    · exact List.mem_cons_of_mem _ (ih h)

theorem lookupComp_isSome_iff (t : Nat) (l : List Comp) : (lookupComp t l).isSome ↔ t ∈ l.map (·.1) := by
  induction l with
  | nil => simp [lookupComp]
  | cons c cs ih =>
    simp only [lookupComp]
    split
    · rename_i hc; simp [hc]
    · rename_i hc
      rw [ih]; simp only [List.map_cons, List.mem_cons]
      constructor
      · exact Or.inr
      · rintro (e | e)
        · exact absurd e.symm hc
        · exact e

theorem bundleGet_cons_some {vals : List Comp} {t : Nat} {ts : List Nat} {got : List Comp}
    (h : World.bundleGet vals (t :: ts) = some got) :
    ∃ v r, lookupComp t vals = some v ∧ World.bundleGet vals ts = some r ∧ got = (t, v) :: r := by
  simp only [World.bundleGet] at h
  split at h
  · rename_i v r hv hr
    simp only [Option.some.injEq] at h
    exact ⟨v, r, hv, hr, h.symm⟩
  · cases h

/-- `Bundle::get` hands the values back in field order -/
theorem bundleGet_map {vals : List Comp} {ts : List Nat} {got : List Comp}
    (h : World.bundleGet vals ts = some got) : got.map (·.1) = ts := by
  induction ts generalizing got with
  | nil => simp [World.bundleGet] at h; subst h; rfl
  | cons t ts ih =>
    obtain ⟨v, r, _, hr, rfl⟩ := bundleGet_cons_some h
    simp [ih hr]

theorem bundleGet_mem {vals : List Comp} {ts : List Nat} {got : List Comp}
    (h : World.bundleGet vals ts = some got) : ∀ c, c ∈ got → c ∈ vals := by
  induction ts generalizing got with
  | nil => simp [World.bundleGet] at h; subst h; simp
  | cons t ts ih =>
    obtain ⟨v, r, hv, hr, rfl⟩ := bundleGet_cons_some h
    intro c hc
    rcases List.mem_cons.1 hc with rfl | hc
    · exact lookupComp_some hv
    · exact ih hr c hc

/-- `Bundle::get` succeeds iff every named type is present -/
theorem bundleGet_isSome_iff (vals : List Comp) (ts : List Nat) :
    (World.bundleGet vals ts).isSome ↔ ∀ t, t ∈ ts → t ∈ vals.map (·.1) := by
  induction ts with
  | nil => simp [World.bundleGet]
  | cons t ts ih =>
    have hl := lookupComp_isSome_iff t vals
    simp only [World.bundleGet]
    cases h1 : lookupComp t vals with
    | none =>
      simp only [h1, Option.isSome_none, Bool.false_eq_true, false_iff] at hl
      simp only [Option.isSome_none, Bool.false_eq_true, List.mem_cons, false_iff]
      intro h; exact hl (h t (Or.inl rfl))
    | some v =>
      simp only [h1, Option.isSome_some, true_iff] at hl
      cases h2 : World.bundleGet vals ts with
      | none =>
        simp only [h2, Option.isSome_none, Bool.false_eq_true, false_iff] at ih
        simp only [Option.isSome_none, Bool.false_eq_true, List.mem_cons, false_iff]
        intro h; exact ih (fun t' ht' => h t' (Or.inr ht'))
      | some r =>
        simp only [h2, Option.isSome_some, true_iff] at ih
        simp only [Option.isSome_some, List.mem_cons, true_iff]
        rintro t' (rfl | ht')
        · exact hl
        · exact ih t' ht'

/-- C03 at row level for `remove`: with distinct field types the row splits into the values handed
back and the values that stay.  (With a repeated field type `got` lists a value twice: F5.) -/
theorem bundleGet_perm {vals : List Comp} {ts : List Nat} {got : List Comp}
    (h : World.bundleGet vals ts = some got) (hts : ts.Nodup) (hn : (vals.map (·.1)).Nodup) :
    vals.Perm (got ++ vals.filter (fun c => !ts.contains c.1)) := by
  induction ts generalizing got with
  | nil =>
    simp [World.bundleGet] at h; subst h
    have : vals.filter (fun c => !([] : List Nat).contains c.1) = vals := List.filter_eq_self.2 (by simp)
    rw [this]; exact List.Perm.refl _
  | cons t ts ih =>
    obtain ⟨v, r, hv, hr, rfl⟩ := bundleGet_cons_some h
    rw [List.nodup_cons] at hts
    have ih' := ih hr hts.2
    have hmem : (t, v) ∈ vals.filter (fun c => !ts.contains c.1) := by
      rw [List.mem_filter]
      refine ⟨lookupComp_some hv, ?_⟩
      simpa using hts.1
    have hsplit := perm_cons_filter_ne _ (t, v) (keys_filter _ hn) hmem
    rw [List.filter_filter] at hsplit
    have hfun : (fun c : Comp => (!(c.1 == (t, v).1)) && !ts.contains c.1)
        = (fun c : Comp => !(t :: ts).contains c.1) := by
      funext c
      simp only [List.contains_cons, Bool.not_or]
    rw [hfun] at hsplit
    exact ih'.trans ((List.Perm.append_left r hsplit).trans List.perm_middle)

/-! ### `putComp` -/

theorem putComp_cons (c d : Comp) (ds : List Comp) :
    World.putComp c (d :: ds) = (if d.1 = c.1 then c else d) :: World.putComp c ds := rfl

theorem putComp_nil (c : Comp) : World.putComp c [] = [] := rfl

/-- overwriting a type that is absent changes nothing -/
theorem putComp_absent (c : Comp) (vals : List Comp) (h : c.1 ∉ vals.map (·.1)) :
    World.putComp c vals = vals := by
  induction vals with
  | nil => rfl
  | cons d ds ih =>
    simp only [List.map_cons, List.mem_cons, not_or] at h
    rw [putComp_cons, ih h.2, if_neg (fun e => h.1 e.symm)]

/-- overwriting a present type: the old value of that type goes, the new one comes -/
theorem putComp_perm (c : Comp) (vals : List Comp) (hn : (vals.map (·.1)).Nodup)
    (hc : c.1 ∈ vals.map (·.1)) :
    (World.putComp c vals).Perm (c :: vals.filter (fun d => !(d.1 == c.1))) := by
  induction vals with
  | nil => simp at hc
  | cons d ds ih =>
    simp only [List.map_cons, List.nodup_cons] at hn
    rw [putComp_cons]
    by_cases hd : d.1 = c.1
    · rw [if_pos hd]
      have habs : c.1 ∉ ds.map (·.1) := hd ▸ hn.1
      rw [putComp_absent c ds habs]
      have hf : (d :: ds).filter (fun d => !(d.1 == c.1)) = ds := by
        rw [List.filter_cons, if_neg (by simp [hd]), List.filter_eq_self]
        intro x hx
        have : x.1 ≠ c.1 := fun e => habs (e ▸ List.mem_map_of_mem (f := (·.1)) hx)
        simpa using this
      rw [hf]
    · rw [if_neg hd]
      have hc' : c.1 ∈ ds.map (·.1) := by
        simp only [List.map_cons, List.mem_cons] at hc
        rcases hc with e | e
        · exact absurd e.symm hd
        · exact e
      have hd' : (!(d.1 == c.1)) = true := by simpa using hd
      rw [List.filter_cons, if_pos hd']
      exact ((ih hn.2 hc').cons d).trans (List.Perm.swap c d _)

/-- C03 at row level for an in-place `insert`: the bundle comes in, the values of the bundle's types
go out -/
theorem foldl_putComp_perm (b vals : List Comp) (hb : (b.map (·.1)).Nodup)
    (hn : (vals.map (·.1)).Nodup) (hsub : ∀ t, t ∈ b.map (·.1) → t ∈ vals.map (·.1)) :
    (b.foldl (fun vs c => World.putComp c vs) vals).Perm
      (b ++ vals.filter (fun d => !(b.map (·.1)).contains d.1)) := by
  induction b generalizing vals with
  | nil =>
    have : vals.filter (fun d => !(([] : List Comp).map (·.1)).contains d.1) = vals :=
      List.filter_eq_self.2 (by simp)
    rw [this]; exact List.Perm.refl _
  | cons c cs ih =>
    simp only [List.map_cons, List.nodup_cons] at hb
    simp only [List.foldl_cons]
    have hmap : (World.putComp c vals).map (·.1) = vals.map (·.1) := World.putComp_map c vals
    have hc : c.1 ∈ vals.map (·.1) := hsub c.1 (by simp)
    have h1 := ih (World.putComp c vals) hb.2 (by rw [hmap]; exact hn)
      (by intro t ht; rw [hmap]; exact hsub t (by simp [ht]))
    have h2 : ((World.putComp c vals).filter (fun d => !(cs.map (·.1)).contains d.1)).Perm
        (c :: vals.filter (fun d => !((c :: cs).map (·.1)).contains d.1)) := by
      have := (putComp_perm c vals hn hc).filter (fun d => !(cs.map (·.1)).contains d.1)
      have hck : (!(cs.map (·.1)).contains c.1) = true := by simpa using hb.1
      rw [List.filter_cons, if_pos hck, List.filter_filter] at this
      have hfun : (fun d : Comp => (!(cs.map (·.1)).contains d.1) && !(d.1 == c.1))
          = (fun d : Comp => !((c :: cs).map (·.1)).contains d.1) := by
        funext d
        simp only [List.map_cons, List.contains_cons, Bool.not_or, Bool.and_comm]
      rw [hfun] at this
      exact this
    exact h1.trans ((List.Perm.append_left cs h2).trans List.perm_middle)

/-! ### `getArch` (no hypotheses needed) -/

section GetArch
open World

theorem getArch_lt (w : World) (ts : List Nat) : (w.getArch ts).2 < (w.getArch ts).1.archs.size := by
  unfold getArch
  cases hf : findArch w.archs ts with
  | some i =>
    obtain ⟨ar, har, _⟩ := findArch_some hf
    apply Classical.byContradiction; intro hn
    simp only at hn
    rw [Array.getElem?_eq_none (by omega)] at har; cases har
  | none => simp

theorem getArch_rowsOf (w : World) (ts : List Nat) (b : Nat) : (w.getArch ts).1.rowsOf b = w.rowsOf b := by
  unfold getArch
  split
  · rfl
  · by_cases hb : b = w.archs.size
    · subst hb; simp [rowsOf]
    · simp [rowsOf, Array.getElem?_push, hb]

theorem getArch_typesOf_self (w : World) (ts : List Nat) :
    (w.getArch ts).1.typesOf (w.getArch ts).2 = ts := by
  unfold getArch
  cases hf : findArch w.archs ts with
  | some i =>
    obtain ⟨ar, har, hty⟩ := findArch_some hf
    simp [typesOf_of_get har, hty]
  | none => simp [typesOf]

theorem getArch_typesOf_old (w : World) (ts : List Nat) (b : Nat) (hb : b < w.archs.size) :
    (w.getArch ts).1.typesOf b = w.typesOf b := by
  unfold getArch
  split
  · rfl
  · simp [typesOf, Array.getElem?_push, Nat.ne_of_lt hb]

theorem getArch_size_le (w : World) (ts : List Nat) : w.archs.size ≤ (w.getArch ts).1.archs.size := by
  unfold getArch
  split
  · exact Nat.le_refl _
  · simp

theorem getArch_locOf (w : World) (ts : List Nat) (id : Nat) : (w.getArch ts).1.locOf id = w.locOf id := by
  unfold getArch
  split <;> rfl

end GetArch

/-! ### C10.2: order independence of the bundle-taking operations -/

section Order
open World

theorem contains_perm {l₁ l₂ : List Nat} (hp : l₁.Perm l₂) (x : Nat) : l₁.contains x = l₂.contains x := by
  rw [Bool.eq_iff_iff]; simp [hp.mem_iff]

theorem contains_ext {l₁ l₂ : List Nat} (h : ∀ x, x ∈ l₁ ↔ x ∈ l₂) (x : Nat) :
    l₁.contains x = l₂.contains x := by
  rw [Bool.eq_iff_iff]; simp [h x]

theorem spawnInner_perm (w : World) (e : Entity) {b₁ b₂ : List Comp} (hp : b₁.Perm b₂)
    (hn : (b₁.map (·.1)).Nodup) : w.spawnInner e b₁ = w.spawnInner e b₂ := by
  simp only [spawnInner, canon_perm hp hn]

theorem spawn_perm (w : World) {b₁ b₂ : List Comp} (hp : b₁.Perm b₂) (hn : (b₁.map (·.1)).Nodup) :
    w.spawn b₁ = w.spawn b₂ := by
  simp only [World.spawn, spawnInner_perm _ _ hp hn]

theorem spawnAt_perm (w : World) (h : Entity) {b₁ b₂ : List Comp} (hp : b₁.Perm b₂)
    (hn : (b₁.map (·.1)).Nodup) : w.spawnAt h b₁ = w.spawnAt h b₂ := by
  simp only [World.spawnAt, spawnInner_perm _ _ hp hn]

theorem putComp_comm (c d : Comp) (vals : List Comp) (h : c.1 ≠ d.1) :
    putComp c (putComp d vals) = putComp d (putComp c vals) := by
  induction vals with
  | nil => rfl
  | cons x xs ih =>
    simp only [putComp_cons, ih]
    congr 1
    by_cases h1 : x.1 = c.1 <;> by_cases h2 : x.1 = d.1
    · exact absurd (h1.symm.trans h2) h
    · simp only [if_neg h2, if_pos h1, if_neg h]
    · simp only [if_pos h2, if_neg h1, if_neg (fun e : d.1 = c.1 => h e.symm)]
    · simp only [if_neg h1, if_neg h2]

/-- the in-place overwrite does not depend on the order of the bundle's fields -/
theorem foldl_putComp_perm_eq {b₁ b₂ : List Comp} (hp : b₁.Perm b₂) (hn : (b₁.map (·.1)).Nodup)
    (vals : List Comp) :
    b₁.foldl (fun vs c => putComp c vs) vals = b₂.foldl (fun vs c => putComp c vs) vals := by
  apply hp.foldl_eq'
  intro x hx y hy z
  by_cases hxy : x = y
  · rw [hxy]
  · exact putComp_comm y x z (fun e => hxy (eq_of_key_eq hn hx hy e.symm))

/-- `insert_inner` depends on the bundle as a set of typed values only -/
theorem insertInner_perm (w : World) (e : Entity) (origin a i : Nat) {b₁ b₂ : List Comp}
    (hp : b₁.Perm b₂) (hn : (b₁.map (·.1)).Nodup)
    (hrow : ∀ r, (w.rowsOf a)[i]? = some r → (r.vals.map (·.1)).Nodup) :
    w.insertInner e b₁ origin a i = w.insertInner e b₂ origin a i := by
  have hbt := hp.map (·.1)
  have hinfo : sortNat (w.typesOf origin ++ (b₁.map (·.1)).filter (fun t => !(w.typesOf origin).contains t))
      = sortNat (w.typesOf origin ++ (b₂.map (·.1)).filter (fun t => !(w.typesOf origin).contains t)) :=
    sortNat_perm ((hbt.filter _).append_left _)
  have hf1 : (fun c : Comp => (w.typesOf origin).contains c.1 && (b₁.map (·.1)).contains c.1)
      = (fun c : Comp => (w.typesOf origin).contains c.1 && (b₂.map (·.1)).contains c.1) := by
    funext c; rw [contains_perm hbt]
  have hf2 : (fun c : Comp => (w.typesOf origin).contains c.1 && !(b₁.map (·.1)).contains c.1)
      = (fun c : Comp => (w.typesOf origin).contains c.1 && !(b₂.map (·.1)).contains c.1) := by
    funext c; rw [contains_perm hbt]
  rw [insertInner_eq, insertInner_eq]
  simp only [hinfo, hf1, hf2]
  have g_rows := getArch_rowsOf w (sortNat (w.typesOf origin ++
      (b₂.map (·.1)).filter (fun t => !(w.typesOf origin).contains t)))
  generalize w.getArch (sortNat (w.typesOf origin ++
      (b₂.map (·.1)).filter (fun t => !(w.typesOf origin).contains t))) = ga at *
  obtain ⟨w1, tgt⟩ := ga
  simp only at g_rows ⊢
  have hrn : ((((w1.rowAt a i)).getD ⟨e.id, []⟩).vals.map (·.1)).Nodup := by
    rw [rowAt_eq, g_rows]
    cases hr : (w.rowsOf a)[i]? with
    | none => simp
    | some r => exact hrow r hr
  generalize ((w1.rowAt a i)).getD ⟨e.id, []⟩ = row at *
  split
  · rw [foldl_putComp_perm_eq hp hn]
  · have hc : canon (b₁ ++ row.vals.filter
          (fun c => (w.typesOf origin).contains c.1 && !(b₂.map (·.1)).contains c.1))
        = canon (b₂ ++ row.vals.filter
          (fun c => (w.typesOf origin).contains c.1 && !(b₂.map (·.1)).contains c.1)) := by
      apply canon_perm (hp.append_right _)
      rw [List.map_append, List.nodup_append]
      refine ⟨hn, keys_filter _ hrn, ?_⟩
      intro x hx y hy hxy
      subst hxy
      obtain ⟨d, hd, rfl⟩ := List.mem_map.1 hy
      have := (List.mem_filter.1 hd).2
      have hx2 : d.1 ∈ b₂.map (·.1) := hbt.mem_iff.1 hx
      simp [hx2] at this
    rw [hc]

theorem row_nodup_of_good {w : World} (hg : w.Good) (a i : Nat) (r : Row) (h : (w.rowsOf a)[i]? = some r) :
    (r.vals.map (·.1)).Nodup := by
  rw [hg.arch.row_types a i r h]
  exact strictSorted_nodup _ (hg.arch.sorted a (lt_of_row h))

/-- C10.2 `insert`: same world, same result, the same values dropped (as a multiset) -/
theorem insert_perm (w : World) (hi : w.Inv) (e : Entity) {b₁ b₂ : List Comp} (hp : b₁.Perm b₂)
    (hn : (b₁.map (·.1)).Nodup) :
    (w.insert e b₁).1 = (w.insert e b₂).1 ∧ (w.insert e b₁).2.res = (w.insert e b₂).2.res ∧
    (w.insert e b₁).2.dropped.Perm (w.insert e b₂).2.dropped := by
  have hf := flush_flushed' w ((inv_iff_good w).1 hi)
  unfold World.insert
  simp only
  split
  · rename_i a i hget
    rw [insertInner_perm w.flush e a a i hp hn (row_nodup_of_good hf.good a i)]
    exact ⟨rfl, rfl, List.Perm.refl _⟩
  · exact ⟨rfl, rfl, hp⟩

/-- `remove` depends on the *set* of named types only (world); the values come back in field order -/
theorem remove_ext (w : World) (e : Entity) {ts₁ ts₂ : List Nat} (h : ∀ x, x ∈ ts₁ ↔ x ∈ ts₂) :
    (w.remove e ts₁).1 = (w.remove e ts₂).1 ∧ (w.remove e ts₁).2.dropped = (w.remove e ts₂).2.dropped ∧
    ((∀ got, (w.remove e ts₁).2.res ≠ .vals got) → (w.remove e ts₁).2.res = (w.remove e ts₂).2.res) ∧
    (∀ got, (w.remove e ts₁).2.res = .vals got → ∃ got', (w.remove e ts₂).2.res = .vals got') := by
  have hfun : (fun t : Nat => !ts₁.contains t) = (fun t => !ts₂.contains t) := by
    funext t; rw [contains_ext h]
  have hfun' : (fun c : Comp => !ts₁.contains c.1) = (fun c => !ts₂.contains c.1) := by
    funext c; rw [contains_ext h]
  unfold World.remove
  simp only
  cases hm : w.flush.getMut e with
  | none => simp
  | some l =>
    obtain ⟨a, i⟩ := l
    simp only
    generalize ((w.flush.rowAt a i)).getD ⟨e.id, []⟩ = row
    have hs1 := bundleGet_isSome_iff row.vals ts₁
    have hs2 := bundleGet_isSome_iff row.vals ts₂
    cases h1 : bundleGet row.vals ts₁ <;> cases h2 : bundleGet row.vals ts₂
    · simp
    · exfalso
      rw [h1] at hs1; rw [h2] at hs2
      simp only [Option.isSome_none, Bool.false_eq_true, false_iff, Option.isSome_some, true_iff] at hs1 hs2
      exact hs1 (fun t ht => hs2 t ((h t).1 ht))
    · exfalso
      rw [h1] at hs1; rw [h2] at hs2
      simp only [Option.isSome_none, Bool.false_eq_true, false_iff, Option.isSome_some, true_iff] at hs1 hs2
      exact hs2 (fun t ht => hs1 t ((h t).2 ht))
    · simp only [hfun, hfun']
      split <;> exact ⟨rfl, rfl, fun hh => absurd rfl (hh _), fun _ _ => ⟨_, rfl⟩⟩

/-- the values handed back are the looked-up values, in field order -/
theorem bundleGet_eq_map {vals : List Comp} {ts : List Nat} {got : List Comp}
    (h : bundleGet vals ts = some got) : got = ts.map (fun t => (t, (lookupComp t vals).getD 0)) := by
  induction ts generalizing got with
  | nil => simp [bundleGet] at h; subst h; rfl
  | cons t ts ih =>
    obtain ⟨v, r, hv, hr, rfl⟩ := bundleGet_cons_some h
    simp [hv, ← ih hr]

theorem bundleGet_perm_fields {vals : List Comp} {ts₁ ts₂ : List Nat} {g₁ g₂ : List Comp}
    (hp : ts₁.Perm ts₂) (h1 : bundleGet vals ts₁ = some g₁) (h2 : bundleGet vals ts₂ = some g₂) :
    g₁.Perm g₂ := by
  rw [bundleGet_eq_map h1, bundleGet_eq_map h2]; exact hp.map _

/-- what `remove` returns: the result is `vals got` exactly when the entity is live and has every named
type; then `got` is `Bundle::get` of the entity's row -/
theorem remove_res (w : World) (e : Entity) (ts : List Nat) (got : List Comp)
    (h : (w.remove e ts).2.res = .vals got) :
    ∃ a i, w.flush.getMut e = some (a, i) ∧
      bundleGet (((w.flush.rowAt a i)).getD ⟨e.id, []⟩).vals ts = some got := by
  unfold World.remove at h
  simp only at h
  split at h
  · cases h
  · rename_i a i hm
    refine ⟨a, i, hm, ?_⟩
    split at h
    · cases h
    · rename_i g hg
      split at h <;> (simp only [Res.vals.injEq] at h; subst h; exact hg)

/-- C10.2 `remove`: permuting the field list permutes the returned values; each is listed under its
own field (`got.map (·.1) = ts`) -/
theorem remove_returned_perm (w : World) (e : Entity) {ts₁ ts₂ : List Nat} (hp : ts₁.Perm ts₂)
    (g₁ g₂ : List Comp) (h1 : (w.remove e ts₁).2.res = .vals g₁) (h2 : (w.remove e ts₂).2.res = .vals g₂) :
    g₁.Perm g₂ ∧ g₁.map (·.1) = ts₁ ∧ g₂.map (·.1) = ts₂ := by
  obtain ⟨a, i, hm, hg1⟩ := remove_res w e ts₁ g₁ h1
  obtain ⟨a', i', hm', hg2⟩ := remove_res w e ts₂ g₂ h2
  rw [hm] at hm'; cases hm'
  exact ⟨bundleGet_perm_fields hp hg1 hg2, bundleGet_map hg1, bundleGet_map hg2⟩

/-- C10.2 `exchange`, bundle argument -/
theorem exchange_perm (w : World) (hi : w.Inv) (e : Entity) (ts : List Nat) {b₁ b₂ : List Comp}
    (hp : b₁.Perm b₂) (hn : (b₁.map (·.1)).Nodup) :
    (w.exchange e ts b₁).1 = (w.exchange e ts b₂).1 ∧ (w.exchange e ts b₁).2.res = (w.exchange e ts b₂).2.res ∧
    (w.exchange e ts b₁).2.dropped.Perm (w.exchange e ts b₂).2.dropped := by
  have hf := flush_flushed' w ((inv_iff_good w).1 hi)
  unfold World.exchange
  simp only
  split
  · rename_i a i hget
    split
    · refine ⟨?_, ?_, ?_⟩ <;> first | exact hp | trivial
    · have g_rows := getArch_rowsOf w.flush ((w.flush.typesOf a).filter (fun t => !ts.contains t))
      generalize w.flush.getArch ((w.flush.typesOf a).filter (fun t => !ts.contains t)) = ga at *
      obtain ⟨w1, mid⟩ := ga
      simp only at g_rows ⊢
      rw [insertInner_perm w1 e mid a i hp hn (by
        intro r hr; rw [g_rows] at hr; exact row_nodup_of_good hf.good a i r hr)]
      refine ⟨?_, ?_, ?_⟩ <;> first | exact List.Perm.refl _ | trivial
  · refine ⟨?_, ?_, ?_⟩ <;> first | exact hp | trivial

/-- C10.2 `exchange`, removed-type argument: the world and the dropped values depend on the set of
named types only -/
theorem exchange_ext (w : World) (e : Entity) (b : List Comp) {ts₁ ts₂ : List Nat}
    (h : ∀ x, x ∈ ts₁ ↔ x ∈ ts₂) :
    (w.exchange e ts₁ b).1 = (w.exchange e ts₂ b).1 ∧
    (w.exchange e ts₁ b).2.dropped = (w.exchange e ts₂ b).2.dropped := by
  have hfun : (fun t : Nat => !ts₁.contains t) = (fun t => !ts₂.contains t) := by
    funext t; rw [contains_ext h]
  unfold World.exchange
  simp only
  split
  · rename_i a i hget
    generalize ((w.flush.rowAt a i)).getD ⟨e.id, []⟩ = row
    have hs1 := bundleGet_isSome_iff row.vals ts₁
    have hs2 := bundleGet_isSome_iff row.vals ts₂
    cases h1 : bundleGet row.vals ts₁ <;> cases h2 : bundleGet row.vals ts₂
    · simp
    · exfalso
      rw [h1] at hs1; rw [h2] at hs2
      simp only [Option.isSome_none, Bool.false_eq_true, false_iff, Option.isSome_some, true_iff] at hs1 hs2
      exact hs1 (fun t ht => hs2 t ((h t).1 ht))
    · exfalso
      rw [h1] at hs1; rw [h2] at hs2
      simp only [Option.isSome_none, Bool.false_eq_true, false_iff, Option.isSome_some, true_iff] at hs1 hs2
      exact hs2 (fun t ht => hs1 t ((h t).2 ht))
    · simp only [hfun]
      refine ⟨?_, ?_⟩ <;> trivial
  · refine ⟨?_, ?_⟩ <;> trivial

end Order

end CanonLemmas
end Hecs
