import HecsModel.Lemmas.WorldInvStep
/-
  C01, second half: the world is observationally a map from handles_eff to component lists.

  This file: the observation `lookup`, its reduction to two id-indexed functions (`genAt`: the
  generation stored for an id; `valsOf`: the components stored for an id), and how the primitives
  change those two functions.
-/
namespace Hecs
namespace World

/-- what every per-entity read accessor reports: `none` = NoSuchEntity; `some cs` = exists with
components `cs` -/
def lookup (w : World) (e : Entity) : Option (List Comp) :=
  match w.get e with
  | none => none
  | some none => some []
  | some (some (a, i)) => (w.rowAt a i).map (·.vals)

/-- live = located in a row (what iteration/queries/len see) -/
def isLive (w : World) (e : Entity) : Bool :=
  match w.get e with
  | some (some _) => true
  | _ => false

/-- the generation stored for an id -/
def genAt (w : World) (id : Nat) : Option Nat := w.metas[id]?.map (·.gen)

/-- the components stored for an id -/
def valsOf (w : World) (id : Nat) : Option (List Comp) :=
  (w.locOf id).bind (fun l => (w.rowAt l.1 l.2).map (·.vals))

/-- the handle is reserved and not yet flushed -/
def Reserved (w : World) (e : Entity) : Prop :=
  (w.genAt e.id = some e.gen ∧ w.locOf e.id = none ∧ e.id ∈ w.reservedPending) ∨
  (w.metas.size ≤ e.id ∧ e.gen = 1 ∧ (e.id : Int) < (-w.cursor) + w.metas.size)

instance (w : World) (e : Entity) : Decidable (w.Reserved e) := by unfold Reserved; infer_instance

/-! ### `get` in terms of `genAt`, `locOf`, `Reserved` -/

theorem genAt_eq_some {w : World} {id g : Nat} :
    w.genAt id = some g ↔ ∃ m, w.metas[id]? = some m ∧ m.gen = g := by
  unfold genAt; cases w.metas[id]? <;> simp

theorem genAt_eq_none {w : World} {id : Nat} : w.genAt id = none ↔ w.metas.size ≤ id := by
  unfold genAt; simp

theorem genAt_lt {w : World} {id g : Nat} (h : w.genAt id = some g) : id < w.metas.size := by
  apply Classical.byContradiction; intro hn
  rw [genAt_eq_none.2 (by omega)] at h; cases h

theorem get_located {w : World} {e : Entity} {l : Nat × Nat} :
    w.get e = some (some l) ↔ w.genAt e.id = some e.gen ∧ w.locOf e.id = some l := by
  unfold get genAt locOf
  cases hm : w.metas[e.id]? with
  | none => simp
  | some m =>
    obtain ⟨g, loc⟩ := m
    by_cases hg : g = e.gen
    · subst hg
      cases loc with
      | none => simp
      | some l' => simp
    · simp [hg]

theorem get_reserved {w : World} {e : Entity} : w.get e = some none ↔ w.Reserved e := by
  unfold get Reserved genAt locOf
  cases hm : w.metas[e.id]? with
  | none =>
    have : w.metas.size ≤ e.id := by simpa using hm
    simp only [Option.map_none, Option.bind_none, reduceCtorEq, false_and, false_or]
    split
    · rename_i h; simp at h; simp [this, h]
    · rename_i h; simp at h ⊢; intro _ h1; by_cases h2 : w.cursor < 0
      · have := h h1 h2; omega
      · omega
  | some m =>
    have hlt : e.id < w.metas.size := by
      apply Classical.byContradiction; intro hn
      rw [Array.getElem?_eq_none (by omega)] at hm; cases hm
    obtain ⟨g, loc⟩ := m
    by_cases hg : g = e.gen
    · subst hg
      cases loc with
      | none => simp; omega
      | some l' => simp; omega
    · simp [hg]; omega

theorem get_none {w : World} {e : Entity} :
    w.get e = none ↔ ¬ (w.genAt e.id = some e.gen ∧ (w.locOf e.id).isSome) ∧ ¬ w.Reserved e := by
  rw [← get_reserved]
  cases h : w.get e with
  | none =>
    simp only [true_iff, reduceCtorEq, not_false_eq_true, and_true]
    rintro ⟨h1, h2⟩
    obtain ⟨l, hl⟩ := Option.isSome_iff_exists.1 h2
    rw [get_located.2 ⟨h1, hl⟩] at h; cases h
  | some o =>
    cases o with
    | none => simp
    | some l =>
      have := get_located.1 h
      simp [this.1, this.2]

/-- `lookup` through the id-indexed observations -/
theorem lookup_eq (w : World) (e : Entity) :
    w.lookup e =
      if w.genAt e.id = some e.gen ∧ (w.locOf e.id).isSome then w.valsOf e.id
      else if w.Reserved e then some [] else none := by
  unfold lookup
  cases h : w.get e with
  | none =>
    obtain ⟨h1, h2⟩ := get_none.1 h
    simp [h1, h2]
  | some o =>
    cases o with
    | none =>
      have hr := get_reserved.1 h
      have : ¬ (w.genAt e.id = some e.gen ∧ (w.locOf e.id).isSome) := by
        rintro ⟨h1, h2⟩
        obtain ⟨l, hl⟩ := Option.isSome_iff_exists.1 h2
        rw [get_located.2 ⟨h1, hl⟩] at h; cases h
      simp [this, hr]
    | some l =>
      obtain ⟨h1, h2⟩ := get_located.1 h
      obtain ⟨a, i⟩ := l
      simp [h1, h2, valsOf]

theorem isLive_eq (w : World) (e : Entity) :
    w.isLive e = decide (w.genAt e.id = some e.gen ∧ (w.locOf e.id).isSome) := by
  unfold isLive
  cases h : w.get e with
  | none => have := (get_none.1 h).1; simp [this]
  | some o =>
    cases o with
    | none =>
      have : ¬ (w.genAt e.id = some e.gen ∧ (w.locOf e.id).isSome) := by
        rintro ⟨h1, h2⟩
        obtain ⟨l, hl⟩ := Option.isSome_iff_exists.1 h2
        rw [get_located.2 ⟨h1, hl⟩] at h; cases h
      simp [this]
    | some l =>
      obtain ⟨h1, h2⟩ := get_located.1 h
      simp [h1, h2]

theorem contains_iff (w : World) (e : Entity) :
    w.contains e = true ↔ ((w.genAt e.id = some e.gen ∧ (w.locOf e.id).isSome) ∨ w.Reserved e) := by
  unfold contains Reserved genAt locOf
  split
  · rename_i m hm
    have hlt : e.id < w.metas.size := by
      apply Classical.byContradiction; intro hn
      rw [Array.getElem?_eq_none (by omega)] at hm; cases hm
    obtain ⟨g, loc⟩ := m
    rw [hm]
    cases loc <;> simp <;> omega
  · rename_i hm
    have : w.metas.size ≤ e.id := by simpa using hm
    rw [hm]; simp [this]; omega

theorem contains_eq (w : World) (e : Entity) :
    w.contains e = decide ((w.genAt e.id = some e.gen ∧ (w.locOf e.id).isSome) ∨ w.Reserved e) := by
  rw [Bool.eq_iff_iff, decide_eq_true_iff]; exact contains_iff w e

/-- `contains` is "`lookup` answers" -/
theorem contains_eq_lookup (w : World) (e : Entity) (hb : w.Bij) : w.contains e = (w.lookup e).isSome := by
  rw [contains_eq, lookup_eq]
  by_cases h1 : w.genAt e.id = some e.gen ∧ (w.locOf e.id).isSome
  · obtain ⟨l, hl⟩ := Option.isSome_iff_exists.1 h1.2
    obtain ⟨r, hr, _⟩ := hb.loc_row _ _ _ hl
    simp [h1, valsOf, hl, rowAt_eq, hr]
  · by_cases h2 : w.Reserved e <;> simp [h1, h2]

/-! ### flushed worlds -/

theorem not_reserved_of_flushed {w : World} (h : w.cursor = w.pending.size) (e : Entity) : ¬ w.Reserved e := by
  unfold Reserved reservedPending
  have : w.pending.toList.drop w.cursor.toNat = [] := by
    apply List.drop_of_length_le; rw [h]; simp
  rw [this]; simp; omega

theorem valsOf_none {w : World} {id : Nat} (h : w.locOf id = none) : w.valsOf id = none := by
  simp [valsOf, h]

theorem valsOf_of_loc {w : World} {id a i : Nat} {r : Row} (hl : w.locOf id = some (a, i))
    (hr : (w.rowsOf a)[i]? = some r) : w.valsOf id = some r.vals := by
  simp [valsOf, hl, rowAt_eq, hr]

theorem valsOf_isSome_of_loc {w : World} (hb : w.Bij) {id : Nat} {l} (hl : w.locOf id = some l) :
    ∃ r, (w.rowsOf l.1)[l.2]? = some r ∧ r.id = id ∧ w.valsOf id = some r.vals := by
  obtain ⟨a, i⟩ := l
  obtain ⟨r, hr, hid⟩ := hb.loc_row _ _ _ hl
  exact ⟨r, hr, hid, valsOf_of_loc hl hr⟩

/-- in a world without reservations `lookup` is: generation matches, then the stored components -/
theorem lookup_flushed (w : World) (h : w.cursor = w.pending.size) (e : Entity) :
    w.lookup e = if w.genAt e.id = some e.gen then w.valsOf e.id else none := by
  rw [lookup_eq]
  have hr := not_reserved_of_flushed h e
  by_cases hg : w.genAt e.id = some e.gen
  · cases hl : w.locOf e.id with
    | none => simp [hg, hr, valsOf_none hl]
    | some l => simp [hg]
  · simp [hg, hr]

theorem lookup_some_of {w : World} (h : w.cursor = w.pending.size) {e : Entity} {cs : List Comp}
    (hg : w.genAt e.id = some e.gen) (hv : w.valsOf e.id = some cs) : w.lookup e = some cs := by
  rw [lookup_flushed w h, if_pos hg, hv]

theorem lookup_none_of_gen {w : World} (h : w.cursor = w.pending.size) {e : Entity}
    (hg : w.genAt e.id ≠ some e.gen) : w.lookup e = none := by
  rw [lookup_flushed w h, if_neg hg]

theorem lookup_none_of_vals {w : World} (h : w.cursor = w.pending.size) {e : Entity}
    (hv : w.valsOf e.id = none) : w.lookup e = none := by
  rw [lookup_flushed w h, hv]; split <;> rfl

theorem lookup_congr {w w' : World} (h : w.cursor = w.pending.size) (h' : w'.cursor = w'.pending.size)
    {e : Entity} (hg : w'.genAt e.id = w.genAt e.id) (hv : w'.valsOf e.id = w.valsOf e.id) :
    w'.lookup e = w.lookup e := by
  rw [lookup_flushed w h, lookup_flushed w' h', hg, hv]

theorem valsOf_congr {w w' : World} {id : Nat} (hl : w'.locOf id = w.locOf id)
    (hr : ∀ a i, w.locOf id = some (a, i) → (w'.rowsOf a)[i]? = (w.rowsOf a)[i]?) :
    w'.valsOf id = w.valsOf id := by
  unfold valsOf; rw [hl]
  cases h : w.locOf id with
  | none => rfl
  | some l => obtain ⟨a, i⟩ := l; simp [rowAt_eq, hr a i h]

theorem Same.valsOf {w' w : World} (h : Same w' w) (id : Nat) : w'.valsOf id = w.valsOf id :=
  valsOf_congr (h.locOf id) (fun a _ _ => by rw [h.rows a])

theorem Same.genAt {w' w : World} (h : Same w' w) (id : Nat) : w'.genAt id = w.genAt id := by
  unfold World.genAt; rw [h.metas]

/-! ### place -/

theorem modMeta_genAt (w : World) (id : Nat) (f : Meta → Meta) (hf : ∀ m, (f m).gen = m.gen) (id' : Nat) :
    (w.modMeta id f).genAt id' = w.genAt id' := by
  simp only [genAt, modMeta, Array.getElem?_modify]
  split
  · subst_vars; cases w.metas[id']? <;> simp [hf]
  · rfl

@[simp] theorem setLoc_genAt (w : World) (id l id') : (w.setLoc id l).genAt id' = w.genAt id' := by
  rw [setLoc_eq]; apply modMeta_genAt; intro _; rfl

@[simp] theorem setLocIndex_genAt (w : World) (id i id') : (w.setLocIndex id i).genAt id' = w.genAt id' := by
  rw [setLocIndex_eq]; apply modMeta_genAt; intro _; rfl

@[simp] theorem modRows_genAt (w : World) (a g id) : (w.modRows a g).genAt id = w.genAt id := rfl

@[simp] theorem place_genAt (w : World) (a id vals id') : (w.place a id vals).genAt id' = w.genAt id' := by
  rw [place_eq]; simp

@[simp] theorem removeRow_genAt (w : World) (a i id) : (w.removeRow a i).genAt id = w.genAt id := by
  rw [removeRow_eq]; split <;> simp

theorem setGen_genAt (w : World) (id g id' : Nat) :
    (w.setGen id g).genAt id' = if id' = id ∧ id < w.metas.size then some g else w.genAt id' := by
  simp only [genAt, setGen, Array.getElem?_modify]
  by_cases h : id = id'
  · subst h
    by_cases h2 : id < w.metas.size
    · simp [h2]
    · simp [h2]
  · have : ¬ id' = id := fun e => h e.symm
    simp [h, this]

@[simp] theorem setGen_valsOf (w : World) (id g id' : Nat) : (w.setGen id g).valsOf id' = w.valsOf id' :=
  valsOf_congr (setGen_locOf w id g id') (fun _ _ _ => rfl)

/-- every location points at an existing row -/
def LocOK (w : World) : Prop := ∀ id b j, w.locOf id = some (b, j) → j < (w.rowsOf b).size

theorem Bij.locOK {w : World} (h : w.Bij) : w.LocOK := by
  intro id b j hl
  obtain ⟨r, hr, _⟩ := h.loc_row id b j hl
  grind

theorem place_valsOf (w : World) (a id : Nat) (vals : List Comp) (id' : Nat) (ha : a < w.archs.size)
    (hid : id < w.metas.size) (hl : w.LocOK) :
    (w.place a id vals).valsOf id' = if id' = id then some vals else w.valsOf id' := by
  by_cases hi : id' = id
  · subst hi
    rw [if_pos rfl]
    apply valsOf_of_loc (r := ⟨id', vals⟩) (a := a) (i := (w.rowsOf a).size)
    · rw [place_locOf _ _ _ _ _ hid]; simp
    · rw [place_get _ _ _ _ _ _ ha]; simp
  · rw [if_neg hi]
    apply valsOf_congr
    · rw [place_locOf _ _ _ _ _ hid]; simp [hi]
    · intro b j hh
      have := hl _ _ _ hh
      rw [place_get _ _ _ _ _ _ ha]
      grind

/-! ### removeRow -/

theorem removeRow_valsOf (w : World) (a i id : Nat) (h : w.BijEx a i) :
    (w.removeRow a i).valsOf id = w.valsOf id := by
  obtain ⟨h1, h2, h3⟩ := h
  obtain ⟨m, hm⟩ : ∃ m, (w.rowsOf a)[(w.rowsOf a).size - 1]? = some m :=
    ⟨(w.rowsOf a)[(w.rowsOf a).size - 1], by grind⟩
  by_cases hi : i = (w.rowsOf a).size - 1
  · apply valsOf_congr
    · rw [removeRow_locOf]; simp [hi]
    · intro b j hl
      have := h1 id b j hl
      rw [removeRow_get]
      grind
  · have hl := h2 a _ m hm (by omega)
    by_cases hid : id = m.id
    · subst hid
      rw [valsOf_of_loc hl hm]
      apply valsOf_of_loc (a := a) (i := i)
      · rw [removeRow_locOf' w a i _ m hm hl]; simp
      · rw [removeRow_get]; grind
    · apply valsOf_congr
      · rw [removeRow_locOf' w a i _ m hm hl]; simp [hid]
      · intro b j hh
        have := h1 id b j hh
        rw [removeRow_get]
        grind

end World
end Hecs
