import HecsModel.Lemmas.SpecRefine
import HecsModel.Lemmas.SerdeLive
/-
  Refinement of the abstract map specification, `clear`: the values the model drops are, as a multiset,
  the values the abstract state lists (one row per live handle: `liveRows_nodup`, `mem_liveRows_iff`;
  reserved handles contribute nothing on either side).
-/
namespace Hecs
namespace Spec
open Hecs.SerdeLemmas

theorem clear_dropped_liveRows (w : World) : (w.clear).2.dropped = w.liveRows.flatMap (·.2) := by
  simp only [World.clear, World.liveRows, List.flatMap_assoc, List.flatMap_map]
  
theorem flatMap_filter_ne (l : List (Entity × List Comp)) :
    (l.filter (fun p => !p.2.isEmpty)).flatMap (·.2) = l.flatMap (·.2) := by
  induction l with
  | nil => rfl
  | cons p l ih =>
    cases hp : p.2 with
    | nil => simp [hp, ih]
    | cons c cs => simp [hp, ih]

theorem mem_iff_find (l : List (Entity × List Comp)) (hk : (l.map (·.1)).Nodup) (e : Entity) (cs : List Comp) :
    (e, cs) ∈ l ↔ (l.find? (·.1 == e)).map (·.2) = some cs := by
  induction l with
  | nil => simp
  | cons p l ih =>
    obtain ⟨e', cs'⟩ := p
    simp only [List.map_cons, List.nodup_cons, List.mem_map, not_exists, not_and] at hk
    by_cases h : e' = e
    · subst h
      simp only [List.mem_cons, Prod.mk.injEq, true_and, List.find?_cons, beq_self_eq_true, Option.map_some, Option.some.injEq]
      constructor
      · rintro (h | h)
        · exact h.symm
        · exact absurd rfl (hk.1 (e', cs) h)
      · intro h; exact Or.inl h.symm
    · have hb : ((e', cs').1 == e) = false := by simpa using h
      simp only [List.mem_cons, Prod.mk.injEq, List.find?_cons, hb]
      rw [← ih hk.2]
      constructor
      · rintro (⟨h', _⟩ | h')
        · exact absurd h'.symm h
        · exact h'
      · exact Or.inr

theorem lookup_nonempty_live (w : World) (e : Entity) (cs : List Comp) (h : w.lookup e = some cs)
    (hne : cs ≠ []) : w.isLive e = true := by
  rw [World.isLive_eq, decide_eq_true_iff]
  rw [World.lookup_eq] at h
  by_cases hl : w.genAt e.id = some e.gen ∧ (w.locOf e.id).isSome
  · exact hl
  · rw [if_neg hl] at h
    split at h
    · cases h; exact absurd rfl hne
    · cases h

theorem clear_perm (s : SpecW) (w : World) (hs : Sim s w) (hw : w.Inv) :
    ((w.clear).2.dropped).Perm (s.live.flatMap (·.2)) := by
  have hfl : s.flush.live.flatMap (·.2) = s.live.flatMap (·.2) := by
    simp [SpecW.flush, List.flatMap_append, List.flatMap_map]
  rw [clear_dropped_liveRows, ← hfl, ← flatMap_filter_ne w.liveRows, ← flatMap_filter_ne s.flush.live]
  apply List.Perm.flatMap_right
  have hk : (s.flush.live.map (·.1)).Nodup := by rw [SpecW.flush_keys]; exact hs.keys
  have n1 : w.liveRows.Nodup :=
    (List.pairwise_map.1 (World.liveRows_nodup w hw.core)).imp (fun h e => h (congrArg (·.1.id) e))
  have n2 : s.flush.live.Nodup := (List.pairwise_map.1 hk).imp (fun h e => h (congrArg (·.1) e))
  refine (List.perm_ext_iff_of_nodup (n1.filter _) (n2.filter _)).2 ?_
  rintro ⟨e, cs⟩
  simp only [List.mem_filter]
  rw [mem_liveRows_iff w hw.core, mem_iff_find _ hk]
  have hl := hs.look e
  unfold SpecW.lookup at hl
  rw [hl]
  constructor
  · rintro ⟨⟨_, h⟩, hne⟩; exact ⟨h, hne⟩
  · rintro ⟨h, hne⟩
    exact ⟨⟨lookup_nonempty_live w e cs h (by intro h0; subst h0; simp at hne), h⟩, hne⟩

theorem accepts_clear (s : SpecW) (w : World) (hs : Sim s w) (hw : w.Inv) :
    ∃ s', apply s .clear (Hecs.step w .clear).2.res (Hecs.step w .clear).2.dropped = .ok s' ∧
      Rel s' (Hecs.step w .clear).1 :=
  accepts_clear_of_perm s w (clear_perm s w hs hw)
end Spec
end Hecs
