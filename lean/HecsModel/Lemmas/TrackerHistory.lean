import HecsModel.Lemmas.TrackerReports
import HecsModel.Props.C02
/-
  C18 (ChangeTracker), part 6: histories of several operations between two `track`s.  `KeepsP` alone is
  not transitive (a handle could in principle die and come back); the relation `Hist` adds that dead
  handles stay dead, which holds for `spawn`/`insert`/`remove`/`despawn`/`flush` because they never
  lower a stored generation (`World.gen_step`).
-/
namespace Hecs.TrackerLemmas
open Hecs Hecs.World Hecs.Tracker

/-- the id is allocated with a generation newer than the handle's: the handle is dead for good -/
def Gone (w : World) (e : Entity) : Prop := e.id < w.metas.size ∧ e.gen < w.genOf e.id

theorem Gone.not_ex {w : World} {e : Entity} (h : Gone w e) : ex w e = false := by
  obtain ⟨h1, _, _, _⟩ := World.stale_gen w e h.1 (by have := h.2; omega)
  simp [TrackerLemmas.ex, World.lookup, h1]

theorem Gone.step {w : World} {e : Entity} (h : Gone w e) (op : Op) (hr : op.resurrects e.id = false) :
    Gone (Hecs.step w op).1 e := by
  obtain ⟨h1, h2⟩ := World.gen_step w op e.id hr
  exact ⟨Nat.lt_of_lt_of_le h.1 h1, Nat.lt_of_lt_of_le h.2 h2⟩

theorem NoP.resurrects {p : Nat} {op : Op} (h : NoP p op) (id : Nat) : op.resurrects id = false := by
  cases op <;> first | rfl | exact absurd h (by simp [NoP])

/-- the history `w0 ⟶ w1` keeps `p`, and dead handles stay dead -/
structure Hist (p : Nat) (w0 w1 : World) : Prop where
  keep : ∀ e, ex w0 e = true → (ex w1 e = true ∧ comp w1 e p = comp w0 e p) ∨ Gone w1 e
  new : ∀ e, ex w0 e = false → ex w1 e = true → comp w1 e p = none
  gone : ∀ e, Gone w0 e → Gone w1 e

theorem Hist.refl (p : Nat) (w : World) : Hist p w w :=
  ⟨fun _ h => Or.inl ⟨h, rfl⟩, fun _ h1 h2 => (by rw [h1] at h2; cases h2), fun _ h => h⟩

theorem Hist.trans {p : Nat} {w0 w1 w2 : World} (h1 : Hist p w0 w1) (h2 : Hist p w1 w2) : Hist p w0 w2 := by
  refine ⟨?_, ?_, fun e h => h2.gone e (h1.gone e h)⟩
  · intro e he
    rcases h1.keep e he with ⟨a, b⟩ | g
    · rcases h2.keep e a with ⟨c, d⟩ | g
      · exact Or.inl ⟨c, d.trans b⟩
      · exact Or.inr g
    · exact Or.inr (h2.gone e g)
  · intro e he0 he2
    cases he1 : ex w1 e with
    | false => exact h2.new e he1 he2
    | true =>
      rcases h2.keep e he1 with ⟨_, d⟩ | g
      · rw [d]; exact h1.new e he0 he1
      · rw [g.not_ex] at he2; cases he2

theorem Hist.keepsP {p : Nat} {w0 w1 : World} (h : Hist p w0 w1) : KeepsP p w0 w1 := by
  intro e he
  cases he0 : ex w0 e with
  | true =>
    rcases h.keep e he0 with ⟨_, b⟩ | g
    · exact b
    · rw [g.not_ex] at he; cases he
  | false =>
    rw [h.new e he0 he]
    have : w0.lookup e = none := by
      unfold TrackerLemmas.ex at he0
      cases hl : w0.lookup e with
      | none => rfl
      | some cs => rw [hl] at he0; cases he0
    exact (comp_of_lookup_none this p).symm

/-! ### handles survive every operation except their own `despawn` -/

theorem ex_of_lookup {w : World} {e : Entity} {cs : List Comp} (h : w.lookup e = some cs) : ex w e = true := by
  simp [TrackerLemmas.ex, h]

theorem lookup_of_ex {w : World} {e : Entity} (h : ex w e = true) : ∃ cs, w.lookup e = some cs :=
  Option.isSome_iff_exists.1 h

theorem ex_insert (w : World) (hw : w.Inv) (e0 : Entity) (b : List Comp) (hb : (Op.insert e0 b).WF)
    (e : Entity) (he : ex w e = true) : ex (w.insert e0 b).1 e = true := by
  obtain ⟨cs, hcs⟩ := lookup_of_ex he
  have hfl := World.lookup_flush w hw
  by_cases h : e = e0
  · subst h
    obtain ⟨_, _, new, h3, _⟩ := Props.C01.insert_effect w e b hw hb cs (by rw [hfl]; exact hcs)
    exact ex_of_lookup h3
  · apply ex_of_lookup (cs := cs)
    rw [Props.C01.insert_frame w e0 b hw hb e h, hfl, hcs]

theorem ex_remove (w : World) (hw : w.Inv) (e0 : Entity) (ts : List Nat)
    (e : Entity) (he : ex w e = true) : ex (w.remove e0 ts).1 e = true := by
  obtain ⟨cs, hcs⟩ := lookup_of_ex he
  have hfl := World.lookup_flush w hw
  by_cases h : e = e0
  · subst h
    have hlk : w.flush.lookup e = some cs := by rw [hfl]; exact hcs
    cases hg : World.bundleGet cs ts with
    | none =>
      rw [(Props.C01.remove_cases w e ts hw).2 cs hlk hg]
      exact ex_of_lookup hlk
    | some got =>
      exact ex_of_lookup (Props.C01.remove_effect w e ts hw cs got hlk hg).2.2.2.2
  · apply ex_of_lookup (cs := cs)
    rw [Props.C01.remove_frame w e0 ts hw e h, hfl, hcs]

theorem ex_spawn (w : World) (hw : w.Inv) (b : List Comp) (hb : (Op.spawn b).WF)
    (e : Entity) (he : ex w e = true) : ex (w.spawn b).1 e = true := by
  obtain ⟨cs, hcs⟩ := lookup_of_ex he
  have hfl := World.lookup_flush w hw
  obtain ⟨en, _, _, h3, _, h5⟩ := Props.C01.spawn_effect w b hw hb
  have hne : e ≠ en := by
    rintro rfl
    have := h3 e.gen
    rw [hfl, hcs] at this; cases this
  apply ex_of_lookup (cs := cs)
  rw [h5 e hne, hfl, hcs]

theorem despawn_ex_or_gone (w : World) (hw : w.Inv) (e0 : Entity) (e : Entity) (he : ex w e = true) :
    ex (w.despawn e0).1 e = true ∨ Gone (w.despawn e0).1 e := by
  obtain ⟨cs, hcs⟩ := lookup_of_ex he
  have hfl := World.lookup_flush w hw
  by_cases h : e = e0
  · subst h
    right
    have hlk : w.flush.lookup e = some cs := by rw [hfl]; exact hcs
    have hok := (Props.C01.despawn_effect w e hw cs hlk).1
    have hgen := (Props.C02.despawn_kills w e hw hok).1
    rcases World.despawn_cases w e with ⟨_, h2⟩ | ⟨m, a, i, hm, _, _, h2, _⟩
    · rw [h2] at hok; cases hok
    · have hlt := World.lt_of_meta hm
      have k := World.removeRow_keeps (w.flush.freed e.id m) a i
      refine ⟨?_, by rw [hgen]; omega⟩
      rw [h2]
      have := k.size
      rw [World.freed_size] at this
      omega
  · left
    apply ex_of_lookup (cs := cs)
    rw [Props.C01.despawn_frame w e0 hw e h, hfl, hcs]

theorem Hist.step (p : Nat) (w : World) (hw : w.Inv) (op : Op) (hop : op.WF) (hnp : NoP p op) :
    Hist p w (Hecs.step w op).1 := by
  have hk := keepsP_step p w hw op hop hnp
  refine ⟨?_, ?_, fun e h => h.step op (hnp.resurrects e.id)⟩
  · intro e he
    have hor : ex (Hecs.step w op).1 e = true ∨ Gone (Hecs.step w op).1 e := by
      cases op with
      | spawn b => exact Or.inl (ex_spawn w hw b hop e he)
      | insert e0 b => exact Or.inl (ex_insert w hw e0 b hop e he)
      | remove e0 ts => exact Or.inl (ex_remove w hw e0 ts e he)
      | despawn e0 => exact despawn_ex_or_gone w hw e0 e he
      | flush => exact Or.inl (by show ex w.flush e = true; rw [ex_flush w hw]; exact he)
      | _ => exact absurd hnp (by simp [NoP])
    rcases hor with h | h
    · exact Or.inl ⟨h, hk e h⟩
    · exact Or.inr h
  · intro e he0 he1
    rw [hk e he1]
    have : w.lookup e = none := by
      unfold TrackerLemmas.ex at he0
      cases hl : w.lookup e with
      | none => rfl
      | some cs => rw [hl] at he0; cases he0
    exact comp_of_lookup_none this p

theorem Hist.foldl (p : Nat) (ops : List Op) (w : World) (hw : w.Inv)
    (hops : ∀ op, op ∈ ops → op.WF ∧ NoP p op) :
    Hist p w (ops.foldl (fun w op => (Hecs.step w op).1) w) := by
  induction ops generalizing w with
  | nil => exact Hist.refl p w
  | cons op ops ih =>
    rw [List.foldl_cons]
    have h1 := hops op (by simp)
    exact (Hist.step p w hw op h1.1 h1.2).trans
      (ih _ (World.inv_step w op h1.1 hw) (fun o ho => hops o (List.mem_cons_of_mem _ ho)))

/-- any number of operations not mentioning `p` keep `p` -/
theorem keepsP_foldl (p : Nat) (ops : List Op) (w : World) (hw : w.Inv)
    (hops : ∀ op, op ∈ ops → op.WF ∧ NoP p op) :
    KeepsP p w (ops.foldl (fun w op => (Hecs.step w op).1) w) :=
  (Hist.foldl p ops w hw hops).keepsP

end Hecs.TrackerLemmas
