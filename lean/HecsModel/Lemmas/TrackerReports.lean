import HecsModel.Lemmas.TrackerTrack
/-
  C18 (ChangeTracker), part 5: the reports of a `track` (every read, in any order, with repetitions),
  the connection with the specification (`specAdded`, `specChanged`, `specRemoved` of two
  snapshots), and the two-step statement (`track`; operations not touching `p`; `track`).
-/
namespace Hecs.TrackerLemmas
open Hecs Hecs.World Hecs.Tracker

def isAddedRead : Read → Bool
  | .added _ => true
  | _ => false

def isChangedRead : Read → Bool
  | .changed _ => true
  | _ => false

def isRemovedRead : Read → Bool
  | .removed _ => true
  | _ => false

/-! ### what a read reports in a state reached by earlier reads -/

section
variable {t p : Nat} {w0 : World} {s : CSt}

theorem RInv.report_added (htp : t ≠ p) (h : RInv t p w0 s) (e : Entity) (v : Nat) :
    (e, v) ∈ (Tracker.doAdded t p s).2 ↔ IsAdded t p w0 e v :=
  (mem_doAdded t p s h.inv e v).trans (h.isAdded_iff htp e v)

theorem RInv.report_changed (htp : t ≠ p) (h : RInv t p w0 s) (e : Entity) (o n : Nat) :
    (e, o, n) ∈ (Tracker.doChanged t p s).2 ↔ s.changedFlag = false ∧ IsChanged t p w0 e o n :=
  (mem_doChanged t p s h.inv e o n).trans (h.isChanged_iff htp e o n)

theorem RInv.report_removed (htp : t ≠ p) (h : RInv t p w0 s) (e : Entity) (o : Nat) :
    (e, o) ∈ (Tracker.doRemoved t p s).2 ↔ s.removedFlag = false ∧ IsRemoved t p w0 e o :=
  (mem_doRemoved t p s h.inv e o).trans (h.isRemoved_iff htp e o)

theorem RInv.report_changed_again (htp : t ≠ p) (h : RInv t p w0 s) (hf : s.changedFlag = true) :
    (Tracker.doChanged t p s).2 = [] := by
  apply List.eq_nil_iff_forall_not_mem.2
  rintro ⟨e, o, n⟩ hx
  have := ((h.report_changed htp e o n).1 hx).1
  rw [hf] at this; cases this

theorem RInv.report_removed_again (htp : t ≠ p) (h : RInv t p w0 s) (hf : s.removedFlag = true) :
    (Tracker.doRemoved t p s).2 = [] := by
  apply List.eq_nil_iff_forall_not_mem.2
  rintro ⟨e, o⟩ hx
  have := ((h.report_removed htp e o).1 hx).1
  rw [hf] at this; cases this

end

/-! ### the flags record which kinds have been read -/

theorem doRead_flags (t p : Nat) (s : CSt) (rep : Reports) (r : Read) :
    (doRead t p s rep r).1.addedFlag = (s.addedFlag || isAddedRead r) ∧
    (doRead t p s rep r).1.changedFlag = (s.changedFlag || isChangedRead r) ∧
    (doRead t p s rep r).1.removedFlag = (s.removedFlag || isRemovedRead r) := by
  cases r <;> simp [doRead, doAdded, doChanged, doRemoved, isAddedRead, isChangedRead, isRemovedRead]

theorem foldl_flags (t p : Nat) (reads : List Read) (s : CSt) (rep : Reports) :
    (reads.foldl (fun acc r => doRead t p acc.1 acc.2 r) (s, rep)).1.addedFlag =
      (s.addedFlag || reads.any isAddedRead) ∧
    (reads.foldl (fun acc r => doRead t p acc.1 acc.2 r) (s, rep)).1.changedFlag =
      (s.changedFlag || reads.any isChangedRead) ∧
    (reads.foldl (fun acc r => doRead t p acc.1 acc.2 r) (s, rep)).1.removedFlag =
      (s.removedFlag || reads.any isRemovedRead) := by
  induction reads generalizing s rep with
  | nil => simp
  | cons r rs ih =>
    rw [List.foldl_cons]
    obtain ⟨i1, i2, i3⟩ := ih (doRead t p s rep r).1 (doRead t p s rep r).2
    obtain ⟨f1, f2, f3⟩ := doRead_flags t p s rep r
    rw [i1, i2, i3, f1, f2, f3]
    simp [Bool.or_assoc]

theorem runReads_flags (t p : Nat) (w : World) (reads : List Read) :
    (runReads t p w reads).1.addedFlag = reads.any isAddedRead ∧
    (runReads t p w reads).1.changedFlag = reads.any isChangedRead ∧
    (runReads t p w reads).1.removedFlag = reads.any isRemovedRead := by
  have := foldl_flags t p reads ({ w := w } : CSt) ({} : Reports)
  simpa [runReads] using this

/-- the run of `pre ++ r :: post` performs `r` in the state reached by `pre` -/
theorem runReads_append (t p : Nat) (w : World) (pre post : List Read) (r : Read) :
    runReads t p w (pre ++ r :: post) =
      post.foldl (fun acc r => doRead t p acc.1 acc.2 r)
        (doRead t p (runReads t p w pre).1 (runReads t p w pre).2 r) := by
  simp [runReads, List.foldl_append]

/-- 4(a): what any read reports, whatever was read before (`pre`), relative to the world at the
start of `track`: `added` always reports the added set; `changed` (`removed`) reports the changed
(removed) set the first time and nothing afterwards -/
theorem read_after {t p : Nat} (htp : t ≠ p) (w : World) (hw : w.Inv) (pre : List Read) :
    (∀ e v, (e, v) ∈ (doAdded t p (runReads t p w pre).1).2 ↔ IsAdded t p w e v) ∧
    (∀ e o n, (e, o, n) ∈ (doChanged t p (runReads t p w pre).1).2 ↔
      pre.any isChangedRead = false ∧ IsChanged t p w e o n) ∧
    (∀ e o, (e, o) ∈ (doRemoved t p (runReads t p w pre).1).2 ↔
      pre.any isRemovedRead = false ∧ IsRemoved t p w e o) := by
  have h := runReads_rinv htp w hw pre
  obtain ⟨_, f2, f3⟩ := runReads_flags t p w pre
  refine ⟨h.report_added htp, ?_, ?_⟩
  · intro e o n; rw [h.report_changed htp, f2]
  · intro e o; rw [h.report_removed htp, f3]

/-! ### the reports kept by `track` -/

/-- the reports gathered so far are the specified ones -/
structure RepInv (t p : Nat) (w0 : World) (s : CSt) (rep : Reports) : Prop where
  addedSome : rep.added.isSome = s.addedFlag
  added : ∀ l, rep.added = some l → ∀ e v, (e, v) ∈ l ↔ IsAdded t p w0 e v
  changedSome : rep.changed.isSome = s.changedFlag
  changed : ∀ l, rep.changed = some l → ∀ e o n, (e, o, n) ∈ l ↔ IsChanged t p w0 e o n
  removedSome : rep.removed.isSome = s.removedFlag
  removed : ∀ l, rep.removed = some l → ∀ e o, (e, o) ∈ l ↔ IsRemoved t p w0 e o

theorem RepInv.init (t p : Nat) (w0 : World) : RepInv t p w0 { w := w0 } {} :=
  ⟨rfl, fun _ h => (by cases h), rfl, fun _ h => (by cases h), rfl, fun _ h => (by cases h)⟩

theorem RepInv.doRead {t p : Nat} {w0 : World} {s : CSt} {rep : Reports} (htp : t ≠ p)
    (h : RInv t p w0 s) (hr : RepInv t p w0 s rep) (r : Read)
    (hc : isChangedRead r = true → s.changedFlag = false)
    (hrm : isRemovedRead r = true → s.removedFlag = false) :
    RepInv t p w0 (Tracker.doRead t p s rep r).1 (Tracker.doRead t p s rep r).2 := by
  cases r with
  | added b =>
    refine ⟨rfl, ?_, hr.changedSome, hr.changed, hr.removedSome, hr.removed⟩
    intro l hl e v
    have : l = (Tracker.doAdded t p s).2 := by
      simp only [Tracker.doRead] at hl; exact (Option.some.inj hl).symm
    rw [this]; exact h.report_added htp e v
  | changed b =>
    refine ⟨hr.addedSome, hr.added, rfl, ?_, hr.removedSome, hr.removed⟩
    intro l hl e o n
    have : l = (Tracker.doChanged t p s).2 := by
      simp only [Tracker.doRead] at hl; exact (Option.some.inj hl).symm
    rw [this, h.report_changed htp, hc rfl]; simp
  | removed b =>
    refine ⟨hr.addedSome, hr.added, hr.changedSome, hr.changed, rfl, ?_⟩
    intro l hl e o
    have : l = (Tracker.doRemoved t p s).2 := by
      simp only [Tracker.doRead] at hl; exact (Option.some.inj hl).symm
    rw [this, h.report_removed htp, hrm rfl]; simp

theorem countP_cons_le {α} (q : α → Bool) (r : α) (rs : List α) (h : (r :: rs).countP q ≤ 1) :
    rs.countP q ≤ 1 ∧ (q r = true → rs.countP q = 0) := by
  rw [List.countP_cons] at h
  constructor
  · omega
  · intro hq; rw [if_pos hq] at h; omega

theorem RepInv.foldl {t p : Nat} {w0 : World} (htp : t ≠ p) (reads : List Read) (s : CSt) (rep : Reports)
    (h : RInv t p w0 s) (hr : RepInv t p w0 s rep)
    (hc1 : reads.countP isChangedRead ≤ 1) (hc0 : s.changedFlag = true → reads.countP isChangedRead = 0)
    (hr1 : reads.countP isRemovedRead ≤ 1) (hr0 : s.removedFlag = true → reads.countP isRemovedRead = 0) :
    RepInv t p w0 (reads.foldl (fun acc r => Tracker.doRead t p acc.1 acc.2 r) (s, rep)).1
      (reads.foldl (fun acc r => Tracker.doRead t p acc.1 acc.2 r) (s, rep)).2 := by
  induction reads generalizing s rep with
  | nil => exact hr
  | cons r rs ih =>
    rw [List.foldl_cons]
    obtain ⟨c1, c2⟩ := countP_cons_le _ r rs hc1
    obtain ⟨r1, r2⟩ := countP_cons_le _ r rs hr1
    obtain ⟨_, f2, f3⟩ := doRead_flags t p s rep r
    have hcr : isChangedRead r = true → s.changedFlag = false := by
      intro hq
      cases hf : s.changedFlag with
      | false => rfl
      | true => have := hc0 hf; rw [List.countP_cons, hq] at this; simp at this
    have hrr : isRemovedRead r = true → s.removedFlag = false := by
      intro hq
      cases hf : s.removedFlag with
      | false => rfl
      | true => have := hr0 hf; rw [List.countP_cons, hq] at this; simp at this
    apply ih _ _ (h.doRead htp rep r) (hr.doRead htp h r hcr hrr) c1 _ r1
    · rw [f3]; intro hh
      rcases Bool.or_eq_true_iff.1 hh with h1 | h1
      · have := hr0 h1; rw [List.countP_cons] at this; omega
      · exact r2 h1
    · rw [f2]; intro hh
      rcases Bool.or_eq_true_iff.1 hh with h1 | h1
      · have := hc0 h1; rw [List.countP_cons] at this; omega
      · exact c2 h1

/-- 4(b): with `changed` and `removed` read at most once each (and `added` any number of times), in
any order, the reports returned by `track` are exactly the specified sets, for the kinds read -/
theorem track_reports {t p : Nat} (htp : t ≠ p) (w : World) (hw : w.Inv) (reads : List Read)
    (hc : reads.countP isChangedRead ≤ 1) (hr : reads.countP isRemovedRead ≤ 1) :
    ((track t p w reads).2.added.isSome = reads.any isAddedRead ∧
      ∀ l, (track t p w reads).2.added = some l → ∀ e v, (e, v) ∈ l ↔ IsAdded t p w e v) ∧
    ((track t p w reads).2.changed.isSome = reads.any isChangedRead ∧
      ∀ l, (track t p w reads).2.changed = some l → ∀ e o n, (e, o, n) ∈ l ↔ IsChanged t p w e o n) ∧
    ((track t p w reads).2.removed.isSome = reads.any isRemovedRead ∧
      ∀ l, (track t p w reads).2.removed = some l → ∀ e o, (e, o) ∈ l ↔ IsRemoved t p w e o) := by
  have h := RepInv.foldl htp reads _ _ (RInv.init t p w hw) (RepInv.init t p w) hc
    (fun hh => by cases hh) hr (fun hh => by cases hh)
  obtain ⟨f1, f2, f3⟩ := runReads_flags t p w reads
  rw [track_eq]
  exact ⟨⟨h.addedSome.trans f1, h.added⟩, ⟨h.changedSome.trans f2, h.changed⟩,
    ⟨h.removedSome.trans f3, h.removed⟩⟩

/-! ### the specification: differences of two snapshots -/

theorem mem_specAdded_iff (prev cur : List (Entity × Nat)) (e : Entity) (v : Nat) :
    (e, v) ∈ specAdded prev cur ↔ (e, v) ∈ cur ∧ ∀ o, (e, o) ∉ prev := by
  simp only [specAdded, List.mem_filter, Bool.not_eq_true', List.any_eq_false, beq_iff_eq]
  constructor
  · rintro ⟨h1, h2⟩
    exact ⟨h1, fun o ho => h2 (e, o) ho rfl⟩
  · rintro ⟨h1, h2⟩
    refine ⟨h1, ?_⟩
    rintro ⟨e', o⟩ hx heq
    simp only at heq
    subst heq
    exact h2 o hx

theorem mem_specChanged_iff (prev cur : List (Entity × Nat))
    (hfun : ∀ e o o', (e, o) ∈ prev → (e, o') ∈ prev → o = o') (e : Entity) (o n : Nat) :
    (e, o, n) ∈ specChanged prev cur ↔ (e, n) ∈ cur ∧ (e, o) ∈ prev ∧ o ≠ n := by
  simp only [specChanged, List.mem_filterMap]
  constructor
  · rintro ⟨⟨e', n'⟩, hc, hm⟩
    simp only at hm
    cases hf : prev.find? (fun x => x.1 == e') with
    | none => simp [hf] at hm
    | some x =>
      simp only [hf] at hm
      have hxm := List.mem_of_find?_eq_some hf
      have hxe := List.find?_some hf
      simp only [beq_iff_eq] at hxe
      split at hm
      · rename_i hne
        simp only [Option.some.injEq, Prod.mk.injEq] at hm
        obtain ⟨rfl, rfl, rfl⟩ := hm
        refine ⟨hc, ?_, by simpa using hne⟩
        obtain ⟨x1, x2⟩ := x
        simp only at hxe
        subst hxe
        exact hxm
      · cases hm
  · rintro ⟨hc, hp, hne⟩
    refine ⟨(e, n), hc, ?_⟩
    simp only
    cases hf : prev.find? (fun x => x.1 == e) with
    | none =>
      have := List.find?_eq_none.1 hf (e, o) hp
      simp at this
    | some x =>
      have hxm := List.mem_of_find?_eq_some hf
      have hxe := List.find?_some hf
      simp only [beq_iff_eq] at hxe
      obtain ⟨x1, x2⟩ := x
      simp only at hxe
      subst hxe
      have := hfun x1 x2 o hxm hp
      subst this
      simp [hne]

theorem mem_specRemoved_iff (prev cur : List (Entity × Nat)) (live : List Entity) (e : Entity) (o : Nat) :
    (e, o) ∈ specRemoved prev cur live ↔ (e, o) ∈ prev ∧ e ∈ live ∧ ∀ v, (e, v) ∉ cur := by
  simp only [specRemoved, List.mem_filter, Bool.and_eq_true, List.contains_iff_mem, Bool.not_eq_true',
    List.any_eq_false, beq_iff_eq]
  constructor
  · rintro ⟨h1, h2, h3⟩
    exact ⟨h1, h2, fun v hv => h3 (e, v) hv rfl⟩
  · rintro ⟨h1, h2, h3⟩
    refine ⟨h1, h2, ?_⟩
    rintro ⟨e', v⟩ hx heq
    simp only at heq
    subst heq
    exact h3 v hx

theorem snapshot_functional (w : World) (hc : w.Core) (c : Nat) (e : Entity) (o o' : Nat)
    (h1 : (e, o) ∈ snapshot w.liveRows c) (h2 : (e, o') ∈ snapshot w.liveRows c) : o = o' := by
  rw [mem_snapshot_iff w hc] at h1 h2
  rw [h1] at h2
  exact Option.some.inj h2

/-- the three classes of one world are the specified differences between its snapshot components
(`prev`) and its tracked components (`cur`) -/
theorem classes_eq_spec (t p : Nat) (w : World) (hw : w.Inv) :
    (∀ e v, IsAdded t p w e v ↔ (e, v) ∈ specAdded (snapshot w.liveRows p) (snapshot w.liveRows t)) ∧
    (∀ e o n, IsChanged t p w e o n ↔
      (e, o, n) ∈ specChanged (snapshot w.liveRows p) (snapshot w.liveRows t)) ∧
    (∀ e o, IsRemoved t p w e o ↔
      (e, o) ∈ specRemoved (snapshot w.liveRows p) (snapshot w.liveRows t) (w.liveRows.map (·.1))) := by
  have hc := hw.core
  refine ⟨?_, ?_, ?_⟩
  · intro e v
    rw [mem_specAdded_iff]
    simp only [mem_snapshot_iff w hc, IsAdded]
    constructor
    · rintro ⟨h1, h2⟩; exact ⟨h1, fun o ho => by rw [h2] at ho; cases ho⟩
    · rintro ⟨h1, h2⟩
      refine ⟨h1, ?_⟩
      cases hp : comp w e p with
      | none => rfl
      | some o => exact absurd hp (h2 o)
  · intro e o n
    rw [mem_specChanged_iff _ _ (snapshot_functional w hc p)]
    simp only [mem_snapshot_iff w hc, IsChanged]
    constructor
    · rintro ⟨h1, h2, h3⟩; exact ⟨h1, h2, fun h => h3 h.symm⟩
    · rintro ⟨h1, h2, h3⟩; exact ⟨h1, h2, fun h => h3 h.symm⟩
  · intro e o
    rw [mem_specRemoved_iff]
    simp only [mem_snapshot_iff w hc, mem_liveRows_fst_iff w hc, IsRemoved]
    constructor
    · rintro ⟨h1, h2⟩
      exact ⟨h1, isLive_of_comp h1, fun v hv => by rw [h2] at hv; cases hv⟩
    · rintro ⟨h1, _, h3⟩
      refine ⟨h1, ?_⟩
      cases ht : comp w e t with
      | none => rfl
      | some v => exact absurd ht (h3 v)

/-! ### two consecutive `track`s -/

/-- the tracker invariant: every handle's snapshot is its `t` value (absent iff absent) -/
def Tracked (t p : Nat) (w : World) : Prop := ∀ e, comp w e p = comp w e t

/-- the history between two `track`s never touches `p`: every handle of `w1` has the `p` value it
had in `w0` (none if it did not exist) -/
def KeepsP (p : Nat) (w0 w1 : World) : Prop := ∀ e, ex w1 e = true → comp w1 e p = comp w0 e p

theorem KeepsP.refl (p : Nat) (w : World) : KeepsP p w w := fun _ _ => rfl

theorem track_tracked {t p : Nat} (htp : t ≠ p) (w : World) (hw : w.Inv) (reads : List Read) :
    Tracked t p (track t p w reads).1 := by
  obtain ⟨_, h2, h3⟩ := track_spec htp w hw reads
  intro e
  rw [h3, h2.comp e t htp]

/-- if `w0` satisfies the tracker invariant and the history `w0 ⟶ w1` keeps `p`, the three classes of
`w1` are the specified differences between the `t`-snapshot of `w0` and the `t`-snapshot of `w1` -/
theorem classes_eq_spec_two (t p : Nat) (w0 w1 : World) (hw0 : w0.Inv) (hw1 : w1.Inv)
    (ht : Tracked t p w0) (hk : KeepsP p w0 w1) :
    (∀ e v, IsAdded t p w1 e v ↔ (e, v) ∈ specAdded (snapshot w0.liveRows t) (snapshot w1.liveRows t)) ∧
    (∀ e o n, IsChanged t p w1 e o n ↔
      (e, o, n) ∈ specChanged (snapshot w0.liveRows t) (snapshot w1.liveRows t)) ∧
    (∀ e o, IsRemoved t p w1 e o ↔
      (e, o) ∈ specRemoved (snapshot w0.liveRows t) (snapshot w1.liveRows t) (w1.liveRows.map (·.1))) := by
  have hc0 := hw0.core
  have hc1 := hw1.core
  have hp : ∀ e, ex w1 e = true → comp w1 e p = comp w0 e t := fun e he => (hk e he).trans (ht e)
  refine ⟨?_, ?_, ?_⟩
  · intro e v
    rw [mem_specAdded_iff]
    simp only [mem_snapshot_iff w0 hc0, mem_snapshot_iff w1 hc1, IsAdded]
    constructor
    · rintro ⟨h1, h2⟩
      rw [hp e (ex_of_comp h1)] at h2
      exact ⟨h1, fun o ho => by rw [h2] at ho; cases ho⟩
    · rintro ⟨h1, h2⟩
      refine ⟨h1, ?_⟩
      rw [hp e (ex_of_comp h1)]
      cases hq : comp w0 e t with
      | none => rfl
      | some o => exact absurd hq (h2 o)
  · intro e o n
    rw [mem_specChanged_iff _ _ (snapshot_functional w0 hc0 t)]
    simp only [mem_snapshot_iff w0 hc0, mem_snapshot_iff w1 hc1, IsChanged]
    constructor
    · rintro ⟨h1, h2, h3⟩
      rw [hp e (ex_of_comp h1)] at h2
      exact ⟨h1, h2, fun h => h3 h.symm⟩
    · rintro ⟨h1, h2, h3⟩
      rw [← hp e (ex_of_comp h1)] at h2
      exact ⟨h1, h2, fun h => h3 h.symm⟩
  · intro e o
    rw [mem_specRemoved_iff]
    simp only [mem_snapshot_iff w0 hc0, mem_snapshot_iff w1 hc1, mem_liveRows_fst_iff w1 hc1, IsRemoved]
    constructor
    · rintro ⟨h1, h2⟩
      have h1' := h1
      rw [hp e (ex_of_comp h1)] at h1'
      exact ⟨h1', isLive_of_comp h1, fun v hv => by rw [h2] at hv; cases hv⟩
    · rintro ⟨h1, h2, h3⟩
      rw [← hp e (isLive_ex w1 hc1 e h2)] at h1
      refine ⟨h1, ?_⟩
      cases hq : comp w1 e t with
      | none => rfl
      | some v => exact absurd hq (h3 v)

/-! ### operations that do not mention `p` keep `p` -/

theorem keepsP_flush (p : Nat) (w : World) (hw : w.Inv) : KeepsP p w w.flush :=
  fun e _ => comp_flush w hw e p

theorem keepsP_insert (p : Nat) (w : World) (hw : w.Inv) (e : Entity) (b : List Comp)
    (hb : (Op.insert e b).WF) (hp : p ∉ b.map (·.1)) : KeepsP p w (w.insert e b).1 := by
  intro e' _
  have hfl := World.lookup_flush w hw
  by_cases he : e' = e
  · subst he
    cases hlk : w.flush.lookup e' with
    | none =>
      rw [Props.C01.insert_nosuch w e' b hw hb hlk]
      exact comp_flush w hw e' p
    | some old =>
      obtain ⟨_, _, new, h3, _, h5⟩ := Props.C01.insert_effect w e' b hw hb old hlk
      rw [comp_of_lookup h3, h5, if_neg hp, comp_of_lookup (by rw [← hfl]; exact hlk)]
  · unfold comp
    rw [Props.C01.insert_frame w e b hw hb e' he, hfl]

theorem keepsP_remove (p : Nat) (w : World) (hw : w.Inv) (e : Entity) (ts : List Nat)
    (hp : p ∉ ts) : KeepsP p w (w.remove e ts).1 := by
  intro e' _
  have hfl := World.lookup_flush w hw
  by_cases he : e' = e
  · subst he
    cases hlk : w.flush.lookup e' with
    | none =>
      rw [(Props.C01.remove_cases w e' ts hw).1 hlk]
      exact comp_flush w hw e' p
    | some old =>
      cases hg : World.bundleGet old ts with
      | none =>
        rw [(Props.C01.remove_cases w e' ts hw).2 old hlk hg]
        exact comp_flush w hw e' p
      | some got =>
        obtain ⟨_, _, _, _, h5⟩ := Props.C01.remove_effect w e' ts hw old got hlk hg
        rw [comp_of_lookup h5, comp_of_lookup (by rw [← hfl]; exact hlk),
          lookupComp_filter (fun c => !ts.contains c) p old]
        simp [hp]
  · unfold comp
    rw [Props.C01.remove_frame w e ts hw e' he, hfl]

theorem keepsP_despawn (p : Nat) (w : World) (hw : w.Inv) (e : Entity) : KeepsP p w (w.despawn e).1 := by
  intro e' hex
  have hfl := World.lookup_flush w hw
  by_cases he : e' = e
  · subst he
    cases hlk : w.flush.lookup e' with
    | none =>
      rw [Props.C01.despawn_nosuch w e' hw hlk]
      exact comp_flush w hw e' p
    | some cs =>
      have := (Props.C01.despawn_effect w e' hw cs hlk).2.2
      simp [TrackerLemmas.ex, this] at hex
  · unfold comp
    rw [Props.C01.despawn_frame w e hw e' he, hfl]

theorem keepsP_spawn (p : Nat) (w : World) (hw : w.Inv) (b : List Comp) (hb : (Op.spawn b).WF)
    (hp : p ∉ b.map (·.1)) : KeepsP p w (w.spawn b).1 := by
  intro e' _
  have hfl := World.lookup_flush w hw
  obtain ⟨en, _, _, h3, h4, h5⟩ := Props.C01.spawn_effect w b hw hb
  by_cases he : e' = en
  · subst he
    have hn : w.lookup e' = none := by rw [← hfl]; exact h3 e'.gen
    rw [comp_of_lookup h4, comp_of_lookup_none hn, lookupComp_canon]
    exact (lookupComp_eq_none p b).2 hp
  · unfold comp
    rw [h5 e' he, hfl]

/-- the operations for which `KeepsP` is proved: `spawn`, `insert`, `remove`, `despawn` (and `flush`)
whose bundle / type list does not name `p` -/
def NoP (p : Nat) : Op → Prop
  | .spawn b => p ∉ b.map (·.1)
  | .insert _ b => p ∉ b.map (·.1)
  | .remove _ ts => p ∉ ts
  | .despawn _ => True
  | .flush => True
  | _ => False

theorem keepsP_step (p : Nat) (w : World) (hw : w.Inv) (op : Op) (hop : op.WF) (hnp : NoP p op) :
    KeepsP p w (step w op).1 := by
  cases op with
  | spawn b => exact keepsP_spawn p w hw b hop hnp
  | insert e b => exact keepsP_insert p w hw e b hop hnp
  | remove e ts => exact keepsP_remove p w hw e ts hnp
  | despawn e => exact keepsP_despawn p w hw e
  | flush => exact keepsP_flush p w hw
  | _ => exact absurd hnp (by simp [NoP])

/-! ### the reports of the second of two `track`s -/

/-- the reports of a `track` started in `w1`, when `w1` was reached from a world `w0` satisfying the
tracker invariant by a history that keeps `p`: the differences between the `t`-snapshots of `w0`
and `w1` -/
theorem track_reports_two {t p : Nat} (htp : t ≠ p) (w0 w1 : World) (hw0 : w0.Inv) (hw1 : w1.Inv)
    (ht : Tracked t p w0) (hk : KeepsP p w0 w1) (reads : List Read)
    (hc : reads.countP isChangedRead ≤ 1) (hr : reads.countP isRemovedRead ≤ 1) :
    ((track t p w1 reads).2.added.isSome = reads.any isAddedRead ∧
      ∀ l, (track t p w1 reads).2.added = some l → ∀ e v,
        (e, v) ∈ l ↔ (e, v) ∈ specAdded (snapshot w0.liveRows t) (snapshot w1.liveRows t)) ∧
    ((track t p w1 reads).2.changed.isSome = reads.any isChangedRead ∧
      ∀ l, (track t p w1 reads).2.changed = some l → ∀ e o n,
        (e, o, n) ∈ l ↔ (e, o, n) ∈ specChanged (snapshot w0.liveRows t) (snapshot w1.liveRows t)) ∧
    ((track t p w1 reads).2.removed.isSome = reads.any isRemovedRead ∧
      ∀ l, (track t p w1 reads).2.removed = some l → ∀ e o,
        (e, o) ∈ l ↔ (e, o) ∈ specRemoved (snapshot w0.liveRows t) (snapshot w1.liveRows t)
          (w1.liveRows.map (·.1))) := by
  obtain ⟨⟨a1, a2⟩, ⟨b1, b2⟩, ⟨c1, c2⟩⟩ := track_reports htp w1 hw1 reads hc hr
  obtain ⟨s1, s2, s3⟩ := classes_eq_spec_two t p w0 w1 hw0 hw1 ht hk
  exact ⟨⟨a1, fun l hl e v => (a2 l hl e v).trans (s1 e v)⟩,
    ⟨b1, fun l hl e o n => (b2 l hl e o n).trans (s2 e o n)⟩,
    ⟨c1, fun l hl e o => (c2 l hl e o).trans (s3 e o)⟩⟩

end Hecs.TrackerLemmas
