import HecsModel.Lemmas.WorldEffects
/-
  `flush` is observationally the identity: every handle that existed keeps its components, the
  reserved handles_eff become live entities without components.
-/
namespace Hecs
namespace World

/-! ### flushFresh -/

theorem flushFreshOne_genAt (w : World) (id : Nat) :
    w.flushFreshOne.genAt id = if id = w.metas.size then some 1 else w.genAt id := by
  rw [flushFreshOne_eq]; simp only [genAt, Array.getElem?_push]
  split <;> simp

theorem flushFreshOne_valsOf (w : World) (id : Nat) (h0 : 0 < w.archs.size) (hl : w.LocOK) :
    w.flushFreshOne.valsOf id = if id = w.metas.size then some [] else w.valsOf id := by
  by_cases hi : id = w.metas.size
  · subst hi
    rw [if_pos rfl]
    apply valsOf_of_loc (r := ⟨w.metas.size, []⟩) (a := 0) (i := (w.rowsOf 0).size)
    · rw [flushFreshOne_locOf]; simp
    · rw [flushFreshOne_get _ _ _ h0]; simp
  · rw [if_neg hi]
    apply valsOf_congr
    · rw [flushFreshOne_locOf]; simp [hi]
    · intro b j hh
      have := hl _ _ _ hh
      rw [flushFreshOne_get _ _ _ h0]
      grind

theorem flushFreshOne_metas_size (w : World) : w.flushFreshOne.metas.size = w.metas.size + 1 := by
  rw [flushFreshOne_eq]; simp

theorem flushFresh_view (n : Nat) (w : World) (Q) (h : w.Pre Q) (id : Nat) :
    (flushFresh n w).genAt id = (if w.metas.size ≤ id ∧ id < w.metas.size + n then some 1 else w.genAt id) ∧
    (flushFresh n w).valsOf id = (if w.metas.size ≤ id ∧ id < w.metas.size + n then some [] else w.valsOf id) ∧
    (flushFresh n w).metas.size = w.metas.size + n := by
  induction n generalizing w with
  | zero =>
    refine ⟨?_, ?_, rfl⟩
    · rw [if_neg (by omega)]; rfl
    · rw [if_neg (by omega)]; rfl
  | succ n ih =>
    obtain ⟨j1, _⟩ := flushFreshOne_pre w Q h
    obtain ⟨i1, i2, i3⟩ := ih w.flushFreshOne j1
    have e : flushFresh (n + 1) w = flushFresh n w.flushFreshOne := rfl
    rw [e, i1, i2, i3, flushFreshOne_genAt, flushFreshOne_valsOf _ _ h.arch.arch0.1 h.bij.locOK,
      flushFreshOne_metas_size]
    have hg : w.metas.size ≤ id → w.genAt id = none := fun hh => genAt_eq_none.2 hh
    have hv : w.metas.size ≤ id → w.valsOf id = none := fun hh => valsOf_none (locOf_ge w id hh)
    refine ⟨?_, ?_, by omega⟩
    · grind
    · grind

/-! ### flushPending -/

theorem flushPending_view (ids : List Nat) (w : World) (pre : List Nat) (h : w.Pre (pre ++ ids)) (id : Nat) :
    (flushPending ids w).genAt id = w.genAt id ∧
    (flushPending ids w).valsOf id = (if id ∈ ids then some [] else w.valsOf id) := by
  induction ids generalizing w with
  | nil => exact ⟨rfl, by simp [flushPending]⟩
  | cons x xs ih =>
    have h0 := h.arch.arch0
    have hp := place_pre w 0 x [] pre xs h0.1 (by simp [h0.2]) h
    have hx := (h.free.iff x).1 (by simp)
    have hnd := h.free.nodup
    obtain ⟨i1, i2⟩ := ih (w.place 0 x []) hp
    have e : flushPending (x :: xs) w = flushPending xs (w.place 0 x []) := rfl
    rw [e, i1, i2, place_genAt, place_valsOf _ _ _ _ _ h0.1 hx.1 h.bij.locOK]
    refine ⟨rfl, ?_⟩
    by_cases hi : id = x
    · subst hi; simp
    · simp [hi]

/-! ### flush -/

theorem flushTail_view (w : World) (c : Nat) (h : w.Pre w.pending.toList) (id : Nat) :
    (flushTail w c).genAt id = w.genAt id ∧
    (flushTail w c).valsOf id = (if id ∈ w.pending.toList.drop c then some [] else w.valsOf id) := by
  have hpre : w.Pre (w.pending.toList.take c ++ w.pending.toList.drop c) := by
    rw [List.take_append_drop]; exact h
  exact flushPending_view _ w _ hpre id

/-- the ids of the fresh reservations -/
def FreshId (w : World) (id : Nat) : Prop := w.metas.size ≤ id ∧ (id : Int) < (-w.cursor) + w.metas.size

instance (w : World) (id : Nat) : Decidable (w.FreshId id) := by unfold FreshId; infer_instance

theorem flush_view (w : World) (h : w.Good) (id : Nat) :
    w.flush.genAt id = (if w.FreshId id then some 1 else w.genAt id) ∧
    w.flush.valsOf id = (if w.FreshId id ∨ id ∈ w.reservedPending then some [] else w.valsOf id) := by
  rw [flush_eq]
  unfold FreshId reservedPending
  split
  · rename_i hc
    obtain ⟨i1, i2⟩ := flushTail_view w w.cursor.toNat h.pre id
    rw [i1, i2]
    have : ¬ (w.metas.size ≤ id ∧ (id : Int) < (-w.cursor) + w.metas.size) := by omega
    simp [this]
  · rename_i hc
    obtain ⟨j1, j2, j3, j4, j5⟩ := flushFresh_pre (-w.cursor).toNat w _ h.pre
    obtain ⟨k1, k2, k3⟩ := flushFresh_view (-w.cursor).toNat w _ h.pre id
    have hpre : World.Pre { flushFresh (-w.cursor).toNat w with
        len := (flushFresh (-w.cursor).toNat w).len + (-w.cursor).toNat, cursor := 0 }
        (flushFresh (-w.cursor).toNat w).pending.toList := Pre.of_eq (w := flushFresh (-w.cursor).toNat w) rfl rfl
          (by rw [j3]; exact j1)
    obtain ⟨i1, i2⟩ := flushTail_view _ 0 hpre id
    rw [i1, i2]
    have e1 : World.genAt { flushFresh (-w.cursor).toNat w with
        len := (flushFresh (-w.cursor).toNat w).len + (-w.cursor).toNat, cursor := 0 } id
        = (flushFresh (-w.cursor).toNat w).genAt id := rfl
    have e2 : World.valsOf { flushFresh (-w.cursor).toNat w with
        len := (flushFresh (-w.cursor).toNat w).len + (-w.cursor).toNat, cursor := 0 } id
        = (flushFresh (-w.cursor).toNat w).valsOf id := rfl
    rw [e1, e2, k1, k2]
    have hz : w.cursor.toNat = 0 := by omega
    have hiff : (w.metas.size ≤ id ∧ id < w.metas.size + (-w.cursor).toNat) ↔
        (w.metas.size ≤ id ∧ (id : Int) < (-w.cursor) + w.metas.size) := by omega
    simp only [hz, List.drop_zero, j3, hiff]
    refine ⟨trivial, ?_⟩
    grind

theorem reserved_iff (w : World) (h : w.Good) (e : Entity) :
    w.Reserved e ↔ (w.genAt e.id = some e.gen ∧ e.id ∈ w.reservedPending) ∨ (w.FreshId e.id ∧ e.gen = 1) := by
  unfold Reserved FreshId
  have : e.id ∈ w.reservedPending → w.locOf e.id = none := by
    intro hm
    exact ((h.free.iff e.id).1 (List.mem_of_mem_drop hm)).2
  grind

/-- flushing is observationally the identity -/
theorem lookup_flush' (w : World) (h : w.Good) (e : Entity) : w.flush.lookup e = w.lookup e := by
  have hf := flush_flushed' w h
  obtain ⟨i1, i2⟩ := flush_view w h e.id
  rw [lookup_flushed _ hf.cursor, lookup_eq, i1, i2]
  simp only [reserved_iff w h]
  have hfresh : w.FreshId e.id → w.genAt e.id = none ∧ w.locOf e.id = none := by
    intro hh; exact ⟨genAt_eq_none.2 hh.1, locOf_ge _ _ hh.1⟩
  have hres : e.id ∈ w.reservedPending → w.locOf e.id = none := by
    intro hm
    exact ((h.free.iff e.id).1 (List.mem_of_mem_drop hm)).2
  have hv : w.locOf e.id = none → w.valsOf e.id = none := valsOf_none
  by_cases h1 : w.FreshId e.id
  · have := hfresh h1
    simp [h1, this.1, this.2]
    grind
  · by_cases h2 : e.id ∈ w.reservedPending
    · have := hres h2
      simp [h1, h2, this]
    · simp only [h1, h2, if_false, false_and, or_false, and_false]
      by_cases hg : w.genAt e.id = some e.gen
      · cases hl : w.locOf e.id with
        | none => simp [hg, valsOf_none hl]
        | some l => simp [hg]
      · simp [hg]

/-- in a world without reservations every existing handle is live -/
theorem isLive_of_flushed (w : World) (hf : w.Flushed) (e : Entity) : w.isLive e = (w.lookup e).isSome := by
  rw [isLive_eq, lookup_flushed _ hf.cursor, Bool.eq_iff_iff, decide_eq_true_iff]
  by_cases hg : w.genAt e.id = some e.gen
  · cases hl : w.locOf e.id with
    | none => simp [hg, valsOf_none hl]
    | some l =>
      obtain ⟨r, _, _, hv⟩ := valsOf_isSome_of_loc hf.good.bij hl
      simp [hg, hv]
  · simp [hg]

theorem lookup_flush (w : World) (h : w.Inv) (e : Entity) : w.flush.lookup e = w.lookup e :=
  lookup_flush' w ((inv_iff_good w).1 h) e

theorem contains_flush (w : World) (h : w.Inv) (e : Entity) : w.flush.contains e = w.contains e := by
  have hg := (inv_iff_good w).1 h
  rw [contains_eq_lookup _ _ (flush_flushed' w hg).good.bij, contains_eq_lookup _ _ hg.bij, lookup_flush w h]

theorem isLive_flush (w : World) (h : w.Inv) (e : Entity) : w.flush.isLive e = (w.lookup e).isSome := by
  have hg := (inv_iff_good w).1 h
  rw [isLive_of_flushed _ (flush_flushed' w hg), lookup_flush w h]

theorem contains_eq_lookup' (w : World) (h : w.Inv) (e : Entity) : w.contains e = (w.lookup e).isSome :=
  contains_eq_lookup w e ((inv_iff_good w).1 h).bij

/-- the components reported for a handle are sorted by type, one value per type -/
theorem lookup_sorted (w : World) (h : w.Inv) (e : Entity) (cs : List Comp) (hl : w.lookup e = some cs) :
    strictSorted (cs.map (·.1)) = true := by
  have hg := (inv_iff_good w).1 h
  rw [lookup_eq] at hl
  split at hl
  · rename_i h1
    obtain ⟨l, hl'⟩ := Option.isSome_iff_exists.1 h1.2
    obtain ⟨r, hr, _, hv⟩ := valsOf_isSome_of_loc hg.bij hl'
    rw [hv] at hl; cases hl
    rw [hg.arch.row_types _ _ _ hr]
    exact hg.arch.sorted _ (lt_of_row hr)
  · split at hl
    · cases hl; rfl
    · cases hl

end World
end Hecs
