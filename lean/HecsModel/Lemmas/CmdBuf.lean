import HecsModel.Model.Containers
import HecsModel.Lemmas.Arena
import HecsModel.Lemmas.SortLemmas
import HecsModel.Lemmas.WorldInvStep
/-
  Facts about the model of `CommandBuffer`: the high-level log of a buffer, recording appends to
  the log and leaves earlier ranges alone, replay is the fold of direct application over the log,
  the ledger of recorded components, and the arena layout invariant under `record`.
-/
namespace Hecs

/-- a recorded command with its bundle spelled out -/
inductive HCmd
  | spawn (b : List Comp)
  | insert (e : Entity) (b : List Comp)
  | remove (e : Entity) (ts : List Nat)
  | despawn (e : Entity)
  deriving Repr, Inhabited

/-- the component values a recorded command owns -/
def HCmd.bundle : HCmd → List Comp
  | .spawn b => b
  | .insert _ b => b
  | .remove _ _ => []
  | .despawn _ => []

/-- `spawn`/`insert` according to the optional target -/
def HCmd.ofBundle (e : Option Entity) (b : List Comp) : HCmd :=
  match e with
  | none => .spawn b
  | some e => .insert e b

namespace CmdBuf

def toH (c : CmdBuf) : Cmd → HCmd
  | .spawnOrInsert e f l => HCmd.ofBundle e (c.rangeVals f l)
  | .remove e ts => .remove e ts
  | .despawn e => .despawn e

/-- the high-level log of the buffer -/
def recorded (c : CmdBuf) : List HCmd := c.cmds.map c.toH

end CmdBuf

/-- every recorded range lies inside the slot list -/
def RangesOk (c : CmdBuf) : Prop :=
  ∀ e f l, Cmd.spawnOrInsert e f l ∈ c.cmds → f ≤ l ∧ l ≤ c.arena.slots.length

/-- walk the commands checking that the `spawnOrInsert` ranges are consecutive from `k`;
returns the end of the last range -/
def coverEnd : List Cmd → Nat → Option Nat
  | [], k => some k
  | .spawnOrInsert _ f l :: r, k => if f = k ∧ k ≤ l then coverEnd r l else none
  | .remove _ _ :: r, k => coverEnd r k
  | .despawn _ :: r, k => coverEnd r k

/-- the recorded ranges are consecutive and cover exactly `[0, slots.length)` -/
def RangesPartition (c : CmdBuf) : Prop := coverEnd c.cmds 0 = some c.arena.slots.length

/-- direct application of a recorded command: (world, dropped values, spawned handles) -/
def applyDirect (w : World) : HCmd → World × List Comp × List Entity
  | .spawn b => ((w.spawn b).1, (w.spawn b).2.dropped, match (w.spawn b).2.res with | .ent e => [e] | _ => [])
  | .insert e b => ((w.insert e b).1, (w.insert e b).2.dropped, [])
  | .remove e ts =>
    ((w.remove e ts).1,
      (w.remove e ts).2.dropped ++ (match (w.remove e ts).2.res with | .vals vs => vs | _ => []), [])
  | .despawn e => ((w.despawn e).1, (w.despawn e).2.dropped, [])

/-- one step of the replay fold: apply directly, accumulate the drops and the handles in order -/
def applyStep (acc : World × List Comp × List Entity) (h : HCmd) : World × List Comp × List Entity :=
  ((applyDirect acc.1 h).1, acc.2.1 ++ (applyDirect acc.1 h).2.1, acc.2.2 ++ (applyDirect acc.1 h).2.2)

def applyAll (hs : List HCmd) (w : World) : World × List Comp × List Entity :=
  hs.foldl applyStep (w, [], [])

/-- the `World` operation a log entry stands for -/
def HCmd.toOp : HCmd → Op
  | .spawn b => .spawn b
  | .insert e b => .insert e b
  | .remove e ts => .remove e ts
  | .despawn e => .despawn e

/-- every recorded bundle names each component type once (guaranteed by `DynamicBundle`) -/
def LogWF (hs : List HCmd) : Prop := ∀ h, h ∈ hs → (h.bundle.map (·.1)).Nodup

namespace CmdBufLemmas
open ArenaLemmas CmdBuf

/-! ### slots appended by `record` -/

theorem addInner_slots (lay : Nat → TyLayout) (a : Arena) (t v : Nat) :
    (addInner lay a t v).slots = a.slots ++ [⟨t, alignUp a.cursor (lay t).align, v⟩] := by
  unfold addInner
  simp only []
  split <;> rfl

theorem foldl_addInner_slots (lay : Nat → TyLayout) (b : List Comp) (a : Arena) :
    ∃ ext, (b.foldl (fun a x => addInner lay a x.1 x.2) a).slots = a.slots ++ ext ∧ valsOf ext = b := by
  induction b generalizing a with
  | nil => exact ⟨[], by simp, rfl⟩
  | cons x xs ih =>
    obtain ⟨ext, h1, h2⟩ := ih (addInner lay a x.1 x.2)
    refine ⟨⟨x.1, alignUp a.cursor (lay x.1).align, x.2⟩ :: ext, ?_, ?_⟩
    · rw [List.foldl_cons, h1, addInner_slots]; simp
    · simp [valsOf] at h2 ⊢; exact h2

theorem valsOf_insertSlot (s : Slot) (l : List Slot) :
    valsOf (insertSlot s l) = insertComp (s.ty, s.val) (valsOf l) := by
  induction l with
  | nil => rfl
  | cons d ds ih =>
    simp only [insertSlot, valsOf, List.map_cons, insertComp] at ih ⊢
    split
    · rfl
    · simp [ih]

theorem valsOf_sortSlots (l : List Slot) : valsOf (sortSlots l) = canon (valsOf l) := by
  induction l with
  | nil => rfl
  | cons s ss ih =>
    simp only [sortSlots, valsOf_insertSlot, ih]
    rfl

theorem insertComp_perm (c : Comp) (l : List Comp) : (insertComp c l).Perm (c :: l) := by
  induction l with
  | nil => exact List.Perm.refl _
  | cons d ds ih =>
    simp only [insertComp]
    split
    · exact List.Perm.refl _
    · exact (ih.cons d).trans (List.Perm.swap c d ds)

theorem canon_perm (b : List Comp) : (canon b).Perm b := by
  induction b with
  | nil => exact List.Perm.refl _
  | cons c cs ih => exact (insertComp_perm c _).trans (ih.cons c)

theorem insertComp_sorted (c : Comp) (l : List Comp) (h : l.Pairwise (fun x y => x.1 ≤ y.1)) :
    (insertComp c l).Pairwise (fun x y => x.1 ≤ y.1) := by
  induction l with
  | nil => simp [insertComp]
  | cons d ds ih =>
    rw [List.pairwise_cons] at h
    simp only [insertComp]
    split
    · rename_i hle
      refine List.pairwise_cons.2 ⟨?_, List.pairwise_cons.2 h⟩
      intro x hx
      rcases List.mem_cons.1 hx with rfl | hx
      · exact hle
      · exact Nat.le_trans hle (h.1 x hx)
    · rename_i hle
      refine List.pairwise_cons.2 ⟨?_, ih h.2⟩
      intro x hx
      rcases List.mem_cons.1 ((insertComp_perm c ds).mem_iff.1 hx) with rfl | hx
      · omega
      · exact h.1 x hx

theorem canon_sorted_le (b : List Comp) : (canon b).Pairwise (fun x y => x.1 ≤ y.1) := by
  induction b with
  | nil => simp [canon]
  | cons c cs ih => exact insertComp_sorted c _ ih

/-- a bundle that is already in type order is its own canonical form -/
theorem canon_of_sorted (b : List Comp) (h : b.Pairwise (fun x y => x.1 ≤ y.1)) : canon b = b := by
  induction b with
  | nil => rfl
  | cons c cs ih =>
    rw [List.pairwise_cons] at h
    simp only [canon, ih h.2]
    cases cs with
    | nil => rfl
    | cons d ds => simp [insertComp, h.1 d (by simp)]

theorem canon_idem (b : List Comp) : canon (canon b) = canon b := canon_of_sorted _ (canon_sorted_le b)

/-- the arena and command list after `record` -/
theorem record_eq (lay : Nat → TyLayout) (c : CmdBuf) (e : Option Entity) (b : List Comp) :
    ∃ ext, valsOf ext = b ∧
      (c.record lay e b).arena.slots = c.arena.slots ++ sortSlots ext ∧
      (c.record lay e b).cmds =
        c.cmds ++ [.spawnOrInsert e c.arena.slots.length (c.arena.slots.length + b.length)] ∧
      (c.record lay e b).arena.cursor = (b.foldl (fun a x => addInner lay a x.1 x.2) c.arena).cursor ∧
      (c.record lay e b).arena.laySize = (b.foldl (fun a x => addInner lay a x.1 x.2) c.arena).laySize ∧
      (c.record lay e b).arena.layAlign = (b.foldl (fun a x => addInner lay a x.1 x.2) c.arena).layAlign := by
  obtain ⟨ext, h1, h2⟩ := foldl_addInner_slots lay b c.arena
  have hlen : ext.length = b.length := by rw [← h2]; simp [valsOf]
  have hs : (c.record lay e b).arena.slots = c.arena.slots ++ sortSlots ext := by
    simp only [record, h1, List.take_left', List.drop_left']
  refine ⟨ext, h2, hs, ?_, rfl, rfl, rfl⟩
  have : (c.record lay e b).cmds =
      c.cmds ++ [.spawnOrInsert e c.arena.slots.length (c.record lay e b).arena.slots.length] := rfl
  rw [this, hs, List.length_append, sortSlots_length, hlen]

theorem record_cmds (lay : Nat → TyLayout) (c : CmdBuf) (e : Option Entity) (b : List Comp) :
    (c.record lay e b).cmds =
      c.cmds ++ [.spawnOrInsert e c.arena.slots.length (c.arena.slots.length + b.length)] := by
  obtain ⟨_, _, _, h, _⟩ := record_eq lay c e b
  exact h

theorem record_slots_length (lay : Nat → TyLayout) (c : CmdBuf) (e : Option Entity) (b : List Comp) :
    (c.record lay e b).arena.slots.length = c.arena.slots.length + b.length := by
  obtain ⟨ext, h1, h2, _⟩ := record_eq lay c e b
  rw [h2, List.length_append, sortSlots_length, ← h1]; simp [valsOf]

/-- `record` only appends: the old slot list is a prefix of the new one -/
theorem record_slots_prefix (lay : Nat → TyLayout) (c : CmdBuf) (e : Option Entity) (b : List Comp) :
    (c.record lay e b).arena.slots.take c.arena.slots.length = c.arena.slots := by
  obtain ⟨ext, _, h2, _⟩ := record_eq lay c e b
  rw [h2, List.take_left' rfl]

theorem rangeVals_eq (c : CmdBuf) (f l : Nat) :
    c.rangeVals f l = valsOf ((c.arena.slots.drop f).take (l - f)) := rfl

theorem take_drop_append {α} (A X : List α) (f l : Nat) (h : l ≤ A.length) :
    ((A ++ X).drop f).take (l - f) = (A.drop f).take (l - f) := by
  by_cases hf : f ≤ A.length
  · rw [List.drop_append_of_le_length hf, List.take_append_of_le_length]
    rw [List.length_drop]; omega
  · have : l - f = 0 := by omega
    rw [this]; simp

/-- earlier ranges are untouched by `record` -/
theorem record_rangeVals_old (lay : Nat → TyLayout) (c : CmdBuf) (e : Option Entity) (b : List Comp)
    (f l : Nat) (h : l ≤ c.arena.slots.length) :
    (c.record lay e b).rangeVals f l = c.rangeVals f l := by
  obtain ⟨ext, _, h2, _⟩ := record_eq lay c e b
  rw [rangeVals_eq, rangeVals_eq, h2, take_drop_append _ _ _ _ h]

/-- the new range holds the bundle in canonical (type) order -/
theorem record_rangeVals_new (lay : Nat → TyLayout) (c : CmdBuf) (e : Option Entity) (b : List Comp) :
    (c.record lay e b).rangeVals c.arena.slots.length (c.arena.slots.length + b.length) = canon b := by
  obtain ⟨ext, h1, h2, _⟩ := record_eq lay c e b
  have hlen : (sortSlots ext).length = b.length := by rw [sortSlots_length, ← h1]; simp [valsOf]
  rw [rangeVals_eq, h2, List.drop_left' rfl, Nat.add_sub_cancel_left, ← hlen, List.take_length,
    valsOf_sortSlots, h1]

/-! ### `RangesOk` -/

theorem rangesOk_empty : RangesOk {} := by
  intro e f l h; simp at h

theorem rangesOk_of_cmds_nil (c : CmdBuf) (h : c.cmds = []) : RangesOk c := by
  intro e f l hm; rw [h] at hm; simp at hm

theorem rangesOk_record (lay : Nat → TyLayout) (c : CmdBuf) (e : Option Entity) (b : List Comp)
    (h : RangesOk c) : RangesOk (c.record lay e b) := by
  intro e' f l hm
  rw [record_cmds, List.mem_append, List.mem_singleton] at hm
  rw [record_slots_length]
  rcases hm with hm | hm
  · have := h e' f l hm; omega
  · injection hm with _ hf hl; omega

theorem rangesOk_recRemove (c : CmdBuf) (e : Entity) (ts : List Nat) (h : RangesOk c) :
    RangesOk (c.recRemove e ts) := by
  intro e' f l hm
  simp only [recRemove, List.mem_append, List.mem_singleton, reduceCtorEq, or_false] at hm
  exact h e' f l hm

theorem rangesOk_recDespawn (c : CmdBuf) (e : Entity) (h : RangesOk c) : RangesOk (c.recDespawn e) := by
  intro e' f l hm
  simp only [recDespawn, List.mem_append, List.mem_singleton, reduceCtorEq, or_false] at hm
  exact h e' f l hm

theorem rangesOk_runOn (c : CmdBuf) (w : World) : RangesOk (c.runOn w).1 :=
  rangesOk_of_cmds_nil _ rfl

theorem rangesOk_clear (c : CmdBuf) : RangesOk (c.clear).1 := rangesOk_of_cmds_nil _ rfl

/-! ### the log -/

theorem toH_record_old (lay : Nat → TyLayout) (c : CmdBuf) (e : Option Entity) (b : List Comp)
    (h : RangesOk c) (x : Cmd) (hx : x ∈ c.cmds) : (c.record lay e b).toH x = c.toH x := by
  cases x with
  | spawnOrInsert e' f l =>
    simp only [toH]
    rw [record_rangeVals_old lay c e b f l (h e' f l hx).2]
  | remove _ _ => rfl
  | despawn _ => rfl

theorem record_recorded (lay : Nat → TyLayout) (c : CmdBuf) (e : Option Entity) (b : List Comp)
    (h : RangesOk c) :
    (c.record lay e b).recorded = c.recorded ++ [HCmd.ofBundle e (canon b)] := by
  unfold recorded
  rw [record_cmds, List.map_append, List.map_singleton]
  congr 1
  · exact List.map_congr_left (fun x hx => toH_record_old lay c e b h x hx)
  · simp only [toH]; rw [record_rangeVals_new]

theorem recRemove_recorded (c : CmdBuf) (e : Entity) (ts : List Nat) :
    (c.recRemove e ts).recorded = c.recorded ++ [.remove e ts] := by
  simp only [recorded, recRemove, List.map_append, List.map_singleton]
  congr 1

theorem recDespawn_recorded (c : CmdBuf) (e : Entity) :
    (c.recDespawn e).recorded = c.recorded ++ [.despawn e] := by
  simp only [recorded, recDespawn, List.map_append, List.map_singleton]
  congr 1

theorem recorded_empty : ({} : CmdBuf).recorded = [] := rfl

/-! ### replay -/

theorem runCmds_eq_fold (c : CmdBuf) (cmds : List Cmd) (w : World) (d : List Comp) (es : List Entity) :
    c.runCmds cmds w d es = (cmds.map c.toH).foldl applyStep (w, d, es) := by
  induction cmds generalizing w d es with
  | nil => rfl
  | cons x xs ih =>
    rw [List.map_cons, List.foldl_cons]
    cases x with
    | spawnOrInsert e f l =>
      cases e with
      | none =>
        simp only [runCmds, ih, toH, HCmd.ofBundle, applyStep, applyDirect]
        congr 3
      | some e =>
        simp only [runCmds, ih, toH, HCmd.ofBundle, applyStep, applyDirect, List.append_nil]
    | remove e ts =>
      simp only [runCmds, ih, toH, applyStep, applyDirect, List.append_nil, List.append_assoc]
      rfl
    | despawn e =>
      simp only [runCmds, ih, toH, applyStep, applyDirect, List.append_nil]

theorem runOn_eq_fold (c : CmdBuf) (w : World) :
    c.runOn w =
      ({ cmds := [], arena := { c.arena with slots := [], cursor := 0 } }, applyAll c.recorded w) := by
  unfold runOn applyAll recorded
  rw [runCmds_eq_fold]

/-- spawning a bundle and spawning its canonical form are the same call -/
theorem spawn_canon (w : World) (b : List Comp) : w.spawn (canon b) = w.spawn b := by
  simp only [World.spawn, World.spawnInner, canon_idem]

theorem applyDirect_spawn_canon (w : World) (b : List Comp) :
    applyDirect w (.spawn (canon b)) = applyDirect w (.spawn b) := by
  simp only [applyDirect, spawn_canon]

theorem applyDirect_world (w : World) (h : HCmd) : (applyDirect w h).1 = (step w h.toOp).1 := by
  cases h <;> rfl

theorem toOp_wf (h : HCmd) (hb : (h.bundle.map (·.1)).Nodup) : h.toOp.WF := by
  cases h <;> first | exact hb | exact trivial

theorem foldl_applyStep_inv (hs : List HCmd) (hwf : LogWF hs) (acc : World × List Comp × List Entity)
    (hi : acc.1.Inv) : (hs.foldl applyStep acc).1.Inv := by
  induction hs generalizing acc with
  | nil => exact hi
  | cons h hs ih =>
    rw [List.foldl_cons]
    apply ih (fun x hx => hwf x (List.mem_cons_of_mem _ hx))
    show (applyDirect acc.1 h).1.Inv
    rw [applyDirect_world]
    exact World.inv_step acc.1 h.toOp (toOp_wf h (hwf h (by simp))) hi

theorem applyAll_inv (hs : List HCmd) (hwf : LogWF hs) (w : World) (hi : w.Inv) :
    (applyAll hs w).1.Inv :=
  foldl_applyStep_inv hs hwf (w, [], []) hi

theorem logWF_nil : LogWF [] := by intro h hm; simp at hm

theorem logWF_snoc (hs : List HCmd) (h : HCmd) (h1 : LogWF hs) (h2 : (h.bundle.map (·.1)).Nodup) :
    LogWF (hs ++ [h]) := by
  intro x hx
  rcases List.mem_append.1 hx with hx | hx
  · exact h1 x hx
  · simp only [List.mem_singleton] at hx; subst hx; exact h2

theorem ofBundle_bundle (e : Option Entity) (b : List Comp) : (HCmd.ofBundle e b).bundle = b := by
  cases e <;> rfl

/-! ### the ledger -/

theorem coverEnd_append (xs ys : List Cmd) (k : Nat) :
    coverEnd (xs ++ ys) k = (coverEnd xs k).bind (coverEnd ys) := by
  induction xs generalizing k with
  | nil => rfl
  | cons x xs ih =>
    cases x with
    | spawnOrInsert e f l =>
      simp only [List.cons_append, coverEnd]
      split
      · exact ih l
      · rfl
    | remove _ _ => exact ih k
    | despawn _ => exact ih k

theorem coverEnd_le (cmds : List Cmd) (k n : Nat) (h : coverEnd cmds k = some n) : k ≤ n := by
  induction cmds generalizing k with
  | nil => simp [coverEnd] at h; omega
  | cons x xs ih =>
    cases x with
    | spawnOrInsert e f l =>
      simp only [coverEnd] at h
      split at h
      · rename_i hc; have := ih l h; omega
      · simp at h
    | remove _ _ => exact ih k h
    | despawn _ => exact ih k h

theorem coverEnd_ranges (cmds : List Cmd) (k n : Nat) (h : coverEnd cmds k = some n) :
    ∀ e f l, Cmd.spawnOrInsert e f l ∈ cmds → k ≤ f ∧ f ≤ l ∧ l ≤ n := by
  induction cmds generalizing k with
  | nil => intro e f l hm; simp at hm
  | cons x xs ih =>
    intro e f l hm
    cases x with
    | spawnOrInsert e' f' l' =>
      simp only [coverEnd] at h
      split at h
      · rename_i hc
        rcases List.mem_cons.1 hm with hm | hm
        · injection hm with _ hf hl
          have := coverEnd_le xs l' n h
          omega
        · have := ih l' h e f l hm; omega
      · simp at h
    | remove _ _ =>
      rcases List.mem_cons.1 hm with hm | hm
      · cases hm
      · exact ih k h e f l hm
    | despawn _ =>
      rcases List.mem_cons.1 hm with hm | hm
      · cases hm
      · exact ih k h e f l hm

theorem rangesPartition_rangesOk (c : CmdBuf) (h : RangesPartition c) : RangesOk c := by
  intro e f l hm
  have := coverEnd_ranges c.cmds 0 _ h e f l hm
  omega

theorem rangesPartition_empty : RangesPartition {} := rfl

theorem rangesPartition_record (lay : Nat → TyLayout) (c : CmdBuf) (e : Option Entity) (b : List Comp)
    (h : RangesPartition c) : RangesPartition (c.record lay e b) := by
  unfold RangesPartition at *
  rw [record_cmds, coverEnd_append, h, record_slots_length]
  simp [coverEnd]

theorem rangesPartition_recRemove (c : CmdBuf) (e : Entity) (ts : List Nat) (h : RangesPartition c) :
    RangesPartition (c.recRemove e ts) := by
  unfold RangesPartition at *
  simp only [recRemove]
  rw [coverEnd_append, h]; rfl

theorem rangesPartition_recDespawn (c : CmdBuf) (e : Entity) (h : RangesPartition c) :
    RangesPartition (c.recDespawn e) := by
  unfold RangesPartition at *
  simp only [recDespawn]
  rw [coverEnd_append, h]; rfl

theorem rangesPartition_runOn (c : CmdBuf) (w : World) : RangesPartition (c.runOn w).1 := rfl

theorem rangesPartition_clear (c : CmdBuf) : RangesPartition (c.clear).1 := rfl

/-- consecutive ranges tile the slot list -/
theorem coverEnd_vals (c : CmdBuf) (cmds : List Cmd) (k n : Nat) (h : coverEnd cmds k = some n)
    (hn : n ≤ c.arena.slots.length) :
    (cmds.map c.toH).flatMap HCmd.bundle = valsOf ((c.arena.slots.drop k).take (n - k)) := by
  induction cmds generalizing k with
  | nil =>
    simp only [coverEnd, Option.some.injEq] at h
    subst h; simp [valsOf]
  | cons x xs ih =>
    cases x with
    | spawnOrInsert e f l =>
      simp only [coverEnd] at h
      split at h
      · rename_i hc
        obtain ⟨rfl, hkl⟩ := hc
        have hln := coverEnd_le xs l n h
        rw [List.map_cons, List.flatMap_cons, ih l h]
        have hb : (c.toH (.spawnOrInsert e f l)).bundle = c.rangeVals f l := by
          simp only [toH, HCmd.ofBundle]; cases e <;> rfl
        rw [hb, rangeVals_eq]
        unfold valsOf
        rw [← List.map_append]
        congr 1
        -- take (l-f) (drop f S) ++ take (n-l) (drop l S) = take (n-f) (drop f S)
        have e1 : n - f = (l - f) + (n - l) := by omega
        have e2 : List.drop l c.arena.slots = List.drop (l - f) (List.drop f c.arena.slots) := by
          rw [List.drop_drop]; congr 1; omega
        rw [e1, e2, List.take_add]
      · simp at h
    | remove _ _ => exact ih k h
    | despawn _ => exact ih k h

theorem recorded_ledger (c : CmdBuf) (h : RangesPartition c) :
    c.arena.vals = c.recorded.flatMap HCmd.bundle := by
  have := coverEnd_vals c c.cmds 0 _ h (Nat.le_refl _)
  rw [recorded, this]
  simp [Arena.vals, valsOf]

/-! ### the layout invariant -/

theorem foldl_addInner_cursor_le (lay : Nat → TyLayout) (b : List Comp) (a : Arena)
    (hal : ∀ x, x ∈ b → 0 < (lay x.1).align) :
    a.cursor ≤ (b.foldl (fun a x => addInner lay a x.1 x.2) a).cursor := by
  induction b generalizing a with
  | nil => exact Nat.le_refl _
  | cons x xs ih =>
    rw [List.foldl_cons]
    refine Nat.le_trans ?_ (ih _ (fun y hy => hal y (List.mem_cons_of_mem _ hy)))
    rw [addInner_cursor]
    have := LayoutLemmas.alignUp_mono_le a.cursor _ (hal x (by simp))
    omega

theorem arenaInv_foldl_addInner (lay : Nat → TyLayout) (b : List Comp) (a : Arena) (h : ArenaInv lay a)
    (hal : ∀ x, x ∈ b → 0 < (lay x.1).align)
    (hb : (b.foldl (fun a x => addInner lay a x.1 x.2) a).cursor ≤ 2 ^ 63) :
    ArenaInv lay (b.foldl (fun a x => addInner lay a x.1 x.2) a) := by
  induction b generalizing a with
  | nil => exact h
  | cons x xs ih =>
    rw [List.foldl_cons] at hb ⊢
    refine ih _ ?_ (fun y hy => hal y (List.mem_cons_of_mem _ hy)) hb
    apply arenaInv_addInner lay a x.1 x.2 h (hal x (by simp))
    apply LayoutLemmas.le_nextPow2
    have := foldl_addInner_cursor_le lay xs (addInner lay a x.1 x.2)
      (fun y hy => hal y (List.mem_cons_of_mem _ hy))
    rw [addInner_cursor] at this
    exact Nat.le_trans this hb

/-- recording a bundle keeps the layout invariant (sorting the tail only permutes the slots) -/
theorem arenaInv_record (lay : Nat → TyLayout) (c : CmdBuf) (e : Option Entity) (b : List Comp)
    (h : ArenaInv lay c.arena) (hal : ∀ x, x ∈ b → 0 < (lay x.1).align)
    (hb : (c.record lay e b).arena.cursor ≤ 2 ^ 63) :
    ArenaInv lay (c.record lay e b).arena := by
  have hinv := arenaInv_foldl_addInner lay b c.arena h hal hb
  obtain ⟨ext, h1, h2⟩ := foldl_addInner_slots lay b c.arena
  have hp : (c.record lay e b).arena.slots.Perm
      (b.foldl (fun a x => addInner lay a x.1 x.2) c.arena).slots := by
    simp only [record, h1, List.take_left', List.drop_left']
    exact (sortSlots_perm ext).append_left _
  exact arenaInv_perm lay _ _ hp hinv

theorem arenaInv_runOn (lay : Nat → TyLayout) (c : CmdBuf) (w : World) :
    ArenaInv lay (c.runOn w).1.arena := by
  simp [runOn, ArenaInv]

theorem arenaInv_cmdClear (lay : Nat → TyLayout) (c : CmdBuf) : ArenaInv lay (c.clear).1.arena := by
  simp [CmdBuf.clear, ArenaInv]

end CmdBufLemmas
end Hecs
