import HecsModel.Lemmas.WorldInvStep
/-
  Generations: which primitives touch `metas[·].gen` and how the table grows (C02).
-/
namespace Hecs
namespace World

/-! ### `genOf` on arrays -/

/-- `genOf` as a function of the meta table -/
def genA (M : Array Meta) (id : Nat) : Nat := (M[id]?.map (·.gen)).getD 1

theorem genOf_eq (w : World) (id : Nat) : w.genOf id = genA w.metas id := rfl

theorem genA_push (M : Array Meta) (m : Meta) (hm : m.gen = 1) (id : Nat) :
    genA (M.push m) id = genA M id := by
  simp only [genA, Array.getElem?_push]
  split
  · subst_vars; simp [hm]
  · rfl

theorem genA_append_empty (M : Array Meta) (k : Nat) (id : Nat) :
    genA (M ++ Array.replicate k Meta.empty) id = genA M id := by
  simp only [genA, Array.getElem?_append, Array.getElem?_replicate]
  split
  · rfl
  · rw [Array.getElem?_eq_none (by omega)]
    split <;> simp [Meta.empty]

theorem genA_modify (M : Array Meta) (j : Nat) (f : Meta → Meta) (id : Nat) :
    genA (M.modify j f) id = if id = j then (M[j]?.map (fun m => (f m).gen)).getD 1 else genA M id := by
  simp only [genA, Array.getElem?_modify]
  by_cases h : j = id
  · subst h; cases M[j]? <;> simp
  · have : ¬ id = j := fun e => h e.symm
    simp [h, this]

theorem genA_modify_keep (M : Array Meta) (j : Nat) (f : Meta → Meta) (hf : ∀ m, (f m).gen = m.gen) (id : Nat) :
    genA (M.modify j f) id = genA M id := by
  rw [genA_modify]
  split
  · rename_i h; subst h; simp only [genA]; cases M[id]? <;> simp [hf]
  · rfl

theorem genA_lt {M : Array Meta} {id : Nat} (h : id < M.size) : M[id]? = some M[id] ∧ genA M id = M[id].gen := by
  simp [genA, h]

/-! ### the gen frame -/

/-- `w'` has at least the ids of `w` and the same generation for every id -/
structure Keeps (w' w : World) : Prop where
  size : w.metas.size ≤ w'.metas.size
  gen : ∀ id, w'.genOf id = w.genOf id

theorem Keeps.refl (w : World) : Keeps w w := ⟨Nat.le_refl _, fun _ => rfl⟩

theorem Keeps.trans {w'' w' w : World} (h2 : Keeps w'' w') (h1 : Keeps w' w) : Keeps w'' w :=
  ⟨Nat.le_trans h1.size h2.size, fun id => (h2.gen id).trans (h1.gen id)⟩

theorem Keeps.of_metas {w' w : World} (h : w'.metas = w.metas) : Keeps w' w :=
  ⟨by rw [h]; exact Nat.le_refl _, fun id => by rw [genOf_eq, genOf_eq, h]⟩

theorem modMeta_keeps (w : World) (id : Nat) (f : Meta → Meta) (hf : ∀ m, (f m).gen = m.gen) :
    Keeps (w.modMeta id f) w :=
  ⟨by simp, fun id' => by rw [genOf_eq, genOf_eq]; exact genA_modify_keep _ _ _ hf _⟩

theorem setLoc_keeps (w : World) (id l) : Keeps (w.setLoc id l) w :=
  modMeta_keeps w id _ (fun _ => rfl)

theorem setLocIndex_keeps (w : World) (id i) : Keeps (w.setLocIndex id i) w :=
  modMeta_keeps w id _ (fun _ => rfl)

theorem modRows_keeps (w : World) (a g) : Keeps (w.modRows a g) w := Keeps.of_metas rfl

theorem removeRow_keeps (w : World) (a i) : Keeps (w.removeRow a i) w := by
  rw [removeRow_eq]; split
  · exact modRows_keeps _ _ _
  · exact (setLocIndex_keeps _ _ _).trans (modRows_keeps _ _ _)

theorem place_keeps (w : World) (a id vals) : Keeps (w.place a id vals) w := by
  rw [place_eq]; exact (setLoc_keeps _ _ _).trans (modRows_keeps _ _ _)

theorem getArch_metas (w : World) (ts : List Nat) : (w.getArch ts).1.metas = w.metas := by
  unfold getArch; split <;> rfl

theorem getArch_keeps (w : World) (ts) : Keeps (w.getArch ts).1 w := Keeps.of_metas (getArch_metas w ts)

theorem setRow_keeps (w : World) (a i r) : Keeps (w.setRow a i r) w := Keeps.of_metas rfl

theorem setRowId_keeps (w : World) (a i id) : Keeps (w.setRowId a i id) w := Keeps.of_metas rfl

theorem evict_keeps (w : World) (old) : Keeps (w.evict old).1 w := by
  cases old with
  | none => exact Keeps.refl w
  | some l => obtain ⟨a, i⟩ := l; exact removeRow_keeps w a i

/-! ### flush -/

theorem flushFreshOne_keeps (w : World) : Keeps w.flushFreshOne w := by
  rw [flushFreshOne_eq]
  exact ⟨by simp, fun id => by simp only [genOf_eq]; exact genA_push _ _ rfl _⟩

theorem flushFresh_keeps (n : Nat) (w : World) : Keeps (flushFresh n w) w := by
  induction n generalizing w with
  | zero => exact Keeps.refl w
  | succ n ih => exact (ih w.flushFreshOne).trans (flushFreshOne_keeps w)

theorem flushPending_keeps (ids : List Nat) (w : World) : Keeps (flushPending ids w) w := by
  induction ids generalizing w with
  | nil => exact Keeps.refl w
  | cons id ids ih => exact (ih (w.flushPendingOne id)).trans (place_keeps w 0 id [])

theorem flushTail_keeps (w : World) (c : Nat) : Keeps (flushTail w c) w := by
  have := flushPending_keeps (w.pending.toList.drop c) w
  exact ⟨this.size, this.gen⟩

theorem flush_keeps (w : World) : Keeps w.flush w := by
  rw [flush_eq]; split
  · exact flushTail_keeps w _
  · refine (flushTail_keeps _ 0).trans ?_
    have := flushFresh_keeps (-w.cursor).toNat w
    exact ⟨this.size, this.gen⟩

/-! ### alloc, free, allocAt -/

theorem alloc_keeps (w : World) : Keeps (w.alloc).1 w := by
  unfold alloc; split
  · exact ⟨by simp, fun id => by simp only [genOf_eq]; exact genA_push _ _ rfl _⟩
  · exact Keeps.of_metas rfl

theorem freed_size (w : World) (id : Nat) (m : Meta) : (w.freed id m).metas.size = w.metas.size := by
  simp [freed]

theorem freed_genOf (w : World) (id : Nat) (m : Meta) (id' : Nat) :
    (w.freed id m).genOf id' = if id' = id ∧ id < w.metas.size then m.gen + 1 else w.genOf id' := by
  simp only [genOf, freed, Array.set!_eq_setIfInBounds, Array.getElem?_setIfInBounds]
  by_cases h : id = id'
  · subst h
    by_cases h2 : id < w.metas.size
    · simp [h2]
    · simp [h2]
  · have : ¬ id' = id := fun e => h e.symm
    simp [h, this]

theorem setGen_genOf (w : World) (id g id' : Nat) :
    (w.setGen id g).genOf id' = if id' = id ∧ id < w.metas.size then g else w.genOf id' := by
  simp only [genOf_eq, setGen, genA_modify]
  by_cases h : id' = id
  · subst h
    by_cases h2 : id' < w.metas.size
    · simp [h2]
    · simp [h2, genA]
  · simp [h]

theorem allocAt_size (w : World) (e : Entity) :
    w.metas.size ≤ (w.allocAt e).1.metas.size ∧ e.id < (w.allocAt e).1.metas.size := by
  unfold allocAt
  split
  · simp; omega
  · split <;> simp <;> omega

theorem allocAt_genOf (w : World) (e : Entity) (id : Nat) :
    (w.allocAt e).1.genOf id = if id = e.id then e.gen else w.genOf id := by
  unfold allocAt
  split
  · rename_i hsz
    simp only [setGen_genOf]
    have : ∀ (p : Array Nat) (c : Int) (l : Nat),
        ({ w with pending := p, cursor := c,
                  metas := w.metas ++ Array.replicate (e.id + 1 - w.metas.size) Meta.empty, len := l } : World).genOf id
          = w.genOf id := by
      intro p c l; simp only [genOf_eq]; exact genA_append_empty _ _ _
    rw [this]
    simp only [Array.size_append, Array.size_replicate]
    have : e.id < w.metas.size + (e.id + 1 - w.metas.size) := by omega
    simp [this]
  · rename_i hsz
    have hlt : e.id < w.metas.size := by omega
    split
    · simp only [setGen_genOf]
      show (if id = e.id ∧ e.id < w.metas.size then e.gen else w.genOf id) = _
      simp [hlt]
    · simp only [setGen_genOf, setLoc_metas_size, (setLoc_keeps w e.id none).gen]
      simp [hlt]

theorem allocAtAll_cons (h : Entity) (hs : List Entity) (w : World) (d : List Comp) :
    allocAtAll (h :: hs) w d =
      allocAtAll hs ((w.allocAt h).1.evict (w.allocAt h).2).1 (d ++ ((w.allocAt h).1.evict (w.allocAt h).2).2) := rfl

theorem allocAtAll_gen (hs : List Entity) (w : World) (d : List Comp) :
    w.metas.size ≤ (allocAtAll hs w d).1.metas.size ∧
    ∀ id, id ∉ hs.map (·.id) → (allocAtAll hs w d).1.genOf id = w.genOf id := by
  induction hs generalizing w d with
  | nil => exact ⟨Nat.le_refl _, fun _ _ => rfl⟩
  | cons h hs ih =>
    have k := evict_keeps (w.allocAt h).1 (w.allocAt h).2
    obtain ⟨i1, i2⟩ := ih ((w.allocAt h).1.evict (w.allocAt h).2).1 (d ++ ((w.allocAt h).1.evict (w.allocAt h).2).2)
    rw [allocAtAll_cons]
    constructor
    · exact Nat.le_trans (Nat.le_trans (allocAt_size w h).1 k.size) i1
    · intro id hid
      simp only [List.map_cons, List.mem_cons, not_or] at hid
      rw [i2 id hid.2, k.gen, allocAt_genOf]; simp [hid.1]

/-! ### compound operations -/

theorem spawnInner_keeps (w : World) (e : Entity) (b : List Comp) : Keeps (w.spawnInner e b) w := by
  rw [spawnInner_eq]; exact (place_keeps _ _ _ _).trans (getArch_keeps _ _)

theorem insertInner_keeps (w : World) (e : Entity) (b : List Comp) (origin a i : Nat) :
    Keeps (w.insertInner e b origin a i).1 w := by
  rw [insertInner_eq]
  simp only
  split
  · exact (setRow_keeps _ _ _ _).trans (getArch_keeps _ _)
  · exact (removeRow_keeps _ _ _).trans ((place_keeps _ _ _ _).trans (getArch_keeps _ _))

theorem insertBatch_keeps (w : World) (ts : List Nat) (rows : List (List Comp)) :
    Keeps (w.insertBatch ts rows).1 w := by
  rw [insertBatch_eq]
  exact (modRows_keeps (w.getArch ts).1 (w.getArch ts).2 (fun r => r ++ batchRows rows)).trans (getArch_keeps w ts)

theorem assignRows_keeps (a : Nat) (ids : List Nat) (k : Nat) (w : World) : Keeps (assignRows a ids k w) w := by
  induction ids generalizing k w with
  | nil => exact Keeps.refl w
  | cons id ids ih =>
    exact (ih (k + 1) _).trans ((setLoc_keeps _ _ _).trans (setRowId_keeps _ _ _ _))

theorem spawnBatchRows_keeps (a : Nat) (rows : List (List Comp)) (w : World) (acc : List Entity) :
    Keeps (spawnBatchRows a rows w acc).1 w := by
  induction rows generalizing w acc with
  | nil => exact Keeps.refl w
  | cons b bs ih =>
    exact (ih ((w.alloc).1.place a (w.alloc).2.id (canon b)) ((w.alloc).2 :: acc)).trans
      ((place_keeps _ _ _ _).trans (alloc_keeps w))

theorem spawn_keeps (w : World) (b : List Comp) : Keeps (w.spawn b).1 w :=
  (spawnInner_keeps _ _ _).trans ((alloc_keeps _).trans (flush_keeps w))

theorem reserve_keeps (w : World) (ts : List Nat) : Keeps (w.reserve ts).1 w :=
  (getArch_keeps _ _).trans (flush_keeps w)

theorem spawnBatch_keeps (w : World) (ts : List Nat) (rows : List (List Comp)) :
    Keeps (w.spawnBatch ts rows).1 w :=
  (spawnBatchRows_keeps _ _ _ _).trans (reserve_keeps w ts)

theorem spawnColumnBatch_keeps (w : World) (ts : List Nat) (rows : List (List Comp)) :
    Keeps (w.spawnColumnBatch ts rows).1 w := by
  unfold spawnColumnBatch
  simp only
  have k0 := flush_keeps w
  have k1 := insertBatch_keeps w.flush ts rows
  generalize w.flush.insertBatch ts rows = ib at *
  obtain ⟨w1, a, base⟩ := ib
  simp only at k1 ⊢
  have k2 : Keeps ({ w1 with metas := w1.metas ++ Array.replicate (rows.length - w1.pending.size) Meta.empty,
                              len := w1.len + rows.length } : World) w1 :=
    ⟨by simp, fun id => by simp only [genOf_eq]; exact genA_append_empty _ _ _⟩
  have k3 := assignRows_keeps a (w1.pending.toList.drop (w1.pending.size - rows.length) ++
      List.range' w1.metas.size (rows.length - w1.pending.size)) base
    ({ w1 with metas := w1.metas ++ Array.replicate (rows.length - w1.pending.size) Meta.empty,
               len := w1.len + rows.length } : World)
  have k := k3.trans (k2.trans (k1.trans k0))
  exact ⟨k.size, k.gen⟩

theorem insert_keeps (w : World) (e : Entity) (b : List Comp) : Keeps (w.insert e b).1 w := by
  unfold insert
  simp only
  split
  · exact (insertInner_keeps _ _ _ _ _ _).trans (flush_keeps w)
  · exact flush_keeps w

theorem remove_keeps (w : World) (e : Entity) (ts : List Nat) : Keeps (w.remove e ts).1 w := by
  unfold remove
  simp only
  split
  · exact flush_keeps w
  · split
    · exact flush_keeps w
    · split
      · exact (getArch_keeps _ _).trans (flush_keeps w)
      · exact (removeRow_keeps _ _ _).trans ((place_keeps _ _ _ _).trans ((getArch_keeps _ _).trans (flush_keeps w)))

theorem exchange_keeps (w : World) (e : Entity) (ts : List Nat) (b : List Comp) :
    Keeps (w.exchange e ts b).1 w := by
  unfold exchange
  simp only
  split
  · split
    · exact flush_keeps w
    · exact (insertInner_keeps _ _ _ _ _ _).trans ((getArch_keeps _ _).trans (flush_keeps w))
  · exact flush_keeps w

/-! ### stale handles -/

theorem meta_of_lt {w : World} {id : Nat} (h : id < w.metas.size) :
    w.metas[id]? = some w.metas[id] ∧ w.genOf id = w.metas[id].gen ∧ w.locOf id = w.metas[id].loc := by
  simp [genOf, locOf, h]

theorem genOf_of_meta {w : World} {id : Nat} {m : Meta} (hm : w.metas[id]? = some m) : w.genOf id = m.gen := by
  simp [genOf, hm]

theorem lt_of_meta {w : World} {id : Nat} {m : Meta} (hm : w.metas[id]? = some m) : id < w.metas.size := by
  apply Classical.byContradiction; intro hn
  rw [Array.getElem?_eq_none (by omega)] at hm; cases hm

/-- a handle whose generation differs from the table's is rejected by every lookup -/
theorem stale_meta (w : World) (e : Entity) (m : Meta) (hm : w.metas[e.id]? = some m) (hg : m.gen ≠ e.gen) :
    w.get e = none ∧ w.getMut e = none ∧ w.contains e = false ∧ w.free e = none := by
  refine ⟨?_, ?_, ?_, ?_⟩
  · simp [get, hm, hg]
  · simp [getMut, hm, hg]
  · simp [contains, hm, hg]
  · simp [free, hm, hg]

theorem stale_gen (w : World) (e : Entity) (hlt : e.id < w.metas.size) (hg : w.genOf e.id ≠ e.gen) :
    w.get e = none ∧ w.getMut e = none ∧ w.contains e = false ∧ w.free e = none := by
  obtain ⟨h1, h2, _⟩ := meta_of_lt hlt
  exact stale_meta w e _ h1 (by rw [← h2]; exact hg)

/-! ### despawn and take, case by case -/

theorem despawn_cases (w : World) (e : Entity) :
    (w.flush.free e = none ∧ w.despawn e = (w.flush, { res := .nosuch })) ∨
    ∃ m a i, w.flush.metas[e.id]? = some m ∧ m.gen = e.gen ∧ m.loc = some (a, i) ∧
      (w.despawn e).1 = (w.flush.freed e.id m).removeRow a i ∧ (w.despawn e).2.res = .ok := by
  unfold despawn
  simp only
  split
  · rename_i hf; exact Or.inl ⟨hf, rfl⟩
  · rename_i w1 a i hf
    obtain ⟨m, hm, hg, hl, rfl⟩ := free_some hf
    exact Or.inr ⟨m, a, i, hm, hg, hl, rfl, rfl⟩

theorem take_cases (w : World) (e : Entity) (hb : w.flush.Bij) :
    ((w.take e) = (w.flush, none) ∧ ∀ l, w.flush.get e ≠ some (some l)) ∨
    ∃ m a i, w.flush.metas[e.id]? = some m ∧ m.gen = e.gen ∧ m.loc = some (a, i) ∧
      (w.take e).1 = (w.flush.freed e.id m).removeRow a i ∧ (w.take e).2.isSome = true := by
  unfold take
  simp only
  split
  · rename_i a i hget
    obtain ⟨m, hm, hg, hl⟩ := get_some_some hget
    rw [removeRow_free_comm _ _ _ _ _ hm hg hl hb]
    exact Or.inr ⟨m, a, i, hm, hg, hl, rfl, rfl⟩
  · rename_i hne
    exact Or.inl ⟨rfl, fun l hl => by obtain ⟨a, i⟩ := l; exact hne a i hl⟩

theorem step_takeDrop_fst (w : World) (e : Entity) : (step w (.takeDrop e)).1 = (w.take e).1 := by
  show (match w.take e with
      | (w', some d) => (w', ({ res := .ok, dropped := d } : Out))
      | (w', none) => (w', { res := .nosuch })).1 = _
  generalize w.take e = t
  obtain ⟨w', _ | d⟩ := t <;> rfl

theorem freed_gen_le (w : World) (id : Nat) (m : Meta) (hm : w.metas[id]? = some m) (id' : Nat) :
    w.genOf id' ≤ (w.freed id m).genOf id' := by
  rw [freed_genOf]
  split
  · rename_i h; rw [h.1, genOf_of_meta hm]; omega
  · exact Nat.le_refl _

end World

/-! ### generation monotonicity of `step` -/

/-- the operations that may lower the generation stored for `id`: `clear` resets the table, the
`*_at` spawns install the caller's generation -/
def Op.resurrects : Op → Nat → Bool
  | .clear, _ => true
  | .spawnAt h _, id => h.id == id
  | .spawnColumnBatchAt hs _ _, id => hs.any (fun h => h.id == id)
  | _, _ => false

namespace World

theorem Keeps.le {w' w : World} (k : Keeps w' w) (id : Nat) :
    w.metas.size ≤ w'.metas.size ∧ w.genOf id ≤ w'.genOf id :=
  ⟨k.size, by rw [k.gen]; exact Nat.le_refl _⟩

theorem gen_step (w : World) (op : Op) (id : Nat) (h : op.resurrects id = false) :
    w.metas.size ≤ (step w op).1.metas.size ∧ w.genOf id ≤ (step w op).1.genOf id := by
  cases op with
  | spawn b => exact (spawn_keeps w b).le id
  | spawnAt e b =>
    have hne : id ≠ e.id := by
      intro he; simp [Op.resurrects, he] at h
    have k0 := flush_keeps w
    have k1 := evict_keeps (w.flush.allocAt e).1 (w.flush.allocAt e).2
    have k2 := spawnInner_keeps ((w.flush.allocAt e).1.evict (w.flush.allocAt e).2).1 e b
    show _ ≤ (((w.flush.allocAt e).1.evict (w.flush.allocAt e).2).1.spawnInner e b).metas.size ∧
         _ ≤ (((w.flush.allocAt e).1.evict (w.flush.allocAt e).2).1.spawnInner e b).genOf id
    constructor
    · exact Nat.le_trans k0.size (Nat.le_trans (allocAt_size _ e).1 (Nat.le_trans k1.size k2.size))
    · rw [k2.gen, k1.gen, allocAt_genOf, if_neg hne, k0.gen]; exact Nat.le_refl _
  | spawnBatch ts rows => exact (spawnBatch_keeps w ts rows).le id
  | spawnColumnBatch ts rows => exact (spawnColumnBatch_keeps w ts rows).le id
  | spawnColumnBatchAt hs ts rows =>
    have hnot : id ∉ hs.map (·.id) := by
      intro hmem
      obtain ⟨x, hx, rfl⟩ := List.mem_map.1 hmem
      have : (hs.any fun h => h.id == x.id) = true := List.any_eq_true.2 ⟨x, hx, by simp⟩
      simp [Op.resurrects, this] at h
    show _ ≤ (w.spawnColumnBatchAt hs ts rows).1.metas.size ∧ _ ≤ (w.spawnColumnBatchAt hs ts rows).1.genOf id
    unfold spawnColumnBatchAt
    split
    · exact ⟨Nat.le_refl _, Nat.le_refl _⟩
    · simp only
      have k0 := flush_keeps w
      obtain ⟨a1, a2⟩ := allocAtAll_gen hs w.flush []
      have k2 := insertBatch_keeps (allocAtAll hs w.flush []).1 ts rows
      generalize (allocAtAll hs w.flush []).1.insertBatch ts rows = ib at *
      obtain ⟨w2, a, base⟩ := ib
      have k3 := assignRows_keeps a (hs.map (·.id)) base w2
      simp only at k2 ⊢
      constructor
      · exact Nat.le_trans k0.size (Nat.le_trans a1 (Nat.le_trans k2.size k3.size))
      · rw [k3.gen, k2.gen, a2 id hnot, k0.gen]; exact Nat.le_refl _
  | insert e b => exact (insert_keeps w e b).le id
  | remove e ts => exact (remove_keeps w e ts).le id
  | exchange e ts b => exact (exchange_keeps w e ts b).le id
  | despawn e =>
    have k0 := flush_keeps w
    show _ ≤ (w.despawn e).1.metas.size ∧ _ ≤ (w.despawn e).1.genOf id
    rcases despawn_cases w e with ⟨_, h2⟩ | ⟨m, a, i, hm, _, _, h2, _⟩
    · rw [h2]; exact k0.le id
    · rw [h2]
      have k1 := removeRow_keeps (w.flush.freed e.id m) a i
      constructor
      · exact Nat.le_trans k0.size (by rw [← freed_size w.flush e.id m]; exact k1.size)
      · rw [k1.gen, ← k0.gen]; exact freed_gen_le _ _ _ hm _
  | takeDrop e =>
    rw [step_takeDrop_fst]
    have k0 := flush_keeps w
    unfold take
    simp only
    split
    · rename_i a i hget
      have k1 := removeRow_keeps w.flush a i
      split
      · rename_i w2 l hfree
        obtain ⟨m, hm, _, _, rfl⟩ := free_some hfree
        constructor
        · rw [freed_size]; exact Nat.le_trans k0.size k1.size
        · refine Nat.le_trans ?_ (freed_gen_le _ _ _ hm _)
          rw [k1.gen, k0.gen]; exact Nat.le_refl _
      · exact (k1.trans k0).le id
    · exact k0.le id
  | clear => simp [Op.resurrects] at h
  | flush => exact (flush_keeps w).le id
  | reserve ts => exact (reserve_keeps w ts).le id
  | reserveEntity =>
    have : (w.reserveEntity).1.metas = w.metas := by unfold reserveEntity; simp only; split <;> rfl
    exact (Keeps.of_metas this).le id
  | reserveEntities n => exact (Keeps.of_metas (w := w) (w' := (w.reserveEntities n).1) rfl).le id

theorem gen_foldl (ops : List Op) (id : Nat) (hops : ∀ op, op ∈ ops → op.resurrects id = false) (w : World) :
    w.metas.size ≤ (ops.foldl (fun w op => (step w op).1) w).metas.size ∧
    w.genOf id ≤ (ops.foldl (fun w op => (step w op).1) w).genOf id := by
  induction ops generalizing w with
  | nil => exact ⟨Nat.le_refl _, Nat.le_refl _⟩
  | cons op ops ih =>
    obtain ⟨s1, s2⟩ := gen_step w op id (hops op (by simp))
    obtain ⟨i1, i2⟩ := ih (fun o ho => hops o (List.mem_cons_of_mem _ ho)) (step w op).1
    exact ⟨Nat.le_trans s1 i1, Nat.le_trans s2 i2⟩

end World
end Hecs

namespace Hecs
namespace World

/-! ### freshly allocated handles -/

theorem reservedPending_flushed {w : World} (hc : w.cursor = w.pending.size) : w.reservedPending = [] := by
  simp [reservedPending, hc]

/-- on a flushed world `alloc` hands out a handle that was not contained, at the id's current generation -/
theorem alloc_fresh (w : World) (hf : w.Flushed) :
    w.contains (w.alloc).2 = false ∧ (w.alloc).2.gen = w.genOf (w.alloc).2.id := by
  unfold alloc
  split
  · rename_i hz
    have hc : ¬ w.cursor < 0 := by have := hf.cursor; omega
    simp only [contains, genOf]
    rw [Array.getElem?_eq_none (Nat.le_refl _)]
    simp [hc]
  · rename_i hz
    simp only
    have hlt : w.pending.size - 1 < w.pending.size := by omega
    have hb : w.pending.back! = w.pending[w.pending.size - 1] := by
      rw [Array.back!_eq_back?, Array.back?_eq_getElem?]; simp [hlt]
    have hmem : w.pending.back! ∈ w.pending.toList := by rw [hb]; simp
    obtain ⟨h1, h2⟩ := (hf.good.free.iff _).1 hmem
    obtain ⟨m1, m2, m3⟩ := meta_of_lt h1
    refine ⟨?_, trivial⟩
    simp only [contains, m1, reservedPending_flushed hf.cursor]
    rw [m3] at h2
    simp [h2]

end World
end Hecs
