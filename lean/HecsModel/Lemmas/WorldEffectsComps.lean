import HecsModel.Lemmas.SortLemmas
import HecsModel.Model.World
/-
  Component lists as finite maps: `lookupComp` after `canon`, `filter`, `++`, `putComp`.
-/
namespace Hecs

theorem lookupComp_cons (t : Nat) (c : Comp) (cs : List Comp) :
    lookupComp t (c :: cs) = if c.1 = t then some c.2 else lookupComp t cs := rfl

theorem lookupComp_isSome (t : Nat) (l : List Comp) : (lookupComp t l).isSome ↔ t ∈ l.map (·.1) := by
  induction l with
  | nil => simp [lookupComp]
  | cons c cs ih =>
    rw [lookupComp_cons]
    by_cases h : c.1 = t
    · simp [h]
    · have : ¬ t = c.1 := fun e => h e.symm
      simp [h, ih, this]

theorem lookupComp_eq_none (t : Nat) (l : List Comp) : lookupComp t l = none ↔ t ∉ l.map (·.1) := by
  rw [← lookupComp_isSome]; cases lookupComp t l <;> simp

theorem lookupComp_append (t : Nat) (l1 l2 : List Comp) :
    lookupComp t (l1 ++ l2) = if t ∈ l1.map (·.1) then lookupComp t l1 else lookupComp t l2 := by
  induction l1 with
  | nil => simp
  | cons c cs ih =>
    rw [List.cons_append, lookupComp_cons, lookupComp_cons, ih]
    simp only [List.map_cons, List.mem_cons]
    grind

theorem lookupComp_filter (p : Nat → Bool) (t : Nat) (l : List Comp) :
    lookupComp t (l.filter (fun c => p c.1)) = if p t then lookupComp t l else none := by
  induction l with
  | nil => simp [lookupComp]
  | cons c cs ih =>
    by_cases hp : p c.1
    · rw [List.filter_cons_of_pos (by simpa using hp), lookupComp_cons, lookupComp_cons, ih]
      by_cases h : c.1 = t
      · subst h; simp [hp]
      · simp [h]
    · rw [List.filter_cons_of_neg (by simpa using hp), lookupComp_cons, ih]
      by_cases h : c.1 = t
      · subst h; simp [hp]
      · simp [h]

theorem lookupComp_insertComp (t : Nat) (c : Comp) (l : List Comp) :
    lookupComp t (insertComp c l) = if c.1 = t then some c.2 else lookupComp t l := by
  induction l with
  | nil => simp [insertComp, lookupComp]
  | cons d ds ih =>
    simp only [insertComp]
    split
    · rfl
    · rename_i hlt
      rw [lookupComp_cons, ih, lookupComp_cons]
      by_cases h1 : d.1 = t
      · have : ¬ c.1 = t := by omega
        simp [h1, this]
      · simp [h1]

theorem lookupComp_canon (t : Nat) (l : List Comp) : lookupComp t (canon l) = lookupComp t l := by
  induction l with
  | nil => rfl
  | cons c cs ih => simp only [canon]; rw [lookupComp_insertComp, ih, lookupComp_cons]

namespace World

theorem lookupComp_putComp (t : Nat) (c : Comp) (vals : List Comp) :
    lookupComp t (putComp c vals) =
      if t = c.1 ∧ t ∈ vals.map (·.1) then some c.2 else lookupComp t vals := by
  induction vals with
  | nil => simp [putComp, lookupComp]
  | cons d ds ih =>
    have e : putComp c (d :: ds) = (if d.1 = c.1 then c else d) :: putComp c ds := rfl
    rw [e, lookupComp_cons, ih, lookupComp_cons]
    simp only [List.map_cons, List.mem_cons]
    grind

theorem lookupComp_foldl_putComp (t : Nat) (b vals : List Comp) (hb : (b.map (·.1)).Nodup) :
    lookupComp t (b.foldl (fun vs c => putComp c vs) vals) =
      if t ∈ b.map (·.1) ∧ t ∈ vals.map (·.1) then lookupComp t b else lookupComp t vals := by
  induction b generalizing vals with
  | nil => simp
  | cons c cs ih =>
    simp only [List.map_cons, List.nodup_cons] at hb
    rw [List.foldl_cons, ih _ hb.2, lookupComp_putComp, lookupComp_cons]
    have hpm : (putComp c vals).map (·.1) = vals.map (·.1) := by
      induction vals with
      | nil => rfl
      | cons d ds ih2 =>
        have e : putComp c (d :: ds) = (if d.1 = c.1 then c else d) :: putComp c ds := rfl
        rw [e, List.map_cons, List.map_cons, ih2]; congr 1; split
        · rename_i h; exact h.symm
        · rfl
    rw [hpm]
    simp only [List.map_cons, List.mem_cons]
    have h2 := hb.1
    grind

end World

/-- two component lists sorted by type which agree as maps are equal -/
theorem comps_ext (l1 l2 : List Comp) (h1 : strictSorted (l1.map (·.1)) = true)
    (h2 : strictSorted (l2.map (·.1)) = true) (h : ∀ t, lookupComp t l1 = lookupComp t l2) : l1 = l2 := by
  have hty : l1.map (·.1) = l2.map (·.1) := by
    apply strictSorted_ext _ _ h1 h2
    intro x; rw [← lookupComp_isSome, ← lookupComp_isSome, h]
  rw [strictSorted_iff] at h1 h2
  induction l1 generalizing l2 with
  | nil => cases l2 with
    | nil => rfl
    | cons d ds => simp at hty
  | cons c cs ih =>
    cases l2 with
    | nil => simp at hty
    | cons d ds =>
      simp only [List.map_cons, List.cons.injEq, List.pairwise_cons] at hty h1 h2
      have hc := h c.1
      rw [lookupComp_cons, lookupComp_cons, if_pos rfl, if_pos hty.1.symm] at hc
      have hcd : c = d := Prod.ext hty.1 (Option.some.inj hc)
      subst hcd
      congr 1
      apply ih ds h1.2 h2.2 _ hty.2
      intro t
      have ht := h t
      rw [lookupComp_cons, lookupComp_cons] at ht
      by_cases hct : c.1 = t
      · subst hct
        have n1 : lookupComp c.1 cs = none := by
          rw [lookupComp_eq_none]; intro hm; exact absurd (h1.1 _ hm) (Nat.lt_irrefl _)
        have n2 : lookupComp c.1 ds = none := by
          rw [lookupComp_eq_none]; intro hm; exact absurd (h2.1 _ hm) (Nat.lt_irrefl _)
        rw [n1, n2]
      · simpa [hct] using ht

end Hecs
