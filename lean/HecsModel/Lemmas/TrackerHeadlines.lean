import HecsModel.Lemmas.TrackerReports
import HecsModel.Lemmas.TrackerHistory
/-
  C18 (ChangeTracker), part 7: proofs of those headline statements of `Props/C18.lean` that need more
  than one line (unfolding of the pointwise functions `gC`, `gR`, combination with the specification).
-/
namespace Hecs.TrackerLemmas.Headline
open Hecs Hecs.World Hecs.Tracker Hecs.TrackerLemmas

theorem removed_report_flush (t p : Nat) (s : CSt) (hw : s.w.Inv) (e : Entity) (old : Nat) :
    (e, old) ∈ (doRemoved t p s).2 ↔
      s.w.flush.isLive e = true ∧ comp s.w.flush e p = some old ∧ comp s.w.flush e t = none := by
  rw [mem_doRemoved t p s hw, comp_flush s.w hw, comp_flush s.w hw]
  exact ⟨fun h => ⟨isLive_of_comp ((comp_flush s.w hw e p).trans h.1), h⟩, fun h => h.2⟩

theorem changed_effect (t p : Nat) (s : CSt) (hw : s.w.Inv) :
    (doChanged t p s).1.w.Inv ∧
    (∀ e, (doChanged t p s).1.w.isLive e = s.w.isLive e) ∧
    (∀ e, ((doChanged t p s).1.w.lookup e).isSome = (s.w.lookup e).isSome) ∧
    (∀ e c, c ≠ p → comp (doChanged t p s).1.w e c = comp s.w e c) ∧
    (∀ e n o, comp s.w e t = some n → comp s.w e p = some o → comp (doChanged t p s).1.w e p = some n) ∧
    (∀ e, comp s.w e t = none ∨ comp s.w e p = none → comp (doChanged t p s).1.w e p = comp s.w e p) := by
  obtain ⟨h1, h2, h3, h4, h5⟩ := doChanged_effect t p s hw
  refine ⟨h1, h2, h3, h4, fun e n o ht hp => by rw [h5, ht, hp]; rfl, fun e h => ?_⟩
  rw [h5]
  rcases h with h | h <;> rw [h]
  · rfl
  · cases comp s.w e t <;> rfl

theorem changed_reported (t p : Nat) (s : CSt) (hw : s.w.Inv) (e : Entity) :
    (∀ o n, (e, o, n) ∈ (doChanged t p s).2 → comp (doChanged t p s).1.w e p = some n) ∧
    ((∀ o n, (e, o, n) ∉ (doChanged t p s).2) → comp (doChanged t p s).1.w e p = comp s.w e p) := by
  obtain ⟨_, _, _, _, h5⟩ := doChanged_effect t p s hw
  constructor
  · intro o n hx
    obtain ⟨a, b, _⟩ := (mem_doChanged t p s hw e o n).1 hx
    rw [h5, a, b]; rfl
  · intro hx
    rw [h5]
    cases ht : comp s.w e t with
    | none => rfl
    | some n =>
      cases hp : comp s.w e p with
      | none => rfl
      | some o =>
        by_cases hno : n = o
        · subst hno; rfl
        · exact absurd ((mem_doChanged t p s hw e o n).2 ⟨ht, hp, hno⟩) (hx o n)

theorem removed_effect (t p : Nat) (s : CSt) (hw : s.w.Inv) :
    (doRemoved t p s).1.w.Inv ∧
    (∀ e, s.w.isLive e = true → (doRemoved t p s).1.w.isLive e = true) ∧
    (∀ e, ((doRemoved t p s).1.w.lookup e).isSome = (s.w.lookup e).isSome) ∧
    (∀ e c, c ≠ p → comp (doRemoved t p s).1.w e c = comp s.w e c) ∧
    (∀ e, comp s.w e t = none → comp (doRemoved t p s).1.w e p = none) ∧
    (∀ e n, comp s.w e t = some n → comp (doRemoved t p s).1.w e p = comp s.w e p) := by
  obtain ⟨h1, h2, h3⟩ := doRemoved_effect t p s hw
  exact ⟨h1, h2.live, h2.ex, h2.comp, fun e ht => by rw [h3, ht]; rfl, fun e n ht => by rw [h3, ht]; rfl⟩

theorem removed_reported (t p : Nat) (s : CSt) (hw : s.w.Inv) (e : Entity) :
    (∀ o, (e, o) ∈ (doRemoved t p s).2 → comp (doRemoved t p s).1.w e p = none) ∧
    ((∀ o, (e, o) ∉ (doRemoved t p s).2) → comp (doRemoved t p s).1.w e p = comp s.w e p) := by
  obtain ⟨_, _, h3⟩ := doRemoved_effect t p s hw
  constructor
  · intro o hx
    rw [h3, ((mem_doRemoved t p s hw e o).1 hx).2]; rfl
  · intro hx
    rw [h3]
    cases ht : comp s.w e t with
    | some n => rfl
    | none =>
      cases hp : comp s.w e p with
      | none => rfl
      | some o => exact absurd ((mem_doRemoved t p s hw e o).2 ⟨hp, ht⟩) (hx o)

theorem track_snapshot_eq_current_rows {t p : Nat} (htp : t ≠ p) (w : World) (hw : w.Inv)
    (reads : List Read) (e : Entity) (cs : List Comp) (h : (e, cs) ∈ (track t p w reads).1.liveRows) :
    lookupComp p cs = lookupComp t cs := by
  have hi := (track_spec htp w hw reads).1.core
  rw [← comp_of_mem_liveRows _ hi h p, ← comp_of_mem_liveRows _ hi h t]
  exact track_tracked htp w hw reads e

theorem track_live {t p : Nat} (htp : t ≠ p) (w : World) (hw : w.Inv) (reads : List Read) (e : Entity) :
    (w.isLive e = true → (track t p w reads).1.isLive e = true) ∧
    ((track t p w reads).1.isLive e = true → w.flush.isLive e = true) := by
  have h := track_spec htp w hw reads
  refine ⟨h.2.1.live e, fun hl => ?_⟩
  rw [World.isLive_flush w hw e]
  have := isLive_ex _ h.1.core e hl
  rw [h.2.1.ex e] at this
  exact this

theorem reports_eq_diff {t p : Nat} (htp : t ≠ p) (w : World) (hw : w.Inv) (reads : List Read)
    (hc : reads.countP isChangedRead ≤ 1) (hr : reads.countP isRemovedRead ≤ 1) :
    ((track t p w reads).2.added.isSome = reads.any isAddedRead ∧
      ∀ l, (track t p w reads).2.added = some l → ∀ e v,
        (e, v) ∈ l ↔ (e, v) ∈ specAdded (snapshot w.liveRows p) (snapshot w.liveRows t)) ∧
    ((track t p w reads).2.changed.isSome = reads.any isChangedRead ∧
      ∀ l, (track t p w reads).2.changed = some l → ∀ e o n,
        (e, o, n) ∈ l ↔ (e, o, n) ∈ specChanged (snapshot w.liveRows p) (snapshot w.liveRows t)) ∧
    ((track t p w reads).2.removed.isSome = reads.any isRemovedRead ∧
      ∀ l, (track t p w reads).2.removed = some l → ∀ e o,
        (e, o) ∈ l ↔ (e, o) ∈ specRemoved (snapshot w.liveRows p) (snapshot w.liveRows t)
          (w.liveRows.map (·.1))) := by
  obtain ⟨⟨a1, a2⟩, ⟨b1, b2⟩, ⟨c1, c2⟩⟩ := track_reports htp w hw reads hc hr
  obtain ⟨s1, s2, s3⟩ := classes_eq_spec t p w hw
  exact ⟨⟨a1, fun l hl e v => (a2 l hl e v).trans (s1 e v)⟩,
    ⟨b1, fun l hl e o n => (b2 l hl e o n).trans (s2 e o n)⟩,
    ⟨c1, fun l hl e o => (c2 l hl e o).trans (s3 e o)⟩⟩

theorem two_tracks_ops {t p : Nat} (htp : t ≠ p) (w : World) (hw : w.Inv) (reads0 : List Read)
    (ops : List Op) (hops : ∀ op, op ∈ ops → op.WF ∧ NoP p op) (w0 w1 : World)
    (h0 : w0 = (track t p w reads0).1) (h1 : w1 = ops.foldl (fun w op => (step w op).1) w0)
    (reads : List Read) (hc : reads.countP isChangedRead ≤ 1) (hr : reads.countP isRemovedRead ≤ 1) :
    ((track t p w1 reads).2.added.isSome = reads.any isAddedRead ∧
      ∀ l, (track t p w1 reads).2.added = some l → ∀ e v,
        (e, v) ∈ l ↔ (e, v) ∈ specAdded (snapshot w0.liveRows t) (snapshot w1.liveRows t)) ∧
    ((track t p w1 reads).2.changed.isSome = reads.any isChangedRead ∧
      ∀ l, (track t p w1 reads).2.changed = some l → ∀ e o n,
        (e, o, n) ∈ l ↔ (e, o, n) ∈ specChanged (snapshot w0.liveRows t) (snapshot w1.liveRows t)) ∧
    ((track t p w1 reads).2.removed.isSome = reads.any isRemovedRead ∧
      ∀ l, (track t p w1 reads).2.removed = some l → ∀ e o,
        (e, o) ∈ l ↔ (e, o) ∈ specRemoved (snapshot w0.liveRows t) (snapshot w1.liveRows t)
          (w1.liveRows.map (·.1))) := by
  subst h0 h1
  have hi := (track_spec htp w hw reads0).1
  exact track_reports_two htp _ _ hi (World.inv_foldl ops (fun op h => (hops op h).1) _ hi)
    (track_tracked htp w hw reads0) (keepsP_foldl p ops _ hi hops) reads hc hr

theorem two_tracks_no_op {t p : Nat} (htp : t ≠ p) (w : World) (hw : w.Inv) (reads0 reads : List Read)
    (hc : reads.countP isChangedRead ≤ 1) (hr : reads.countP isRemovedRead ≤ 1) :
    (∀ l, (track t p (track t p w reads0).1 reads).2.added = some l → l = []) ∧
    (∀ l, (track t p (track t p w reads0).1 reads).2.changed = some l → l = []) ∧
    (∀ l, (track t p (track t p w reads0).1 reads).2.removed = some l → l = []) := by
  have hi := (track_spec htp w hw reads0).1
  have ht := track_tracked htp w hw reads0
  obtain ⟨⟨_, a⟩, ⟨_, b⟩, ⟨_, c⟩⟩ := track_reports htp _ hi reads hc hr
  refine ⟨fun l hl => ?_, fun l hl => ?_, fun l hl => ?_⟩
  · apply List.eq_nil_iff_forall_not_mem.2
    rintro ⟨e, v⟩ hx
    obtain ⟨h1, h2⟩ := (a l hl e v).1 hx
    rw [ht e, h1] at h2; cases h2
  · apply List.eq_nil_iff_forall_not_mem.2
    rintro ⟨e, o, n⟩ hx
    obtain ⟨h1, h2, h3⟩ := (b l hl e o n).1 hx
    rw [ht e, h1] at h2; exact h3 (Option.some.inj h2)
  · apply List.eq_nil_iff_forall_not_mem.2
    rintro ⟨e, o⟩ hx
    obtain ⟨h1, h2⟩ := (c l hl e o).1 hx
    rw [ht e, h2] at h1; cases h1

end Hecs.TrackerLemmas.Headline
