import HecsModel.Lemmas.WorldInvPrims
/-
  `place`: give an id a fresh row at the end of an archetype (the common core of spawn, flush,
  and the target half of an archetype move); `getArch`.
-/
namespace Hecs
namespace World

/-- push a row for `id` onto archetype `a` and point `id` at it -/
def place (w : World) (a id : Nat) (vals : List Comp) : World :=
  (w.pushRow a ⟨id, vals⟩).1.setLoc id (some (a, (w.rowsOf a).size))

theorem place_eq (w : World) (a id vals) :
    w.place a id vals = (w.modRows a (fun rows => rows.push ⟨id, vals⟩)).setLoc id (some (a, (w.rowsOf a).size)) := rfl

@[simp] theorem place_archs_size (w : World) (a id vals) : (w.place a id vals).archs.size = w.archs.size := by
  simp [place_eq]
@[simp] theorem place_typesOf (w : World) (a id vals b) : (w.place a id vals).typesOf b = w.typesOf b := by
  simp [place_eq]
@[simp] theorem place_metas_size (w : World) (a id vals) : (w.place a id vals).metas.size = w.metas.size := by
  simp [place_eq]
@[simp] theorem place_pending (w : World) (a id vals) : (w.place a id vals).pending = w.pending := rfl
@[simp] theorem place_cursor (w : World) (a id vals) : (w.place a id vals).cursor = w.cursor := rfl
@[simp] theorem place_len (w : World) (a id vals) : (w.place a id vals).len = w.len := rfl

theorem place_rowCount (w : World) (a id vals) (ha : a < w.archs.size) :
    (w.place a id vals).rowCount = w.rowCount + 1 := by
  rw [place_eq, setLoc_rowCount]
  have := modRows_rowCount w a (fun rows => rows.push ⟨id, vals⟩) ha
  simp at this; omega

theorem place_locOf (w : World) (a id vals id') (hid : id < w.metas.size) :
    (w.place a id vals).locOf id' = if id' = id then some (a, (w.rowsOf a).size) else w.locOf id' := by
  rw [place_eq, setLoc_locOf]; simp [hid]

theorem place_get (w : World) (a id vals b j) (ha : a < w.archs.size) :
    ((w.place a id vals).rowsOf b)[j]? =
      if b = a then (if j = (w.rowsOf a).size then some ⟨id, vals⟩ else (w.rowsOf a)[j]?)
      else (w.rowsOf b)[j]? := by
  rw [place_eq, setLoc_rowsOf, modRows_rowsOf]
  by_cases hb : b = a
  · subst hb; simp [ha, Array.getElem?_push]
  · simp [hb]

theorem place_size (w : World) (a id vals b) (ha : a < w.archs.size) :
    ((w.place a id vals).rowsOf b).size = if b = a then (w.rowsOf a).size + 1 else (w.rowsOf b).size := by
  rw [place_eq, setLoc_rowsOf, modRows_rowsOf]
  by_cases hb : b = a
  · subst hb; simp [ha]
  · simp [hb]

theorem place_bij (w : World) (a id vals) (ha : a < w.archs.size) (hid : id < w.metas.size)
    (hl : w.locOf id = none) (h : w.Bij) : (w.place a id vals).Bij := by
  obtain ⟨h1, h2⟩ := h
  constructor
  · intro id' b j; rw [place_locOf _ _ _ _ _ hid, place_get _ _ _ _ _ _ ha]
    intro hh
    by_cases hi : id' = id
    · subst hi; simp only [if_true, Option.some.injEq, Prod.mk.injEq] at hh
      obtain ⟨rfl, rfl⟩ := hh; exact ⟨⟨_, vals⟩, by simp, rfl⟩
    · simp only [hi, if_false] at hh
      have := h1 id' b j hh
      grind
  · intro b j r; rw [place_get _ _ _ _ _ _ ha, place_locOf _ _ _ _ _ hid]
    grind

theorem place_bijEx (w : World) (a id vals a0 i0) (ha : a < w.archs.size)
    (hl : w.locOf id = some (a0, i0)) (hne : a0 ≠ a) (h : w.Bij) : (w.place a id vals).BijEx a0 i0 := by
  have hid := lt_of_locOf hl
  obtain ⟨h1, h2⟩ := h
  constructor
  · intro id' b j; rw [place_locOf _ _ _ _ _ hid, place_get _ _ _ _ _ _ ha]
    intro hh
    by_cases hi : id' = id
    · subst hi; simp only [if_true, Option.some.injEq, Prod.mk.injEq] at hh
      obtain ⟨rfl, rfl⟩ := hh; exact ⟨by omega, ⟨_, vals⟩, by simp, rfl⟩
    · simp only [hi, if_false] at hh
      have := h1 id' b j hh
      grind
  · intro b j r; rw [place_get _ _ _ _ _ _ ha, place_locOf _ _ _ _ _ hid]
    grind
  · rw [place_size _ _ _ _ _ ha]; simp [hne]
    have := h1 _ _ _ hl; grind

theorem place_archOK (w : World) (a id) (vals : List Comp) (ha : a < w.archs.size)
    (hv : vals.map (·.1) = w.typesOf a) (h : w.ArchOK) : (w.place a id vals).ArchOK := by
  obtain ⟨h0, h1, h2, h3⟩ := h
  refine ⟨by simpa using h0, by simpa using h1, by simpa using h2, ?_⟩
  intro b j r; rw [place_get _ _ _ _ _ _ ha, place_typesOf]
  intro hh
  by_cases hb : b = a
  · subst hb; simp only [if_true] at hh
    split at hh
    · cases hh; exact hv
    · exact h3 _ _ _ hh
  · simp only [hb, if_false] at hh; exact h3 _ _ _ hh

theorem place_free (w : World) (a id vals pre post) (hid : id < w.metas.size)
    (h : w.Free (pre ++ id :: post)) : (w.place a id vals).Free (pre ++ post) := by
  obtain ⟨h1, h2⟩ := h
  constructor
  · grind
  · intro id'; rw [place_locOf _ _ _ _ _ hid, place_metas_size]
    have := h2 id'
    by_cases hi : id' = id
    · subst hi; simp; grind
    · simp [hi] at this ⊢; exact this

/-! ### getArch -/

/-- `w'` has the same entity table and the same rows as `w` -/
structure Same (w' w : World) : Prop where
  metas : w'.metas = w.metas
  pending : w'.pending = w.pending
  cursor : w'.cursor = w.cursor
  len : w'.len = w.len
  rows : ∀ b, w'.rowsOf b = w.rowsOf b
  rowCount : w'.rowCount = w.rowCount

theorem Same.locOf {w' w : World} (h : Same w' w) (id : Nat) : w'.locOf id = w.locOf id := by
  unfold World.locOf; rw [h.metas]

theorem Same.bij {w' w : World} (h : Same w' w) (hb : w.Bij) : w'.Bij := by
  obtain ⟨h1, h2⟩ := hb
  constructor
  · intro id a i; rw [h.locOf, h.rows]; exact h1 id a i
  · intro a i r; rw [h.locOf, h.rows]; exact h2 a i r

theorem Same.free {w' w : World} (h : Same w' w) {Q} (hb : w.Free Q) : w'.Free Q := by
  refine ⟨hb.nodup, ?_⟩
  intro id; rw [h.locOf, h.metas]; exact hb.iff id

theorem findArch_some {archs : Array Arch} {ts i} (h : findArch archs ts = some i) :
    ∃ ar, archs[i]? = some ar ∧ ar.types = ts := by
  unfold findArch at h
  rw [Array.findIdx?_eq_some_iff_getElem] at h
  obtain ⟨hi, hp, _⟩ := h
  exact ⟨archs[i], by simp [hi], by simpa using hp⟩

theorem findArch_none {archs : Array Arch} {ts} (h : findArch archs ts = none) (i : Nat) (ar : Arch) (hi : archs[i]? = some ar) :
    ar.types ≠ ts := by
  unfold findArch at h
  rw [Array.findIdx?_eq_none_iff] at h
  have := h ar (Array.mem_of_getElem? hi)
  simpa using this

theorem typesOf_of_get {w : World} {a ar} (h : w.archs[a]? = some ar) : w.typesOf a = ar.types := by
  simp [typesOf, h]

theorem rowsOf_of_get {w : World} {a ar} (h : w.archs[a]? = some ar) : w.rowsOf a = ar.rows := by
  simp [rowsOf, h]

theorem getArch_spec (w : World) (ts : List Nat) (h : w.ArchOK) (hs : strictSorted ts = true) :
    Same (w.getArch ts).1 w ∧ (w.getArch ts).2 < (w.getArch ts).1.archs.size ∧
    (w.getArch ts).1.typesOf (w.getArch ts).2 = ts ∧ (w.getArch ts).1.ArchOK ∧
    w.archs.size ≤ (w.getArch ts).1.archs.size ∧
    (∀ b, b < w.archs.size → (w.getArch ts).1.typesOf b = w.typesOf b) := by
  unfold getArch
  cases hf : findArch w.archs ts with
  | some i =>
    obtain ⟨ar, har, hty⟩ := findArch_some hf
    have hi : i < w.archs.size := by
      apply Classical.byContradiction; intro hn
      rw [Array.getElem?_eq_none (by omega)] at har; cases har
    refine ⟨⟨rfl, rfl, rfl, rfl, fun _ => rfl, rfl⟩, hi, ?_, h, Nat.le_refl _, fun _ _ => rfl⟩
    simp [typesOf_of_get har, hty]
  | none =>
    have hnone := findArch_none hf
    have hty : ∀ b, b < w.archs.size →
        ({ w with archs := w.archs.push ⟨ts, #[]⟩ } : World).typesOf b = w.typesOf b := by
      intro b hb; simp [typesOf, Array.getElem?_push, Nat.ne_of_lt hb]
    have hrows : ∀ b, ({ w with archs := w.archs.push ⟨ts, #[]⟩ } : World).rowsOf b = w.rowsOf b := by
      intro b
      by_cases hb : b = w.archs.size
      · subst hb; simp [rowsOf]
      · simp [rowsOf, Array.getElem?_push, hb]
    have hnew : ({ w with archs := w.archs.push ⟨ts, #[]⟩ } : World).typesOf w.archs.size = ts := by
      simp [typesOf]
    obtain ⟨h0, h1, h2, h3⟩ := h
    refine ⟨⟨rfl, rfl, rfl, rfl, hrows, ?_⟩, by simp, hnew, ⟨?_, ?_, ?_, ?_⟩, by simp, hty⟩
    · simp [rowCount]
    · refine ⟨by simp, ?_⟩
      rw [hty 0 h0.1]; exact h0.2
    · intro a ha
      simp only [Array.size_push] at ha
      by_cases hb : a = w.archs.size
      · subst hb; rw [hnew]; exact hs
      · rw [hty a (by omega)]; exact h1 a (by omega)
    · intro a b ha hb
      simp only [Array.size_push] at ha hb
      have key : ∀ c, c < w.archs.size → w.typesOf c ≠ ts := by
        intro c hc
        have : w.archs[c]? = some w.archs[c] := by simp [hc]
        rw [typesOf_of_get this]; exact hnone c _ this
      by_cases ha' : a = w.archs.size <;> by_cases hb' : b = w.archs.size
      · omega
      · subst ha'; rw [hnew, hty b (by omega)]; intro e; exact absurd e.symm (key b (by omega))
      · subst hb'; rw [hnew, hty a (by omega)]; intro e; exact absurd e (key a (by omega))
      · rw [hty a (by omega), hty b (by omega)]; exact h2 a b (by omega) (by omega)
    · intro a i r; rw [hrows]; intro hr
      rw [hty a (lt_of_row hr)]; exact h3 a i r hr

/-! ### the invariant in observation form -/

structure Good (w : World) : Prop where
  bij : w.Bij
  arch : w.ArchOK
  free : w.Free w.pending.toList
  cursor_le : w.cursor ≤ w.pending.size
  len_rows : w.len = w.rowCount
  count : w.rowCount + w.pending.size = w.metas.size

theorem get_of_lt {w : World} {a} (h : a < w.archs.size) : w.archs[a]? = some w.archs[a] := by simp [h]

theorem core_iff (w : World) : w.Core ↔ w.Bij ∧ w.ArchOK := by
  constructor
  · rintro ⟨h1, h2, h3, h4, h5, h6⟩
    refine ⟨⟨?_, ?_⟩, ⟨?_, ?_, ?_, ?_⟩⟩
    · intro id a i h; rw [← rowAt_eq]; exact h1 id a i h
    · intro a i r h; rw [← rowAt_eq] at h; exact h2 a i r h
    · obtain ⟨ar, h0, ht⟩ := h3
      refine ⟨?_, by rw [typesOf_of_get h0, ht]⟩
      apply Classical.byContradiction; intro hn
      rw [Array.getElem?_eq_none (by omega)] at h0; cases h0
    · intro a ha; rw [typesOf_of_get (get_of_lt ha)]; exact h4 a _ (get_of_lt ha)
    · intro a b ha hb; rw [typesOf_of_get (get_of_lt ha), typesOf_of_get (get_of_lt hb)]
      exact h5 a b _ _ (get_of_lt ha) (get_of_lt hb)
    · intro a i r hr
      have ha := lt_of_row hr
      rw [rowsOf_of_get (get_of_lt ha)] at hr
      rw [typesOf_of_get (get_of_lt ha)]; exact h6 a _ i r (get_of_lt ha) hr
  · rintro ⟨⟨h1, h2⟩, ⟨h3, h4, h5, h6⟩⟩
    refine ⟨?_, ?_, ?_, ?_, ?_, ?_⟩
    · intro id a i h; rw [rowAt_eq]; exact h1 id a i h
    · intro a i r h; rw [rowAt_eq] at h; exact h2 a i r h
    · exact ⟨_, get_of_lt h3.1, by rw [← typesOf_of_get (get_of_lt h3.1)]; exact h3.2⟩
    · intro a ar ha
      have hlt : a < w.archs.size := by
        apply Classical.byContradiction; intro hn
        rw [Array.getElem?_eq_none (by omega)] at ha; cases ha
      rw [← typesOf_of_get ha]; exact h4 a hlt
    · intro a b ar br ha hb
      have hlt : a < w.archs.size := by
        apply Classical.byContradiction; intro hn
        rw [Array.getElem?_eq_none (by omega)] at ha; cases ha
      have hlt' : b < w.archs.size := by
        apply Classical.byContradiction; intro hn
        rw [Array.getElem?_eq_none (by omega)] at hb; cases hb
      rw [← typesOf_of_get ha, ← typesOf_of_get hb]; exact h5 a b hlt hlt'
    · intro a ar i r ha hr
      rw [← typesOf_of_get ha]; rw [← rowsOf_of_get ha] at hr; exact h6 a i r hr

theorem inv_iff_good (w : World) : w.Inv ↔ w.Good := by
  constructor
  · rintro ⟨hc, ⟨b1, b2, b3, b4, b5⟩⟩
    obtain ⟨hb, ha⟩ := (core_iff w).1 hc
    have : w.len = w.rowCount := b4
    exact ⟨hb, ha, ⟨b1, b2⟩, b3, this, by omega⟩
  · rintro ⟨hb, ha, ⟨f1, f2⟩, hc, hl, hn⟩
    exact ⟨(core_iff w).2 ⟨hb, ha⟩, ⟨f1, f2, hc, hl, by omega⟩⟩

end World
end Hecs
