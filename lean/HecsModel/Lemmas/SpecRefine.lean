import HecsModel.Spec.World
import HecsModel.Lemmas.Issued
import HecsModel.Lemmas.CmdBuf
/-
  Refinement: the abstract map specification (`Spec/World.lean`, the oracle (S) the checks run on the
  implementation's answers) accepts everything the concrete model does.  Helper lemmas and the
  per-operation acceptance lemmas; the property theorems are in `Props/C01Spec.lean`.
-/
namespace Hecs
namespace Spec
open Hecs

namespace SpecW

theorem lookup_eq_none_iff (s : SpecW) (e : Entity) : s.lookup e = none ↔ e ∉ s.live.map (·.1) := by
  unfold lookup
  rw [Option.map_eq_none_iff, List.find?_eq_none]
  constructor
  · intro h hm
    obtain ⟨p, hp, rfl⟩ := List.mem_map.1 hm
    exact h p hp (by simp)
  · intro h p hp hpe
    apply h
    have : p.1 = e := by simpa using hpe
    exact List.mem_map.2 ⟨p, hp, this⟩

theorem lookup_append (s : SpecW) (l : List (Entity × List Comp)) (e : Entity) :
    ({ s with live := s.live ++ l } : SpecW).lookup e
      = match s.lookup e with
        | some cs => some cs
        | none => (l.find? (·.1 == e)).map (·.2) := by
  unfold lookup
  simp only [List.find?_append]
  cases h : s.live.find? (·.1 == e) <;> simp

theorem lookup_erase (s : SpecW) (e e' : Entity) :
    (s.erase e).lookup e' = if e' = e then none else s.lookup e' := by
  unfold erase lookup
  simp only
  split
  · rename_i h; subst h
    rw [Option.map_eq_none_iff, List.find?_eq_none]
    intro p hp
    rw [List.mem_filter] at hp
    simpa using hp.2
  · rename_i h
    congr 1
    induction s.live with
    | nil => rfl
    | cons p ps ih =>
      by_cases hp : p.1 = e
      · have : (p.1 != e) = false := by simp [hp]
        have h2 : (p.1 == e') = false := by simp [hp]; exact fun hh => h hh.symm
        simp [this, h2, ih]
      · have : (p.1 != e) = true := by simp [hp]
        simp only [List.filter_cons, this, if_true, List.find?_cons]
        split <;> simp_all

theorem isLive_iff (s : SpecW) (e : Entity) : s.isLive e = true ↔ e ∈ s.live.map (·.1) := by
  unfold isLive
  rw [List.any_eq_true]
  constructor
  · rintro ⟨p, hp, h⟩; exact List.mem_map.2 ⟨p, hp, by simpa using h⟩
  · intro h; obtain ⟨p, hp, rfl⟩ := List.mem_map.1 h; exact ⟨p, hp, by simp⟩

theorem keys_put (s : SpecW) (e : Entity) (cs : List Comp) :
    (s.put e cs).live.map (·.1) = if s.isLive e then s.live.map (·.1) else s.live.map (·.1) ++ [e] := by
  unfold put
  split
  · simp only [List.map_map]
    apply List.map_congr_left
    intro p _
    simp only [Function.comp]
    split
    · rename_i h; exact (by simpa using h : p.1 = e).symm
    · rfl
  · simp

theorem find_map_put (l : List (Entity × List Comp)) (e e' : Entity) (cs : List Comp) :
    ((l.map (fun p => if p.1 == e then (e, cs) else p)).find? (·.1 == e')).map (·.2)
      = if e' = e then (if l.any (·.1 == e) then some cs else none)
        else (l.find? (·.1 == e')).map (·.2) := by
  induction l with
  | nil => simp
  | cons p ps ih => grind

theorem lookup_put (s : SpecW) (e e' : Entity) (cs : List Comp) :
    (s.put e cs).lookup e' = if e' = e then some cs else s.lookup e' := by
  unfold put
  split
  · rename_i hl
    unfold lookup
    simp only
    rw [find_map_put]
    unfold isLive at hl
    simp [hl]
  · rename_i hl
    rw [lookup_append]
    have hn : s.lookup e = none := by
      rw [lookup_eq_none_iff, ← isLive_iff]; simpa using hl
    by_cases he : e' = e
    · subst he; simp [hn]
    · have : (e == e') = false := by simp; exact fun h => he h.symm
      simp only [if_neg he]
      cases s.lookup e' <;> simp [this]

theorem find_resmap (l : List Entity) (e : Entity) :
    ((l.map (fun x => (x, ([] : List Comp)))).find? (·.1 == e)).map (·.2) = if e ∈ l then some [] else none := by
  induction l with
  | nil => simp
  | cons p ps ih => grind

theorem lookup_flush (s : SpecW) (e : Entity) :
    s.flush.lookup e = match s.lookup e with
      | some cs => some cs
      | none => if e ∈ s.reserved then some [] else none := by
  have := lookup_append s (s.reserved.map (fun x => (x, []))) e
  unfold flush
  unfold lookup at this ⊢
  simp only at this ⊢
  rw [this, find_resmap]

theorem flush_reserved (s : SpecW) : s.flush.reserved = [] := rfl

theorem flush_flush (s : SpecW) : s.flush.flush = s.flush := by
  unfold flush; simp

theorem flush_keys (s : SpecW) : s.flush.live.map (·.1) = s.live.map (·.1) ++ s.reserved := by
  unfold flush
  simp only [List.map_append, List.map_map]
  congr 1
  induction s.reserved with
  | nil => rfl
  | cons x xs ih => simp [ih]

theorem sameComps_refl (a : List Comp) : sameComps a a = true := by
  unfold sameComps; simp

end SpecW

/-- the abstract state and the model world tell the same story about every handle -/
structure Sim (s : SpecW) (w : World) : Prop where
  keys : (s.live.map (·.1) ++ s.reserved).Nodup
  look : ∀ e, s.flush.lookup e = w.lookup e

theorem Sim.flush {s : SpecW} {w : World} (h : Sim s w) (hw : w.Inv) : Sim s.flush w.flush := by
  refine ⟨?_, ?_⟩
  · rw [SpecW.flush_keys, SpecW.flush_reserved, List.append_nil]; exact h.keys
  · intro e; rw [SpecW.flush_flush, World.lookup_flush w hw]; exact h.look e

/-- in a flushed abstract state `lookup` needs no flush -/
theorem Sim.look' {s : SpecW} {w : World} (h : Sim s.flush w) (e : Entity) : s.flush.lookup e = w.lookup e := by
  have := h.look e; rwa [SpecW.flush_flush] at this

theorem check_true (msg : String) : check true msg = .ok () := rfl

namespace SpecW
theorem flush_of_nil (s : SpecW) (h : s.reserved = []) : s.flush = s := by
  cases s; simp_all [flush]

theorem put_reserved (s : SpecW) (e : Entity) (cs : List Comp) : (s.put e cs).reserved = s.reserved := by
  unfold put; split <;> rfl

theorem erase_reserved (s : SpecW) (e : Entity) : (s.erase e).reserved = s.reserved := rfl

theorem put_issued (s : SpecW) (e : Entity) (cs : List Comp) : (s.put e cs).issued = s.issued := by
  unfold put; split <;> rfl

theorem put_targeted (s : SpecW) (e : Entity) (cs : List Comp) : (s.put e cs).targeted = s.targeted := by
  unfold put; split <;> rfl

theorem isLive_of_lookup (s : SpecW) (e : Entity) (cs : List Comp) (h : s.lookup e = some cs) : s.isLive e = true := by
  rw [isLive_iff]
  apply Classical.byContradiction
  intro hn
  rw [← lookup_eq_none_iff] at hn
  rw [hn] at h; cases h
end SpecW

/-- updating a live entity of a flushed abstract state -/
theorem Sim.put {s : SpecW} {w w' : World} (hf : Sim s.flush w) (e : Entity) (old new : List Comp)
    (hold : s.flush.lookup e = some old) (hnew : w'.lookup e = some new)
    (hframe : ∀ x, x ≠ e → w'.lookup x = w.lookup x) : Sim (s.flush.put e new) w' := by
  have hr : (s.flush.put e new).reserved = [] := by rw [SpecW.put_reserved]; rfl
  refine ⟨?_, ?_⟩
  · rw [hr, List.append_nil, SpecW.keys_put, SpecW.isLive_of_lookup _ _ _ hold, if_pos rfl]
    have := hf.keys; rwa [SpecW.flush_reserved, List.append_nil] at this
  · intro x
    rw [SpecW.flush_of_nil _ hr, SpecW.lookup_put]
    by_cases hx : x = e
    · subst hx; rw [if_pos rfl, hnew]
    · rw [if_neg hx, hframe x hx]; exact hf.look' x

end Spec

namespace World

theorem exchange_lookup_eq (w : World) (e : Entity) (ts : List Nat) (b : List Comp) (h : w.Good)
    (hb : (b.map (·.1)).Nodup) (old got : List Comp) (hold : w.flush.lookup e = some old)
    (hgot : bundleGet old ts = some got) :
    (w.exchange e ts b).1.lookup e =
      some (canon (b ++ (old.filter (fun c => !ts.contains c.1)).filter (fun c => !(b.map (·.1)).contains c.1))) := by
  obtain ⟨_, _, new, s2, s3, _⟩ := (exchange_spec w e ts b h hb).1 old got hold hgot
  rw [s2]; congr 1
  have hinv : (w.exchange e ts b).1.Inv := inv_step w (.exchange e ts b) hb ((inv_iff_good w).2 h)
  have hso := lookup_sorted _ ((flush_flushed' w h).inv) e old hold
  apply comps_ext
  · exact lookup_sorted _ hinv e new s2
  · apply canon_sorted
    rw [List.map_append, List.nodup_append]
    refine ⟨hb, ((strictSorted_nodup _ hso).sublist
      (List.Sublist.map _ (List.filter_sublist.trans List.filter_sublist))), ?_⟩
    intro x hx y hy
    simp only [List.mem_map, List.mem_filter] at hy
    obtain ⟨c, ⟨_, hc⟩, rfl⟩ := hy
    intro hxy; subst hxy
    simp at hc; simp at hx
    obtain ⟨v, hv⟩ := hx
    exact hc _ hv
  · intro t
    rw [s3, lookupComp_canon, lookupComp_append,
      lookupComp_filter (fun t => !(b.map (·.1)).contains t)]
    by_cases ht : t ∈ b.map (·.1)
    · rw [if_pos ht, if_pos ht]
    · rw [if_neg ht, if_neg ht]
      have : (b.map (·.1)).contains t = false := by simpa using ht
      simp only [this, Bool.not_false, if_true]

end World

namespace Spec

theorem accepts_insert (s : SpecW) (w : World) (hs : Sim s w) (hw : w.Inv) (e : Entity) (b : List Comp)
    (hop : (Op.insert e b).WF) :
    ∃ s', apply s (.insert e b) (step w (.insert e b)).2.res (step w (.insert e b)).2.dropped = .ok s' ∧
      Sim s' (step w (.insert e b)).1 ∧
      s'.issued = s.issued ∧ s'.targeted = s.targeted := by
  have hf := hs.flush hw
  have hl := hf.look' e
  have hg := (World.inv_iff_good w).1 hw
  have hsp := World.insert_spec w e b hg hop
  simp only [apply, step]
  cases hlk : s.flush.lookup e with
  | none =>
    rw [hlk] at hl
    rw [hsp.2 hl.symm]
    refine ⟨s.flush, ?_, hf, rfl, rfl⟩
    simp [SpecW.sameComps_refl, check, bind, Except.bind, pure, Except.pure]
  | some old =>
    rw [hlk] at hl
    obtain ⟨h1, h2, new, _, _, h5⟩ := hsp.1 old hl.symm
    have h3 := World.insert_lookup_eq w e b hg hop old hl.symm
    refine ⟨s.flush.put e (overrideComps old b), ?_, Sim.put hf e old _ hlk h3 h5,
        SpecW.put_issued _ _ _, SpecW.put_targeted _ _ _⟩
    simp [h1, h2, SpecW.sameComps_refl, check, bind, Except.bind, pure, Except.pure]

theorem accepts_remove (s : SpecW) (w : World) (hs : Sim s w) (hw : w.Inv) (e : Entity) (ts : List Nat) :
    ∃ s', apply s (.remove e ts) (step w (.remove e ts)).2.res (step w (.remove e ts)).2.dropped = .ok s' ∧
      Sim s' (step w (.remove e ts)).1 ∧
      s'.issued = s.issued ∧ s'.targeted = s.targeted := by
  have hf := hs.flush hw
  have hl := hf.look' e
  have hg := (World.inv_iff_good w).1 hw
  have hsp := World.remove_spec w e ts hg
  simp only [apply, step]
  cases hlk : s.flush.lookup e with
  | none =>
    rw [hlk] at hl
    rw [hsp.2.2 hl.symm]
    exact ⟨s.flush, by simp [check, bind, Except.bind, pure, Except.pure], hf, rfl, rfl⟩
  | some old =>
    rw [hlk] at hl
    cases hgot : World.bundleGet old ts with
    | none =>
      rw [hsp.2.1 old hl.symm hgot]
      exact ⟨s.flush, by simp [hgot, check, bind, Except.bind, pure, Except.pure], hf, rfl, rfl⟩
    | some got =>
      obtain ⟨h1, h2, h3, h5⟩ := hsp.1 old got hl.symm hgot
      refine ⟨s.flush.put e (old.filter (fun c => !ts.contains c.1)), ?_, Sim.put hf e old _ hlk h3 h5,
        SpecW.put_issued _ _ _, SpecW.put_targeted _ _ _⟩
      simp [hgot, h1, h2, check, bind, Except.bind, pure, Except.pure]

theorem accepts_exchange (s : SpecW) (w : World) (hs : Sim s w) (hw : w.Inv) (e : Entity) (ts : List Nat)
    (b : List Comp) (hop : (Op.exchange e ts b).WF) :
    ∃ s', apply s (.exchange e ts b) (step w (.exchange e ts b)).2.res (step w (.exchange e ts b)).2.dropped = .ok s' ∧
      Sim s' (step w (.exchange e ts b)).1 ∧
      s'.issued = s.issued ∧ s'.targeted = s.targeted := by
  have hf := hs.flush hw
  have hl := hf.look' e
  have hg := (World.inv_iff_good w).1 hw
  have hsp := World.exchange_spec w e ts b hg hop
  simp only [apply, step]
  cases hlk : s.flush.lookup e with
  | none =>
    rw [hlk] at hl
    rw [hsp.2.2 hl.symm]
    exact ⟨s.flush, by simp [SpecW.sameComps_refl, check, bind, Except.bind, pure, Except.pure], hf, rfl, rfl⟩
  | some old =>
    rw [hlk] at hl
    cases hgot : World.bundleGet old ts with
    | none =>
      rw [hsp.2.1 old hl.symm hgot]
      exact ⟨s.flush, by simp [hgot, SpecW.sameComps_refl, check, bind, Except.bind, pure, Except.pure], hf, rfl, rfl⟩
    | some got =>
      obtain ⟨h1, h2, new, _, _, h5⟩ := hsp.1 old got hl.symm hgot
      have h3 := World.exchange_lookup_eq w e ts b hg hop old got hl.symm hgot
      refine ⟨s.flush.put e (overrideComps (old.filter (fun c => !ts.contains c.1)) b), ?_,
        Sim.put hf e old _ hlk h3 h5,
        SpecW.put_issued _ _ _, SpecW.put_targeted _ _ _⟩
      simp [hgot, h1, h2, SpecW.sameComps_refl, check, bind, Except.bind, pure, Except.pure]

/-- removing a live entity of a flushed abstract state -/
theorem Sim.erase {s : SpecW} {w w' : World} (hf : Sim s.flush w) (e : Entity)
    (hgone : w'.lookup e = none) (hframe : ∀ x, x ≠ e → w'.lookup x = w.lookup x) :
    Sim (s.flush.erase e) w' := by
  have hr : (s.flush.erase e).reserved = [] := rfl
  refine ⟨?_, ?_⟩
  · rw [hr, List.append_nil]
    have := hf.keys; rw [SpecW.flush_reserved, List.append_nil] at this
    unfold SpecW.erase
    exact this.sublist (List.Sublist.map _ List.filter_sublist)
  · intro x
    rw [SpecW.flush_of_nil _ hr, SpecW.lookup_erase]
    by_cases hx : x = e
    · subst hx; rw [if_pos rfl, hgone]
    · rw [if_neg hx, hframe x hx]; exact hf.look' x

theorem accepts_despawn (s : SpecW) (w : World) (hs : Sim s w) (hw : w.Inv) (e : Entity) :
    ∃ s', apply s (.despawn e) (step w (.despawn e)).2.res (step w (.despawn e)).2.dropped = .ok s' ∧
      Sim s' (step w (.despawn e)).1 ∧
      s'.issued = s.issued ∧ s'.targeted = s.targeted := by
  have hf := hs.flush hw
  have hl := hf.look' e
  have hg := (World.inv_iff_good w).1 hw
  have hsp := World.despawn_spec w e hg
  simp only [apply, step]
  cases hlk : s.flush.lookup e with
  | none =>
    rw [hlk] at hl
    rw [hsp.2 hl.symm]
    exact ⟨s.flush, by simp [check, bind, Except.bind, pure, Except.pure], hf, rfl, rfl⟩
  | some old =>
    rw [hlk] at hl
    obtain ⟨h1, h2, h3, h5⟩ := hsp.1 old hl.symm
    refine ⟨s.flush.erase e, ?_, Sim.erase hf e h3 h5, rfl, rfl⟩
    simp [h1, h2, SpecW.sameComps_refl, check, bind, Except.bind, pure, Except.pure]

theorem accepts_flush (s : SpecW) (w : World) (hs : Sim s w) (hw : w.Inv) :
    ∃ s', apply s .flush (step w .flush).2.res (step w .flush).2.dropped = .ok s' ∧ Sim s' (step w .flush).1 ∧
      s'.issued = s.issued ∧ s'.targeted = s.targeted :=
  ⟨s.flush, by simp [apply, step, check, bind, Except.bind, pure, Except.pure], hs.flush hw, rfl, rfl⟩

theorem Sim.congr {s : SpecW} {w w' : World} (h : Sim s w) (hl : ∀ e, w'.lookup e = w.lookup e) : Sim s w' :=
  ⟨h.keys, fun e => by rw [hl]; exact h.look e⟩

theorem accepts_reserve (s : SpecW) (w : World) (hs : Sim s w) (hw : w.Inv) (ts : List Nat)
    (hop : (Op.reserve ts).WF) :
    ∃ s', apply s (.reserve ts) (step w (.reserve ts)).2.res (step w (.reserve ts)).2.dropped = .ok s' ∧
      Sim s' (step w (.reserve ts)).1 ∧
      s'.issued = s.issued ∧ s'.targeted = s.targeted :=
  ⟨s.flush, by simp [apply, step, check, bind, Except.bind, pure, Except.pure],
    (hs.flush hw).congr (fun e => World.reserve_lookup w ts ((World.inv_iff_good w).1 hw) hop e), rfl, rfl⟩

theorem accepts_takeDrop (s : SpecW) (w : World) (hs : Sim s w) (hw : w.Inv) (e : Entity) :
    ∃ s', apply s (.takeDrop e) (step w (.takeDrop e)).2.res (step w (.takeDrop e)).2.dropped = .ok s' ∧
      Sim s' (step w (.takeDrop e)).1 ∧
      s'.issued = s.issued ∧ s'.targeted = s.targeted := by
  have hf := hs.flush hw
  have hl := hf.look' e
  have hg := (World.inv_iff_good w).1 hw
  have hsp := World.take_spec w e hg
  simp only [apply, step]
  cases hlk : s.flush.lookup e with
  | none =>
    rw [hlk] at hl
    rw [hsp.2 hl.symm]
    exact ⟨s.flush, by simp [check, bind, Except.bind, pure, Except.pure], hf, rfl, rfl⟩
  | some old =>
    rw [hlk] at hl
    obtain ⟨h1, h3, h5⟩ := hsp.1 old hl.symm
    have hpair : w.take e = ((w.take e).1, some old) := by rw [← h1]
    rw [hpair]
    refine ⟨s.flush.erase e, ?_, Sim.erase hf e h3 h5, rfl, rfl⟩
    simp [SpecW.sameComps_refl, check, bind, Except.bind, pure, Except.pure]

/-! ### the operations that hand out handles: freshness -/

/-- what the abstract state records about handles handed out so far is true of the model world, and
stored generations are positive -/
structure Hist (s : SpecW) (w : World) : Prop where
  issued : World.IssuedOk s.targeted w s.issued
  gens : ∀ id, 1 ≤ w.genOf id

theorem Hist.step {s : SpecW} {w : World} (h : Hist s w) (hw : w.Inv) (op : Op) (hop : op.WF)
    (hr : ∀ id, op.resurrects id = false) :
    World.IssuedOk s.targeted (Hecs.step w op).1 (s.issued ++ (Hecs.step w op).2.res.handles_eff) ∧
    (∀ id, 1 ≤ (Hecs.step w op).1.genOf id) ∧
    (∀ e, e ∈ (Hecs.step w op).2.res.handles_eff → e.id ∉ s.targeted → e ∉ s.issued) := by
  obtain ⟨s1, s2⟩ := World.issued_step s.targeted w op s.issued hw hop
    (fun id hh => by rw [hr id] at hh; cases hh) h.issued
  exact ⟨s2, fun id => Nat.le_trans (h.gens id) (World.gen_step w op id (hr id)).2, s1⟩

theorem Hist.flush {s : SpecW} {w : World} (h : Hist s w) (hw : w.Inv) : Hist s.flush w.flush := by
  obtain ⟨a, b, _⟩ := h.step hw Op.flush trivial (fun _ => rfl)
  refine ⟨?_, b⟩
  have : (Hecs.step w Op.flush).2.res.handles_eff = [] := rfl
  rw [this, List.append_nil] at a
  exact a

theorem freshOk_of {s : SpecW} {w : World} (hs : Sim s w) (hh : Hist s w) (e : Entity)
    (hnone : ∀ g, w.lookup ⟨e.id, g⟩ = none) (hgen : e.gen = w.genOf e.id)
    (hni : e.id ∉ s.targeted → e ∉ s.issued) : s.freshOk e = true := by
  unfold SpecW.freshOk
  have key : ∀ x : Entity, x.id = e.id → s.flush.lookup x = none := by
    intro x hx
    rw [hs.look x]
    have : x = ⟨e.id, x.gen⟩ := by cases x; simp_all
    rw [this]; exact hnone _
  have h1 : s.idLive e.id = false := by
    unfold SpecW.idLive
    rw [Bool.eq_false_iff]
    intro hany
    rw [List.any_eq_true] at hany
    obtain ⟨p, hp, hpe⟩ := hany
    have hk : p.1 ∈ s.live.map (·.1) := List.mem_map.2 ⟨p, hp, rfl⟩
    have hl : s.lookup p.1 ≠ none := fun hn => (SpecW.lookup_eq_none_iff _ _).1 hn hk
    have := key p.1 (by simpa using hpe)
    rw [SpecW.lookup_flush] at this
    cases hq : s.lookup p.1 with
    | none => exact hl hq
    | some v => rw [hq] at this; cases this
  have h2 : s.reserved.any (fun x => x.id == e.id) = false := by
    rw [Bool.eq_false_iff]
    intro hany
    rw [List.any_eq_true] at hany
    obtain ⟨x, hx, hxe⟩ := hany
    have := key x (by simpa using hxe)
    rw [SpecW.lookup_flush] at this
    cases hq : s.lookup x with
    | none => rw [hq] at this; simp [hx] at this
    | some v => rw [hq] at this; cases this
  have h3 : (!s.issued.contains e || s.targeted.contains e.id) = true := by
    by_cases ht : e.id ∈ s.targeted
    · simp [ht]
    · have := hni ht; simp [this]
  have h4 : decide (e.gen ≥ 1) = true := by
    rw [decide_eq_true_iff, hgen]; exact hh.gens e.id
  simp only [h1, h2, h3, h4, Bool.not_false, Bool.and_self]

theorem spawnMany_one (s : SpecW) (e : Entity) (b : List Comp) (h : s.freshOk e = true) :
    spawnMany s [e] [b] = .ok { s with live := s.live ++ [(e, canon b)], issued := e :: s.issued } := by
  simp [spawnMany, h, check, bind, Except.bind]

/-- adding one fresh live entity to a flushed abstract state -/
theorem Sim.add {s : SpecW} {w w' : World} (hf : Sim s.flush w) (e : Entity) (cs : List Comp)
    (hnew : s.flush.lookup e = none) (hl : w'.lookup e = some cs)
    (hframe : ∀ x, x ≠ e → w'.lookup x = w.lookup x) (iss : List Entity) :
    Sim { s.flush with live := s.flush.live ++ [(e, cs)], issued := iss } w' := by
  have hr : ({ s.flush with live := s.flush.live ++ [(e, cs)], issued := iss } : SpecW).reserved = [] := rfl
  refine ⟨?_, ?_⟩
  · rw [hr, List.append_nil]
    simp only [List.map_append, List.map_cons, List.map_nil]
    have hk := hf.keys; rw [SpecW.flush_reserved, List.append_nil] at hk
    rw [List.nodup_append]
    refine ⟨hk, by simp, ?_⟩
    intro a ha b hb hab
    simp only [List.mem_singleton] at hb
    subst hb; subst hab
    exact (SpecW.lookup_eq_none_iff _ _).1 hnew ha
  · intro x
    rw [SpecW.flush_of_nil _ hr]
    have := SpecW.lookup_append { s.flush with issued := iss } [(e, cs)] x
    have e1 : ({ s.flush with issued := iss } : SpecW).lookup x = s.flush.lookup x := rfl
    rw [e1] at this
    show SpecW.lookup { s.flush with live := s.flush.live ++ [(e, cs)], issued := iss } x = _
    rw [show ({ s.flush with live := s.flush.live ++ [(e, cs)], issued := iss } : SpecW)
          = { ({ s.flush with issued := iss } : SpecW) with live := ({ s.flush with issued := iss } : SpecW).live ++ [(e, cs)] } from rfl,
      this]
    by_cases hx : x = e
    · subst hx; rw [hnew, hl]; simp
    · rw [hframe x hx, ← hf.look' x]
      cases s.flush.lookup x with
      | some v => rfl
      | none =>
        have : (e == x) = false := by simp; exact fun h => hx h.symm
        simp [this]

theorem accepts_spawn (s : SpecW) (w : World) (hs : Sim s w) (hh : Hist s w) (hw : w.Inv) (b : List Comp)
    (hop : (Op.spawn b).WF) :
    ∃ s', apply s (.spawn b) (Hecs.step w (.spawn b)).2.res (Hecs.step w (.spawn b)).2.dropped = .ok s' ∧
      Sim s' (Hecs.step w (.spawn b)).1 ∧ Hist s' (Hecs.step w (.spawn b)).1 := by
  have hf := hs.flush hw
  have hhf := hh.flush hw
  have hg := (World.inv_iff_good w).1 hw
  obtain ⟨e', r1, r2, r3, r4, r5⟩ := World.spawn_spec w b hg hop
  obtain ⟨f1, f2⟩ := World.handles_fresh w (.spawn b) hw hop
  have hmem : e' ∈ (Hecs.step w (.spawn b)).2.res.handles_eff := by
    show e' ∈ (w.spawn b).2.res.handles_eff; rw [r1]; simp [Res.handles_eff]
  obtain ⟨_, _, g3⟩ := f2 e' hmem
  obtain ⟨i1, i2, i3⟩ := hh.step hw (.spawn b) hop (fun _ => rfl)
  have hfresh : s.flush.freshOk e' = true :=
    freshOk_of hf hhf e' r3 (by rw [g3]; exact ((World.flush_keeps w).gen e'.id).symm ▸ rfl) (i3 e' hmem)
  simp only [apply, Hecs.step]
  rw [r1, r2]
  refine ⟨{ s.flush with live := s.flush.live ++ [(e', canon b)], issued := e' :: s.flush.issued }, ?_, ?_, ?_⟩
  · simp [spawnMany_one _ _ _ hfresh, check, bind, Except.bind]
  · exact Sim.add hf e' (canon b) (by rw [hf.look' e']; exact r3 e'.gen) r4 r5 _
  · refine ⟨?_, i2⟩
    intro e he hid
    have hm : (Hecs.step w (.spawn b)).2.res.handles_eff = [e'] := by
      show (w.spawn b).2.res.handles_eff = _; rw [r1]; rfl
    rw [hm] at i1
    apply i1 e _ hid
    rcases List.mem_cons.1 he with rfl | he
    · simp
    · exact List.mem_append_left _ he

end Spec

namespace World

/-- the id a reservation hands out names no entity at all, under any generation -/
theorem reserveEntity_id_free (w : World) (hw : w.Inv) (g : Nat) :
    w.lookup ⟨(w.reserveEntity).2.id, g⟩ = none := by
  have hg := (inv_iff_good w).1 hw
  obtain ⟨r1, _, _, r4, r5⟩ := reserveEntity_spec w hg
  have hw' : (w.reserveEntity).1.Inv := inv_step w .reserveEntity trivial hw
  cases hl : w.lookup ⟨(w.reserveEntity).2.id, g⟩ with
  | none => rfl
  | some cs =>
    exfalso
    have hne : (⟨(w.reserveEntity).2.id, g⟩ : Entity) ≠ (w.reserveEntity).2 := by
      intro h; rw [h, r1] at hl; cases hl
    have hc : (w.reserveEntity).1.contains ⟨(w.reserveEntity).2.id, g⟩ = true := by
      rw [contains_eq_lookup' _ hw', r5 _ hne, hl]; rfl
    exact hne (contains_unique _ _ _ r4 hc rfl)

end World

namespace Spec

theorem accepts_reserveEntity (s : SpecW) (w : World) (hs : Sim s w) (hh : Hist s w) (hw : w.Inv) :
    ∃ s', apply s .reserveEntity (Hecs.step w .reserveEntity).2.res (Hecs.step w .reserveEntity).2.dropped = .ok s' ∧
      Sim s' (Hecs.step w .reserveEntity).1 ∧ Hist s' (Hecs.step w .reserveEntity).1 := by
  have hg := (World.inv_iff_good w).1 hw
  obtain ⟨r1, r2, _, r4, r5⟩ := World.reserveEntity_spec w hg
  obtain ⟨_, f2⟩ := World.handles_fresh w .reserveEntity hw trivial
  have hmem : (w.reserveEntity).2 ∈ (Hecs.step w .reserveEntity).2.res.handles_eff := by
    simp [Hecs.step, Res.handles_eff]
  obtain ⟨_, _, g3⟩ := f2 _ hmem
  obtain ⟨i1, i2, i3⟩ := hh.step hw .reserveEntity trivial (fun _ => rfl)
  have hfresh : s.freshOk (w.reserveEntity).2 = true :=
    freshOk_of hs hh _ (World.reserveEntity_id_free w hw) g3 (i3 _ hmem)
  have hnone : s.flush.lookup (w.reserveEntity).2 = none := by rw [hs.look, r1]
  have hnl : s.lookup (w.reserveEntity).2 = none ∧ (w.reserveEntity).2 ∉ s.reserved := by
    rw [SpecW.lookup_flush] at hnone
    cases hq : s.lookup (w.reserveEntity).2 with
    | some v => rw [hq] at hnone; cases hnone
    | none =>
      rw [hq] at hnone
      refine ⟨rfl, fun hm => ?_⟩
      simp [hm] at hnone
  refine ⟨{ s with reserved := s.reserved ++ [(w.reserveEntity).2], issued := (w.reserveEntity).2 :: s.issued }, ?_, ?_, ?_⟩
  · simp [apply, Hecs.step, hfresh, check, bind, Except.bind, pure, Except.pure]
  · refine ⟨?_, ?_⟩
    · show (s.live.map (·.1) ++ (s.reserved ++ [(w.reserveEntity).2])).Nodup
      rw [← List.append_assoc, List.nodup_append]
      refine ⟨hs.keys, by simp, ?_⟩
      intro a ha b hb hab
      simp only [List.mem_singleton] at hb
      subst hb; subst hab
      rcases List.mem_append.1 ha with ha | ha
      · exact (SpecW.lookup_eq_none_iff _ _).1 hnl.1 ha
      · exact hnl.2 ha
    · intro x
      show (SpecW.flush { s with reserved := s.reserved ++ [(w.reserveEntity).2], issued := (w.reserveEntity).2 :: s.issued }).lookup x
        = (w.reserveEntity).1.lookup x
      rw [SpecW.lookup_flush]
      show (match s.lookup x with
        | some cs => some cs
        | none => if x ∈ s.reserved ++ [(w.reserveEntity).2] then some [] else none) = _
      by_cases hx : x = (w.reserveEntity).2
      · subst hx; rw [hnl.1, r2]; simp
      · rw [r5 x hx, ← hs.look x, SpecW.lookup_flush]
        cases s.lookup x with
        | some v => rfl
        | none => simp [hx]
  · refine ⟨?_, i2⟩
    intro e he hid
    have hm : (Hecs.step w .reserveEntity).2.res.handles_eff = [(w.reserveEntity).2] := by
      simp [Hecs.step, Res.handles_eff]
    rw [hm] at i1
    apply i1 e _ hid
    rcases List.mem_cons.1 he with rfl | he
    · simp
    · exact List.mem_append_left _ he

theorem Hist.keep {s s' : SpecW} {w : World} (h : Hist s w) (hw : w.Inv) (op : Op) (hop : op.WF)
    (hr : ∀ id, op.resurrects id = false) (hnh : (Hecs.step w op).2.res.handles_eff = [])
    (hi : s'.issued = s.issued) (ht : s'.targeted = s.targeted) : Hist s' (Hecs.step w op).1 := by
  obtain ⟨a, b, _⟩ := h.step hw op hop hr
  rw [hnh, List.append_nil] at a
  exact ⟨by rw [hi, ht]; exact a, b⟩

/-- the relation between the abstract specification state and the model world: same answer for every
handle, and the recorded history of handed-out handles is true of the world -/
def Rel (s : SpecW) (w : World) : Prop := Sim s w ∧ Hist s w

theorem rel_new : Rel {} World.new := by
  refine ⟨⟨by simp, ?_⟩, ⟨?_, ?_⟩⟩
  · intro e
    have h1 : (SpecW.flush {}).lookup e = none := by simp [SpecW.flush, SpecW.lookup]
    rw [h1]
    simp [World.lookup, World.get, World.new]
  · intro e h; cases h
  · intro id; simp [World.genOf, World.new]


theorem freshOk_after (s : SpecW) (e e' : Entity) (cs : List Comp) (hid : e.id ≠ e'.id)
    (h : s.freshOk e' = true) :
    ({ s with live := s.live ++ [(e, cs)], issued := e :: s.issued } : SpecW).freshOk e' = true := by
  have hne : e' ≠ e := fun hh => hid (by rw [hh])
  unfold SpecW.freshOk SpecW.idLive at h ⊢
  simp only [List.any_append, List.any_cons, List.any_nil, Bool.or_false] at h ⊢
  have h1 : (e.id == e'.id) = false := by simp [hid]
  have h2 : (e' == e) = false := by simp [hne]
  simp only [h1, Bool.or_false, List.contains_cons, h2, Bool.false_or]
  exact h

theorem spawnMany_ok (s : SpecW) (es : List Entity) (rows : List (List Comp)) (hlen : es.length = rows.length)
    (hids : (es.map (·.id)).Nodup) (hfresh : ∀ e, e ∈ es → s.freshOk e = true) :
    spawnMany s es rows = .ok { s with live := s.live ++ (es.zip rows).map (fun p => (p.1, canon p.2)),
                                       issued := es.reverse ++ s.issued } := by
  induction es generalizing s rows with
  | nil =>
    cases rows with
    | nil => simp [spawnMany]
    | cons _ _ => simp at hlen
  | cons e es ih =>
    cases rows with
    | nil => simp at hlen
    | cons b bs =>
      simp only [List.map_cons, List.nodup_cons] at hids
      have h0 := hfresh e (by simp)
      simp only [spawnMany, h0, check, bind, Except.bind, if_true]
      rw [ih _ bs (by simpa using hlen) hids.2]
      · simp [List.append_assoc]
      · intro e' he'
        apply freshOk_after
        · intro hh; exact hids.1 (List.mem_map.2 ⟨e', he', hh.symm⟩)
        · exact hfresh e' (by simp [he'])

/-- adding several fresh live entities to a flushed abstract state -/
theorem Sim.addMany {s : SpecW} {w w' : World} (hf : Sim s.flush w) (l : List (Entity × List Comp))
    (hnd : (l.map (·.1)).Nodup) (hnew : ∀ p, p ∈ l → s.flush.lookup p.1 = none)
    (hl : ∀ p, p ∈ l → w'.lookup p.1 = some p.2)
    (hframe : ∀ x, x ∉ l.map (·.1) → w'.lookup x = w.lookup x) (iss : List Entity) :
    Sim { s.flush with live := s.flush.live ++ l, issued := iss } w' := by
  have hr : ({ s.flush with live := s.flush.live ++ l, issued := iss } : SpecW).reserved = [] := rfl
  refine ⟨?_, ?_⟩
  · rw [hr, List.append_nil]
    simp only [List.map_append]
    have hk := hf.keys; rw [SpecW.flush_reserved, List.append_nil] at hk
    rw [List.nodup_append]
    refine ⟨hk, hnd, ?_⟩
    intro a ha b hb hab
    subst hab
    obtain ⟨p, hp, rfl⟩ := List.mem_map.1 hb
    exact (SpecW.lookup_eq_none_iff _ _).1 (hnew p hp) ha
  · intro x
    rw [SpecW.flush_of_nil _ hr]
    have := SpecW.lookup_append { s.flush with issued := iss } l x
    have e1 : ({ s.flush with issued := iss } : SpecW).lookup x = s.flush.lookup x := rfl
    rw [e1] at this
    show SpecW.lookup { s.flush with live := s.flush.live ++ l, issued := iss } x = _
    rw [show ({ s.flush with live := s.flush.live ++ l, issued := iss } : SpecW)
          = { ({ s.flush with issued := iss } : SpecW) with live := ({ s.flush with issued := iss } : SpecW).live ++ l } from rfl,
      this]
    cases hq : s.flush.lookup x with
    | some v =>
      have hx : x ∉ l.map (·.1) := by
        intro hm
        obtain ⟨p, hp, rfl⟩ := List.mem_map.1 hm
        rw [hnew p hp] at hq; cases hq
      rw [hframe x hx, ← hf.look' x, hq]
    | none =>
      cases hfind : l.find? (·.1 == x) with
      | none =>
        have hx : x ∉ l.map (·.1) := by
          intro hm
          obtain ⟨p, hp, rfl⟩ := List.mem_map.1 hm
          have := List.find?_eq_none.1 hfind p hp
          simp at this
        rw [hframe x hx, ← hf.look' x, hq]; rfl
      | some p =>
        have hp := List.mem_of_find?_eq_some hfind
        have hpx : p.1 = x := by simpa using List.find?_some hfind
        rw [← hpx, hl p hp]; rfl

theorem ids_nodup_of_contained (w : World) (es : List Entity) (hnd : es.Nodup)
    (hc : ∀ e, e ∈ es → w.contains e = true) : (es.map (·.id)).Nodup := by
  rw [List.Nodup, List.pairwise_map]
  have hnd' : es.Pairwise (fun a b => a ≠ b) := hnd
  refine hnd'.imp_of_mem ?_
  intro a b ha hb hab hid
  exact hab (World.contains_unique w b a (hc b hb) (hc a ha) hid)

/-- the two batch spawns, from the facts their specifications give -/
theorem accepts_batch_core (s : SpecW) (w : World) (hs : Sim s w) (hh : Hist s w) (hw : w.Inv) (op : Op)
    (hop : op.WF) (hr : ∀ id, op.resurrects id = false) (rows : List (List Comp)) (es : List Entity)
    (hres : (Hecs.step w op).2.res = .ents es) (hlen : es.length = rows.length)
    (hlook : ∀ p, p ∈ es.zip rows → (Hecs.step w op).1.lookup p.1 = some (canon p.2))
    (hnone : ∀ e g, e ∈ es → w.flush.lookup ⟨e.id, g⟩ = none)
    (hframe : ∀ e, e ∉ es → (Hecs.step w op).1.lookup e = w.flush.lookup e) :
    ∃ s', spawnMany s.flush es rows = .ok s' ∧ Sim s' (Hecs.step w op).1 ∧ Hist s' (Hecs.step w op).1 := by
  have hf := hs.flush hw
  have hhf := hh.flush hw
  obtain ⟨f1, f2⟩ := World.handles_fresh w op hw hop
  have hH : (Hecs.step w op).2.res.handles_eff = es := by rw [hres]; rfl
  rw [hH] at f1 f2
  obtain ⟨i1, i2, i3⟩ := hh.step hw op hop hr
  rw [hH] at i1 i3
  have hids := ids_nodup_of_contained _ es f1 (fun e he => (f2 e he).2.1)
  have hfresh : ∀ e, e ∈ es → s.flush.freshOk e = true := by
    intro e he
    refine freshOk_of hf hhf e (hnone e · he) ?_ (i3 e he)
    rw [(f2 e he).2.2]; exact (((World.flush_keeps w).gen e.id).symm ▸ rfl)
  refine ⟨_, spawnMany_ok s.flush es rows hlen hids hfresh, ?_, ?_⟩
  · apply Sim.addMany hf
    · rw [List.map_map]
      have : ((fun p : Entity × List Comp => p.1) ∘ fun p : Entity × List Comp => (p.1, canon p.2)) = Prod.fst := rfl
      rw [this, List.map_fst_zip (Nat.le_of_eq hlen)]; exact f1
    · intro p hp
      obtain ⟨q, hq, rfl⟩ := List.mem_map.1 hp
      have he := (List.of_mem_zip hq).1
      rw [hf.look' q.1]; exact hnone q.1 q.1.gen he
    · intro p hp
      obtain ⟨q, hq, rfl⟩ := List.mem_map.1 hp
      exact hlook q hq
    · intro x hx
      apply hframe
      intro hm
      apply hx
      rw [List.map_map]
      have : ((fun p : Entity × List Comp => p.1) ∘ fun p : Entity × List Comp => (p.1, canon p.2)) = Prod.fst := rfl
      rw [this, List.map_fst_zip (Nat.le_of_eq hlen)]; exact hm
  · refine ⟨?_, i2⟩
    intro e he hid
    apply i1 e _ hid
    rcases List.mem_append.1 he with he | he
    · exact List.mem_append_right _ (List.mem_reverse.1 he)
    · exact List.mem_append_left _ he

theorem accepts_spawnBatch (s : SpecW) (w : World) (hs : Sim s w) (hh : Hist s w) (hw : w.Inv)
    (ts : List Nat) (rows : List (List Comp)) (hop : (Op.spawnBatch ts rows).WF) :
    ∃ s', apply s (.spawnBatch ts rows) (Hecs.step w (.spawnBatch ts rows)).2.res
        (Hecs.step w (.spawnBatch ts rows)).2.dropped = .ok s' ∧
      Sim s' (Hecs.step w (.spawnBatch ts rows)).1 ∧ Hist s' (Hecs.step w (.spawnBatch ts rows)).1 := by
  have hg := (World.inv_iff_good w).1 hw
  obtain ⟨es, r1, r2, r3, r4, r5, r6, _⟩ := World.spawnBatch_spec' w ts rows hg hop.1 hop.2
  obtain ⟨s', a, b, c⟩ := accepts_batch_core s w hs hh hw (.spawnBatch ts rows) hop (fun _ => rfl) rows es
    r1 r3 r4 r5 r6
  refine ⟨s', ?_, b, c⟩
  have e1 : (Hecs.step w (.spawnBatch ts rows)).2.res = .ents es := r1
  have e2 : (Hecs.step w (.spawnBatch ts rows)).2.dropped = [] := r2
  simp only [apply, e1, e2]
  simp [a, check, bind, Except.bind]

theorem accepts_spawnColumnBatch (s : SpecW) (w : World) (hs : Sim s w) (hh : Hist s w) (hw : w.Inv)
    (ts : List Nat) (rows : List (List Comp)) (hop : (Op.spawnColumnBatch ts rows).WF) :
    ∃ s', apply s (.spawnColumnBatch ts rows) (Hecs.step w (.spawnColumnBatch ts rows)).2.res
        (Hecs.step w (.spawnColumnBatch ts rows)).2.dropped = .ok s' ∧
      Sim s' (Hecs.step w (.spawnColumnBatch ts rows)).1 ∧ Hist s' (Hecs.step w (.spawnColumnBatch ts rows)).1 := by
  have hg := (World.inv_iff_good w).1 hw
  obtain ⟨es, r1, r2, r3, r4, r5, r6, _⟩ := World.spawnColumnBatch_spec' w ts rows hg hop.1 hop.2
  have hcanon : ∀ p, p ∈ es.zip rows → canon p.2 = p.2 := by
    intro p hp
    have hrow := hop.2 p.2 (List.of_mem_zip hp).2
    apply CmdBufLemmas.canon_of_sorted
    have hp2 : (p.2.map (·.1)).Pairwise (· < ·) := by rw [hrow]; exact (strictSorted_iff ts).1 hop.1
    rw [List.pairwise_map] at hp2
    exact hp2.imp (fun h => Nat.le_of_lt h)
  obtain ⟨s', a, b, c⟩ := accepts_batch_core s w hs hh hw (.spawnColumnBatch ts rows) hop (fun _ => rfl) rows es
    r1 r3 (fun p hp => by rw [hcanon p hp]; exact r4 p hp) r5 r6
  refine ⟨s', ?_, b, c⟩
  have e1 : (Hecs.step w (.spawnColumnBatch ts rows)).2.res = .ents es := r1
  have e2 : (Hecs.step w (.spawnColumnBatch ts rows)).2.dropped = [] := r2
  simp only [apply, e1, e2]
  simp [a, check, bind, Except.bind]

end Spec

namespace World

theorem reserveEntities_id_free (w : World) (n : Nat) (hw : w.Inv) (e : Entity)
    (he : e ∈ (w.reserveEntities n).2) (g : Nat) : w.lookup ⟨e.id, g⟩ = none := by
  have hg := (inv_iff_good w).1 hw
  obtain ⟨r1, r5⟩ := reserveEntities_spec w n hg
  obtain ⟨q1, _, _, q4⟩ := r1 e he
  have hw' : (w.reserveEntities n).1.Inv := inv_step w (.reserveEntities n) trivial hw
  cases hl : w.lookup ⟨e.id, g⟩ with
  | none => rfl
  | some cs =>
    exfalso
    have hnm : (⟨e.id, g⟩ : Entity) ∉ (w.reserveEntities n).2 := by
      intro hm; rw [(r1 _ hm).1] at hl; cases hl
    have hne : (⟨e.id, g⟩ : Entity) ≠ e := fun h => hnm (h ▸ he)
    have hc : (w.reserveEntities n).1.contains ⟨e.id, g⟩ = true := by
      rw [contains_eq_lookup' _ hw', r5 _ hnm, hl]; rfl
    exact hne (contains_unique _ _ _ q4 hc rfl)

end World

namespace Spec

theorem freshOk_after_reserve (s : SpecW) (e e' : Entity) (hid : e.id ≠ e'.id) (h : s.freshOk e' = true) :
    ({ s with reserved := s.reserved ++ [e], issued := e :: s.issued } : SpecW).freshOk e' = true := by
  have hne : e' ≠ e := fun hh => hid (by rw [hh])
  unfold SpecW.freshOk SpecW.idLive at h ⊢
  simp only [List.any_append, List.any_cons, List.any_nil, Bool.or_false] at h ⊢
  have h1 : (e.id == e'.id) = false := by simp [hid]
  have h2 : (e' == e) = false := by simp [hne]
  simp only [h1, Bool.or_false, List.contains_cons, h2, Bool.false_or]
  exact h

theorem reserveMany_ok (s : SpecW) (es : List Entity) (hids : (es.map (·.id)).Nodup)
    (hfresh : ∀ e, e ∈ es → s.freshOk e = true) :
    es.foldlM (fun s e => do
        check (s.freshOk e) s!"reserved handle {e.id}v{e.gen} is not fresh"
        pure ({ s with reserved := s.reserved ++ [e], issued := e :: s.issued } : SpecW)) s
      = .ok { s with reserved := s.reserved ++ es, issued := es.reverse ++ s.issued } := by
  induction es generalizing s with
  | nil => simp [pure, Except.pure]
  | cons e es ih =>
    simp only [List.map_cons, List.nodup_cons] at hids
    have h0 := hfresh e (by simp)
    simp only [List.foldlM_cons, h0, check, bind, Except.bind, if_true, pure, Except.pure]
    have := ih { s with reserved := s.reserved ++ [e], issued := e :: s.issued } hids.2 (by
      intro e' he'
      apply freshOk_after_reserve
      · intro hh; exact hids.1 (List.mem_map.2 ⟨e', he', hh.symm⟩)
      · exact hfresh e' (by simp [he']))
    simp only [bind, Except.bind, pure, Except.pure, check] at this
    rw [this]
    simp [List.append_assoc]

theorem accepts_reserveEntities (s : SpecW) (w : World) (hs : Sim s w) (hh : Hist s w) (hw : w.Inv) (n : Nat) :
    ∃ s', apply s (.reserveEntities n) (Hecs.step w (.reserveEntities n)).2.res
        (Hecs.step w (.reserveEntities n)).2.dropped = .ok s' ∧
      Sim s' (Hecs.step w (.reserveEntities n)).1 ∧ Hist s' (Hecs.step w (.reserveEntities n)).1 := by
  have hg := (World.inv_iff_good w).1 hw
  obtain ⟨r1, r5⟩ := World.reserveEntities_spec w n hg
  have hlen := World.reserveEntities_length w n hg
  obtain ⟨f1, f2⟩ := World.handles_fresh w (.reserveEntities n) hw trivial
  have hH : (Hecs.step w (.reserveEntities n)).2.res.handles_eff = (w.reserveEntities n).2 := by
    simp [Hecs.step, Res.handles_eff]
  rw [hH] at f1 f2
  obtain ⟨i1, i2, i3⟩ := hh.step hw (.reserveEntities n) trivial (fun _ => rfl)
  rw [hH] at i1 i3
  generalize hes : (w.reserveEntities n).2 = es at *
  have hids := ids_nodup_of_contained _ es f1 (fun e he => (f2 e he).2.1)
  have hfresh : ∀ e, e ∈ es → s.freshOk e = true := by
    intro e he
    exact freshOk_of hs hh e (fun g => World.reserveEntities_id_free w n hw e (hes ▸ he) g) (f2 e he).2.2 (i3 e he)
  have hnl : ∀ e, e ∈ es → s.lookup e = none ∧ e ∉ s.reserved := by
    intro e he
    have hnone : s.flush.lookup e = none := by rw [hs.look, (r1 e he).1]
    rw [SpecW.lookup_flush] at hnone
    cases hq : s.lookup e with
    | some v => rw [hq] at hnone; cases hnone
    | none =>
      rw [hq] at hnone
      refine ⟨rfl, fun hm => ?_⟩
      simp [hm] at hnone
  refine ⟨{ s with reserved := s.reserved ++ es, issued := es.reverse ++ s.issued }, ?_, ?_, ?_⟩
  · have e1 : (Hecs.step w (.reserveEntities n)).2.res = .ents es := by simp [Hecs.step, hes]
    have e2 : (Hecs.step w (.reserveEntities n)).2.dropped = [] := rfl
    simp only [apply, e1, e2]
    have := reserveMany_ok s es hids hfresh
    have e3 : (es.length == n && ([] : List Comp) == []) = true := by simp [hlen]
    rw [e3]
    simp only [bind, Except.bind, check, pure, Except.pure, if_true] at this ⊢
    exact this
  · refine ⟨?_, ?_⟩
    · show (s.live.map (·.1) ++ (s.reserved ++ es)).Nodup
      rw [← List.append_assoc, List.nodup_append]
      refine ⟨hs.keys, f1, ?_⟩
      intro a ha b hb hab
      subst hab
      rcases List.mem_append.1 ha with ha | ha
      · exact (SpecW.lookup_eq_none_iff _ _).1 (hnl a hb).1 ha
      · exact (hnl a hb).2 ha
    · intro x
      show (SpecW.flush { s with reserved := s.reserved ++ es, issued := es.reverse ++ s.issued }).lookup x
        = (w.reserveEntities n).1.lookup x
      rw [SpecW.lookup_flush]
      show (match s.lookup x with
        | some cs => some cs
        | none => if x ∈ s.reserved ++ es then some [] else none) = _
      by_cases hx : x ∈ es
      · rw [(hnl x hx).1, (r1 x hx).2.1]; simp [hx]
      · rw [r5 x hx, ← hs.look x, SpecW.lookup_flush]
        cases s.lookup x with
        | some v => rfl
        | none => simp [hx]
  · refine ⟨?_, i2⟩
    intro e he hid
    apply i1 e _ hid
    rcases List.mem_append.1 he with he | he
    · exact List.mem_append_right _ (List.mem_reverse.1 he)
    · exact List.mem_append_left _ he

theorem filter_single (l : List (Entity × List Comp)) (hk : (l.map (·.1)).Nodup) (x : Entity) (p : Entity → Bool)
    (hp : ∀ q, q ∈ l → p q.1 = true → q.1 = x) (hpx : p x = true) :
    l.filter (fun q => p q.1) = match l.find? (·.1 == x) with | some q => [q] | none => [] := by
  induction l with
  | nil => rfl
  | cons a as ih =>
    simp only [List.map_cons, List.nodup_cons] at hk
    have ih' := ih hk.2 (fun q hq => hp q (by simp [hq]))
    by_cases ha : a.1 = x
    · have h1 : p a.1 = true := by rw [ha]; exact hpx
      have h2 : (a.1 == x) = true := by simp [ha]
      have h3 : as.filter (fun q => p q.1) = [] := by
        rw [List.filter_eq_nil_iff]
        intro q hq hpq
        have := hp q (by simp [hq]) hpq
        exact hk.1 (List.mem_map.2 ⟨q, hq, by rw [this, ha]⟩)
      simp [h1, h2, h3]
    · have h1 : p a.1 = false := by
        cases hh : p a.1 with
        | false => rfl
        | true => exact absurd (hp a (by simp) hh) ha
      have h2 : (a.1 == x) = false := by simp [ha]
      simp [h1, h2, ih']

theorem lookup_eraseId (s : SpecW) (k : Nat) (e : Entity) :
    (s.eraseId k).lookup e = if e.id = k then none else s.lookup e := by
  unfold SpecW.eraseId SpecW.lookup
  simp only
  induction s.live with
  | nil => simp
  | cons p ps ih => grind

/-- handles named by the id-targeted spawns carry a positive generation (they are `NonZeroU32` in hecs) -/
def _root_.Hecs.Op.gensOk : Op → Prop
  | .spawnAt h _ => 1 ≤ h.gen
  | .spawnColumnBatchAt hs _ _ => ∀ h, h ∈ hs → 1 ≤ h.gen
  | _ => True

theorem issuedOk_mono {R R' : List Nat} {w : World} {I : List Entity} (h : World.IssuedOk R w I)
    (hsub : ∀ x, x ∈ R → x ∈ R') : World.IssuedOk R' w I :=
  fun e he hid => h e he (fun hm => hid (hsub _ hm))

theorem accepts_spawnAt (s : SpecW) (w : World) (hs : Sim s w) (hh : Hist s w) (hw : w.Inv) (h : Entity)
    (b : List Comp) (hop : (Op.spawnAt h b).WF) (hgen : 1 ≤ h.gen) :
    ∃ s', apply s (.spawnAt h b) (Hecs.step w (.spawnAt h b)).2.res (Hecs.step w (.spawnAt h b)).2.dropped = .ok s' ∧
      Sim s' (Hecs.step w (.spawnAt h b)).1 ∧ Hist s' (Hecs.step w (.spawnAt h b)).1 := by
  have hf := hs.flush hw
  have hg := (World.inv_iff_good w).1 hw
  have hwf : w.flush.Inv := World.inv_step w .flush trivial hw
  have hw' : (w.spawnAt h b).1.Inv := World.inv_step w (.spawnAt h b) hop hw
  obtain ⟨r1, r2, r3, r4, r5, r6⟩ := World.spawnAt_spec w h b hg hop
  have hk := hf.keys; rw [SpecW.flush_reserved, List.append_nil] at hk
  -- the evicted components, as the abstract state computes them, are what the model dropped
  have hev : (s.flush.live.filter (fun q => q.1.id == h.id)).flatMap (·.2) = (w.spawnAt h b).2.dropped := by
    by_cases hex : ∃ g cs, w.flush.lookup ⟨h.id, g⟩ = some cs
    · obtain ⟨g, cs, hl⟩ := hex
      have hcx : w.flush.contains ⟨h.id, g⟩ = true := by rw [World.contains_eq_lookup' _ hwf, hl]; rfl
      have hsingle := filter_single s.flush.live hk ⟨h.id, g⟩ (fun e => e.id == h.id)
        (by
          intro q hq hpq
          have hid : q.1.id = h.id := by simpa using hpq
          have hkq : q.1 ∈ s.flush.live.map (·.1) := List.mem_map.2 ⟨q, hq, rfl⟩
          have hl2 : s.flush.lookup q.1 ≠ none := fun hn => (SpecW.lookup_eq_none_iff _ _).1 hn hkq
          rw [hf.look' q.1] at hl2
          have hcq : w.flush.contains q.1 = true := by
            rw [World.contains_eq_lookup' _ hwf]
            cases hq2 : w.flush.lookup q.1 with
            | none => exact absurd hq2 hl2
            | some _ => rfl
          exact World.contains_unique _ _ _ hcx hcq hid)
        (by simp)
      have hfind : s.flush.live.find? (·.1 == (⟨h.id, g⟩ : Entity)) = some (⟨h.id, g⟩, cs) ∨
          ∃ q, s.flush.live.find? (·.1 == (⟨h.id, g⟩ : Entity)) = some q ∧ q.2 = cs := by
        have hlk : s.flush.lookup ⟨h.id, g⟩ = some cs := by rw [hf.look']; exact hl
        unfold SpecW.lookup at hlk
        cases hq : s.flush.live.find? (·.1 == (⟨h.id, g⟩ : Entity)) with
        | none => rw [hq] at hlk; cases hlk
        | some q => right; rw [hq] at hlk; exact ⟨q, rfl, by simpa using hlk⟩
      rw [hsingle, r5 g cs hl]
      rcases hfind with hq | ⟨q, hq, hq2⟩
      · rw [hq]; simp
      · rw [hq]; simp [hq2]
    · have hnone : ∀ g, w.flush.lookup ⟨h.id, g⟩ = none := by
        intro g
        cases hq : w.flush.lookup ⟨h.id, g⟩ with
        | none => rfl
        | some cs => exact absurd ⟨g, cs, hq⟩ hex
      rw [r6 hnone]
      have : s.flush.live.filter (fun q => q.1.id == h.id) = [] := by
        rw [List.filter_eq_nil_iff]
        intro q hq hpq
        have hid : q.1.id = h.id := by simpa using hpq
        have hkq : q.1 ∈ s.flush.live.map (·.1) := List.mem_map.2 ⟨q, hq, rfl⟩
        have hl2 : s.flush.lookup q.1 ≠ none := fun hn => (SpecW.lookup_eq_none_iff _ _).1 hn hkq
        rw [hf.look' q.1] at hl2
        have : q.1 = ⟨h.id, q.1.gen⟩ := by cases hq3 : q.1; simp_all
        rw [this] at hl2
        exact hl2 (hnone _)
      rw [this]; rfl
  let s1 := s.flush.eraseId h.id
  let s' : SpecW := { s1 with live := s1.live ++ [(h, canon b)], targeted := h.id :: s1.targeted }
  have hr' : s'.reserved = [] := rfl
  refine ⟨s', ?_, ⟨?_, ?_⟩, ⟨?_, ?_⟩⟩
  · have e1 : (Hecs.step w (.spawnAt h b)).2.res = .ok := r1
    simp only [apply, e1]
    simp only [spawnAtOne]
    have : sameComps ((s.flush.live.filter (fun q => q.1.id == h.id)).flatMap (·.2))
        (Hecs.step w (.spawnAt h b)).2.dropped = true := by
      show sameComps _ (w.spawnAt h b).2.dropped = true
      rw [hev]; exact SpecW.sameComps_refl _
    simp [this, check, bind, Except.bind, pure, Except.pure, s', s1]
  · -- keys
    rw [hr', List.append_nil]
    show ((s1.live ++ [(h, canon b)]).map (·.1)).Nodup
    simp only [List.map_append, List.map_cons, List.map_nil]
    rw [List.nodup_append]
    refine ⟨hk.sublist (List.Sublist.map _ List.filter_sublist), by simp, ?_⟩
    intro a ha c hc hac
    simp only [List.mem_singleton] at hc
    subst hc; subst hac
    obtain ⟨q, hq, rfl⟩ := List.mem_map.1 ha
    have := (List.mem_filter.1 hq).2
    simp at this
  · intro x
    rw [SpecW.flush_of_nil _ hr']
    have hap := SpecW.lookup_append { s1 with targeted := h.id :: s1.targeted } [(h, canon b)] x
    have e1 : ({ s1 with targeted := h.id :: s1.targeted } : SpecW).lookup x = s1.lookup x := rfl
    rw [e1, lookup_eraseId] at hap
    show SpecW.lookup s' x = (w.spawnAt h b).1.lookup x
    rw [show s' = { ({ s1 with targeted := h.id :: s1.targeted } : SpecW) with
          live := ({ s1 with targeted := h.id :: s1.targeted } : SpecW).live ++ [(h, canon b)] } from rfl, hap]
    by_cases hid : x.id = h.id
    · rw [if_pos hid]
      by_cases hx : x = h
      · subst hx; rw [r2]; simp
      · rw [r3 x hid hx]
        have : (h == x) = false := by simp; exact fun hh => hx hh.symm
        simp [this]
    · rw [if_neg hid, r4 x hid, ← hf.look' x]
      cases s.flush.lookup x with
      | some v => rfl
      | none =>
        have : (h == x) = false := by simp; intro hh; exact hid (by rw [hh])
        simp [this]
  · -- history
    have hI : World.IssuedOk (h.id :: s.targeted) w s.issued :=
      issuedOk_mono hh.issued (fun x hx => List.mem_cons_of_mem _ hx)
    have := (World.issued_step (h.id :: s.targeted) w (.spawnAt h b) s.issued hw hop
      (by intro id hres; simp only [Op.resurrects, beq_iff_eq] at hres; rw [← hres]; simp) hI).2
    have hnh : (Hecs.step w (.spawnAt h b)).2.res.handles_eff = [] := World.no_handles w _ trivial
    rw [hnh, List.append_nil] at this
    exact this
  · intro id
    by_cases hid : id = h.id
    · subst hid
      have hc : (w.spawnAt h b).1.contains h = true := by
        rw [World.contains_eq_lookup' _ hw', r2]; rfl
      show 1 ≤ (w.spawnAt h b).1.genOf h.id
      rw [← World.contains_gen _ _ hc]; exact hgen
    · have := (World.gen_step w (.spawnAt h b) id (by simp [Op.resurrects]; exact fun hh => hid hh.symm)).2
      exact Nat.le_trans (hh.gens id) this

/-! ### the oracle's multiset comparison

`sameComps` sorts both sides (over the ledger-instrumented types) and compares: it accepts exactly the
permutations.  (Groundwork for the two operations `spec_accepts_step_partial` does not cover yet, whose
drop lists are determined only up to order.) -/

def ltC (x y : Comp) : Bool := x.1 < y.1 || (x.1 == y.1 && x.2 < y.2)
def insC (x : Comp) (l : List Comp) : List Comp :=
  (l.takeWhile (fun y => ltC y x)) ++ x :: (l.dropWhile (fun y => ltC y x))
def isortC (l : List Comp) : List Comp := l.foldr insC []
/-- `¬ lt y x`: the order the sorted lists are sorted by -/
def leC (x y : Comp) : Prop := ltC y x = false

theorem sameComps_eq (a b : List Comp) :
    sameComps a b = (isortC (a.filter (fun c => c.1 < 10)) == isortC (b.filter (fun c => c.1 < 10))) := rfl

theorem insC_perm (x : Comp) (l : List Comp) : (insC x l).Perm (x :: l) := by
  unfold insC
  have h := List.takeWhile_append_dropWhile (p := fun y => ltC y x) (l := l)
  calc (List.takeWhile (fun y => ltC y x) l ++ x :: List.dropWhile (fun y => ltC y x) l).Perm
        (x :: (List.takeWhile (fun y => ltC y x) l ++ List.dropWhile (fun y => ltC y x) l)) :=
          List.perm_middle
    _ = x :: l := by rw [h]

theorem isortC_perm (l : List Comp) : (isortC l).Perm l := by
  induction l with
  | nil => exact List.Perm.refl _
  | cons x xs ih => exact (insC_perm x _).trans (List.Perm.cons x ih)

theorem leC_of_lt {a b : Comp} (h : ltC a b = true) : leC a b := by
  unfold leC ltC at *
  simp only [Bool.or_eq_true, decide_eq_true_eq, Bool.and_eq_true, beq_iff_eq, Bool.or_eq_false_iff,
    decide_eq_false_iff_not, Bool.and_eq_false_imp] at *
  omega

theorem leC_trans {a b c : Comp} (h1 : leC a b) (h2 : leC b c) : leC a c := by
  unfold leC ltC at *
  simp only [Bool.or_eq_false_iff, decide_eq_false_iff_not, Bool.and_eq_false_imp, beq_iff_eq] at *
  omega

theorem leC_antisymm {a b : Comp} (h1 : leC a b) (h2 : leC b a) : a = b := by
  unfold leC ltC at *
  simp only [Bool.or_eq_false_iff, decide_eq_false_iff_not, Bool.and_eq_false_imp, beq_iff_eq] at *
  have : a.1 = b.1 := by omega
  have : a.2 = b.2 := by omega
  exact Prod.ext ‹a.1 = b.1› this

theorem mem_dropWhile_ge (x : Comp) (l : List Comp) (h : l.Pairwise leC) (y : Comp)
    (hy : y ∈ l.dropWhile (fun y => ltC y x)) : leC x y := by
  induction l with
  | nil => simp at hy
  | cons z zs ih =>
    rw [List.pairwise_cons] at h
    by_cases hz : ltC z x = true
    · simp only [List.dropWhile_cons, hz, if_true] at hy; exact ih h.2 hy
    · simp only [List.dropWhile_cons, hz] at hy
      have hxz : leC x z := by simpa [leC] using hz
      rcases List.mem_cons.1 hy with rfl | hy
      · exact hxz
      · exact leC_trans hxz (h.1 y hy)

theorem mem_takeWhile_lt (x : Comp) (l : List Comp) (a : Comp)
    (ha : a ∈ l.takeWhile (fun y => ltC y x)) : ltC a x = true := by
  induction l with
  | nil => simp at ha
  | cons z zs ih =>
    by_cases hz : ltC z x = true
    · simp only [List.takeWhile_cons, hz, if_true] at ha
      rcases List.mem_cons.1 ha with rfl | ha
      · exact hz
      · exact ih ha
    · simp [hz] at ha

theorem insC_sorted (x : Comp) (l : List Comp) (h : l.Pairwise leC) : (insC x l).Pairwise leC := by
  unfold insC
  rw [List.pairwise_append]
  refine ⟨h.sublist (List.takeWhile_sublist _), ?_, ?_⟩
  · rw [List.pairwise_cons]
    exact ⟨fun y hy => mem_dropWhile_ge x l h y hy, h.sublist (List.dropWhile_sublist _)⟩
  · intro a ha b hb
    have hax := mem_takeWhile_lt x l a ha
    rcases List.mem_cons.1 hb with rfl | hb
    · exact leC_of_lt hax
    · exact leC_trans (leC_of_lt hax) (mem_dropWhile_ge x l h b hb)

theorem isortC_sorted (l : List Comp) : (isortC l).Pairwise leC := by
  induction l with
  | nil => exact List.Pairwise.nil
  | cons x xs ih => exact insC_sorted x _ ih

theorem sameComps_of_perm (a b : List Comp) (h : a.Perm b) : sameComps a b = true := by
  rw [sameComps_eq, beq_iff_eq]
  apply List.Perm.eq_of_pairwise (le := leC)
  · intro x y _ _ h1 h2; exact leC_antisymm h1 h2
  · exact isortC_sorted _
  · exact isortC_sorted _
  · exact (isortC_perm _).trans ((h.filter _).trans (isortC_perm _).symm)


/-- after `clear` the abstract successor (nothing live, reserved or issued) and the cleared model world
are related again, whatever the states before were -/
theorem rel_clear (s : SpecW) (w : World) : Rel { gens := s.gens, tprev := [] } (w.clear).1 := by
  refine ⟨⟨by simp, ?_⟩, ⟨?_, ?_⟩⟩
  · intro e
    have h1 : (SpecW.flush { gens := s.gens, tprev := [] }).lookup e = none := by simp [SpecW.flush, SpecW.lookup]
    rw [h1, World.clear_lookup]
  · intro e h; cases h
  · intro id; simp [World.genOf, World.clear]

/-- `clear` is an accepted step as soon as the values it drops are, as a multiset, the values the
abstract state lists -/
theorem accepts_clear_of_perm (s : SpecW) (w : World)
    (hp : ((w.clear).2.dropped).Perm (s.live.flatMap (·.2))) :
    ∃ s', apply s .clear (Hecs.step w .clear).2.res (Hecs.step w .clear).2.dropped = .ok s' ∧
      Rel s' (Hecs.step w .clear).1 := by
  refine ⟨{ gens := s.gens, tprev := [] }, ?_, rel_clear s w⟩
  have h1 : (Hecs.step w .clear) = w.clear := rfl
  rw [h1]
  have h2 : (w.clear).2.res = .ok := rfl
  simp only [apply, h2, sameComps_of_perm _ _ hp]
  rfl

end Spec
end Hecs
