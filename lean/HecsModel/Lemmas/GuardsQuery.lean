import HecsModel.Lemmas.GuardsConflict
import HecsModel.Lemmas.Query
/-
  C05 helper lemmas, part 6: a query's item only dereferences columns that `Fetch::borrow`
  acquired, with at least the needed mode, and the static check `assert_borrow` covers every dynamic
  borrow list.
-/
namespace Hecs

/-- the columns `Query::get` dereferences on an archetype with type list `ts`, with the access mode
(`true` = `&mut`), clause by clause as `Q.item` -/
def Q.derefs : Q → List Nat → List (Nat × Bool)
  | .read t, _ => [(t, false)]
  | .write t, _ => [(t, true)]
  | .opt q, ts => if q.prepares ts then q.derefs ts else []
  | .or l r, ts =>
    match l.prepares ts, r.prepares ts with
    | true, true => l.derefs ts ++ r.derefs ts
    | true, false => l.derefs ts
    | false, true => r.derefs ts
    | false, false => []
  | .with_ q _, ts => q.derefs ts
  | .without q _, ts => q.derefs ts
  | .satisfies _, _ => []
  | .unit, _ => []
  | .pair q rest, ts => q.derefs ts ++ rest.derefs ts

/-- the component types whose values appear in an item -/
def Item.types : Item → List Nat
  | .val t _ => [t]
  | .none => []
  | .some i => i.types
  | .left i => i.types
  | .right i => i.types
  | .both l r => l.types ++ r.types
  | .bool _ => []
  | .unit => []
  | .pair a b => a.types ++ b.types

namespace GuardLemmas
open Hecs Hecs.Guards

/-- `derefs` really is what `item` reads: the values in the item come from exactly these types -/
theorem item_types_eq_derefs (q : Q) (ts : List Nat) (vals : List Comp) :
    (q.item ts vals).types = (q.derefs ts).map (·.1) := by
  induction q with
  | read t => rfl
  | write t => rfl
  | opt q ih =>
    simp only [Q.item, Q.derefs]
    cases q.prepares ts <;> simp [Item.types, ih]
  | or l r ihl ihr =>
    simp only [Q.item, Q.derefs]
    cases l.prepares ts <;> cases r.prepares ts <;> simp [Item.types, ihl, ihr]
  | with_ q r ihq _ => simpa [Q.item, Q.derefs] using ihq
  | without q r ihq _ => simpa [Q.item, Q.derefs] using ihq
  | satisfies q _ => rfl
  | unit => rfl
  | pair q rest ihq ihr => simp [Q.item, Q.derefs, Item.types, ihq, ihr]

/-- every column the item dereferences was borrowed, in the needed mode: the two lists coincide -/
theorem derefs_eq_borrowList (q : Q) (ts : List Nat) : q.derefs ts = q.borrowList ts := by
  induction q with
  | read t => rfl
  | write t => rfl
  | opt q ih => simp only [Q.derefs, Q.borrowList, ih]
  | or l r ihl ihr =>
    simp only [Q.derefs, Q.borrowList, ihl, ihr]
    cases l.prepares ts <;> cases r.prepares ts <;> simp
  | with_ q r ihq _ => simpa [Q.derefs, Q.borrowList] using ihq
  | without q r ihq _ => simpa [Q.derefs, Q.borrowList] using ihq
  | satisfies q _ => rfl
  | unit => rfl
  | pair q rest ihq ihr => simp only [Q.derefs, Q.borrowList, ihq, ihr]

/-- the dynamic borrow list is a sublist (order and multiplicity) of the static one -/
theorem borrowList_sublist (q : Q) (ts : List Nat) : (q.borrowList ts).Sublist q.borrows := by
  induction q with
  | read t => exact List.Sublist.refl _
  | write t => exact List.Sublist.refl _
  | opt q ih =>
    simp only [Q.borrowList, Q.borrows]
    split
    · exact ih
    · exact List.nil_sublist _
  | or l r ihl ihr =>
    simp only [Q.borrowList, Q.borrows]
    apply List.Sublist.append
    · split
      · exact ihl
      · exact List.nil_sublist _
    · split
      · exact ihr
      · exact List.nil_sublist _
  | with_ q r ihq _ => exact ihq
  | without q r ihq _ => exact ihq
  | satisfies q _ => exact List.Sublist.refl _
  | unit => exact List.Sublist.refl _
  | pair q rest ihq ihr => exact List.Sublist.append ihq ihr

theorem borrowList_subset (q : Q) (ts : List Nat) : ∀ x ∈ q.borrowList ts, x ∈ q.borrows :=
  fun _ hx => (borrowList_sublist q ts).subset hx

/-- `assert_borrow` passed: no two fields of the query conflict -/
theorem borrows_pairwise (q : Q) (h : q.assertBorrowOk = true) :
    q.borrows.Pairwise (fun x y => x.1 = y.1 → x.2 = false ∧ y.2 = false) := by
  rw [List.pairwise_iff_getElem]
  intro i j hi hj hij heq
  have get : ∀ k (hk : k < q.borrows.length), q.borrows.getD k (0, false) = q.borrows[k] := by
    intro k hk
    rw [List.getD_eq_getElem?_getD, List.getElem?_eq_getElem hk]
    rfl
  constructor
  · cases hx : q.borrows[i].2 with
    | false => rfl
    | true =>
      have := Q.assertBorrowOk_sound q h i j (by omega) hi hj (by rw [get i hi]; exact hx)
      rw [get i hi, get j hj] at this
      exact absurd heq this
  · cases hy : q.borrows[j].2 with
    | false => rfl
    | true =>
      have := Q.assertBorrowOk_sound q h j i (by omega) hj hi (by rw [get j hj]; exact hy)
      rw [get i hi, get j hj] at this
      exact absurd heq.symm this

theorem pairwise_noconflict_iff (l : List H) :
    l.Pairwise (fun x y => conflicts x y = false) ↔ ¬ IntC l := by
  induction l with
  | nil => simp [intC_nil]
  | cons x l ih =>
    rw [List.pairwise_cons, intC_cons, ih, not_or, Bool.not_eq_true, List.any_eq_false]
    simp

/-- the static check covers every dynamic borrow list: a query that passed `assert_borrow` never
conflicts with itself on any archetype -/
theorem assertBorrowOk_covers (q : Q) (h : q.assertBorrowOk = true) (a : Nat) (ts : List Nat) :
    ((q.borrowList ts).map (fun x => ((a, x.1), x.2))).Pairwise (fun x y => conflicts x y = false) := by
  rw [List.pairwise_map]
  refine List.Pairwise.imp ?_ (List.Pairwise.sublist (borrowList_sublist q ts) (borrows_pairwise q h))
  intro x y hxy
  simp only [conflicts, Bool.and_eq_false_iff, beq_eq_false_iff_ne, ne_eq, Prod.mk.injEq, true_and,
    Bool.or_eq_false_iff]
  by_cases he : x.1 = y.1
  · exact Or.inr (hxy he)
  · exact Or.inl he

theorem assertBorrowOk_no_self_conflict (q : Q) (h : q.assertBorrowOk = true) (a : Nat) (ts : List Nat) :
    wouldConflict [] ((q.borrowList ts).map (fun x => ((a, x.1), x.2))) = false := by
  rw [← Bool.not_eq_true, wouldConflict_iff]
  rintro (⟨x, _, hx⟩ | hi)
  · simp at hx
  · exact (pairwise_noconflict_iff _).1 (assertBorrowOk_covers q h a ts) hi

end GuardLemmas
end Hecs
