import HecsModel.Model.Guards
/-
  C05 helper lemmas, part 1: the counting invariant between the borrow words and a multiset of
  holders, and the specification of one `acquire` / `release` and of acquiring / releasing a list of
  columns in order.

  `Borrow.UNIQUE` is kept opaque in every arithmetic step (only `0 < UNIQUE` is used).
-/
namespace Hecs.GuardLemmas
open Hecs Hecs.Guards

/-- a holder: a column and the access mode (`true` = unique) -/
abbrev H := Col × Bool

theorem U_pos : 0 < Borrow.UNIQUE := by decide

/-! ### words -/

theorem find?_filter_ne (ws : Words) (c c' : Col) (h : c' ≠ c) :
    (ws.filter (·.1 != c)).find? (·.1 == c') = ws.find? (·.1 == c') := by
  induction ws with
  | nil => rfl
  | cons x ws ih =>
    by_cases hx : x.1 = c
    · have h1 : (x.1 != c) = false := by simp [hx]
      have h2 : (x.1 == c') = false := by simpa using fun e => h (e.symm.trans hx)
      rw [List.filter_cons, h1, List.find?_cons, h2]
      simpa using ih
    · have h1 : (x.1 != c) = true := by simp [hx]
      rw [List.filter_cons, h1]
      simp only [if_true, List.find?_cons, ih]

theorem wordOf_setWord (ws : Words) (c : Col) (v : Nat) (c' : Col) :
    wordOf (setWord ws c v) c' = if c' = c then v else wordOf ws c' := by
  unfold wordOf setWord
  by_cases h : c' = c
  · subst h; simp
  · have h' : ((c, v).1 == c') = false := by simpa using fun e => h e.symm
    rw [List.find?_cons, h', if_neg h]
    simp only [find?_filter_ne ws c c' h]

/-! ### counting holders -/

/-- number of unique holders of column `c` -/
def nU (hs : List H) (c : Col) : Nat := (hs.filter (fun h => h.1 == c && h.2)).length
/-- number of shared holders of column `c` -/
def nS (hs : List H) (c : Col) : Nat := (hs.filter (fun h => h.1 == c && !h.2)).length

/-- every word is `UNIQUE * #unique holders + #shared holders` -/
def Counts (ws : Words) (hs : List H) : Prop :=
  ∀ c, wordOf ws c = Borrow.UNIQUE * nU hs c + nS hs c

/-- at most one unique holder per column, and a unique holder excludes shared holders -/
def Excl (hs : List H) : Prop :=
  ∀ c, nU hs c ≤ 1 ∧ (0 < nU hs c → nS hs c = 0)

@[simp] theorem nU_nil (c : Col) : nU [] c = 0 := rfl
@[simp] theorem nS_nil (c : Col) : nS [] c = 0 := rfl

theorem nU_cons (x : H) (hs : List H) (c : Col) :
    nU (x :: hs) c = nU hs c + (if x.1 = c ∧ x.2 = true then 1 else 0) := by
  unfold nU
  rw [List.filter_cons]
  by_cases h : x.1 = c ∧ x.2 = true
  · simp [h]
  · rw [if_neg h]
    have : (x.1 == c && x.2) = false := by
      cases hx : x.2 <;> simp_all
    simp [this]

theorem nS_cons (x : H) (hs : List H) (c : Col) :
    nS (x :: hs) c = nS hs c + (if x.1 = c ∧ x.2 = false then 1 else 0) := by
  unfold nS
  rw [List.filter_cons]
  by_cases h : x.1 = c ∧ x.2 = false
  · simp [h]
  · rw [if_neg h]
    have : (x.1 == c && !x.2) = false := by
      cases hx : x.2 <;> simp_all
    simp [this]

theorem nU_append (l₁ l₂ : List H) (c : Col) : nU (l₁ ++ l₂) c = nU l₁ c + nU l₂ c := by
  simp [nU, List.filter_append]

theorem nS_append (l₁ l₂ : List H) (c : Col) : nS (l₁ ++ l₂) c = nS l₁ c + nS l₂ c := by
  simp [nS, List.filter_append]

theorem nU_perm {l₁ l₂ : List H} (h : l₁.Perm l₂) (c : Col) : nU l₁ c = nU l₂ c :=
  (h.filter _).length_eq

theorem nS_perm {l₁ l₂ : List H} (h : l₁.Perm l₂) (c : Col) : nS l₁ c = nS l₂ c :=
  (h.filter _).length_eq

theorem nU_add_nS_le (hs : List H) (c : Col) : nU hs c + nS hs c ≤ hs.length := by
  induction hs with
  | nil => simp
  | cons x hs ih =>
    rw [nU_cons, nS_cons, List.length_cons]
    cases hx : x.2 <;> by_cases hc : x.1 = c <;> simp [hc] <;> omega

theorem nU_eq_zero_iff (hs : List H) (c : Col) : nU hs c = 0 ↔ ∀ h ∈ hs, ¬ (h.1 = c ∧ h.2 = true) := by
  unfold nU
  rw [List.length_eq_zero_iff, List.filter_eq_nil_iff]
  simp

theorem nS_eq_zero_iff (hs : List H) (c : Col) : nS hs c = 0 ↔ ∀ h ∈ hs, ¬ (h.1 = c ∧ h.2 = false) := by
  unfold nS
  rw [List.length_eq_zero_iff, List.filter_eq_nil_iff]
  simp

/-- no holder of `c` conflicts with a shared request iff `c` has no unique holder -/
theorem any_conflicts_shared (hs : List H) (c : Col) :
    hs.any (conflicts (c, false)) = false ↔ nU hs c = 0 := by
  rw [nU_eq_zero_iff, List.any_eq_false]
  constructor
  · intro h x hx ⟨h1, h2⟩
    exact h x hx (by simp [conflicts, h1, h2])
  · intro h x hx hc
    simp only [conflicts, Bool.false_or, Bool.and_eq_true, beq_iff_eq] at hc
    exact h x hx ⟨hc.1.symm, hc.2⟩

/-- no holder of `c` conflicts with a unique request iff `c` has no holder at all -/
theorem any_conflicts_unique (hs : List H) (c : Col) :
    hs.any (conflicts (c, true)) = false ↔ nU hs c = 0 ∧ nS hs c = 0 := by
  rw [nU_eq_zero_iff, nS_eq_zero_iff, List.any_eq_false]
  constructor
  · intro h
    refine ⟨fun x hx ⟨h1, _⟩ => h x hx (by simp [conflicts, h1]), fun x hx ⟨h1, _⟩ => h x hx (by simp [conflicts, h1])⟩
  · intro ⟨h1, h2⟩ x hx hc
    simp only [conflicts, Bool.true_or, Bool.and_true, beq_iff_eq] at hc
    cases hx2 : x.2
    · exact h2 x hx ⟨hc.symm, hx2⟩
    · exact h1 x hx ⟨hc.symm, hx2⟩

/-! ### the invariant bundle -/

/-- words count the holders, and the holders respect aliasing-xor-mutation -/
structure CE (ws : Words) (hs : List H) : Prop where
  counts : Counts ws hs
  excl : Excl hs

theorem Counts.perm {ws : Words} {l₁ l₂ : List H} (h : Counts ws l₁) (p : l₁.Perm l₂) : Counts ws l₂ := by
  intro c; rw [← nU_perm p, ← nS_perm p]; exact h c

theorem Excl.perm {l₁ l₂ : List H} (h : Excl l₁) (p : l₁.Perm l₂) : Excl l₂ := by
  intro c; rw [← nU_perm p, ← nS_perm p]; exact h c

theorem CE.perm {ws : Words} {l₁ l₂ : List H} (h : CE ws l₁) (p : l₁.Perm l₂) : CE ws l₂ :=
  ⟨h.counts.perm p, h.excl.perm p⟩

theorem Excl.tail {x : H} {hs : List H} (h : Excl (x :: hs)) : Excl hs := by
  intro c
  have := h c
  rw [nU_cons, nS_cons] at this
  constructor
  · omega
  · intro h0
    have := this.2 (by omega)
    omega

theorem Excl.head {x : H} {hs : List H} (h : Excl (x :: hs)) :
    hs.any (conflicts x) = false := by
  obtain ⟨c, u⟩ := x
  have hc := h c
  rw [nU_cons, nS_cons] at hc
  cases u
  · rw [any_conflicts_shared]
    simp only [true_and, Bool.false_eq_true, and_false, if_false, if_true, Nat.add_zero] at hc
    have := hc.2
    omega
  · rw [any_conflicts_unique]
    simp only [Bool.true_eq_false, and_false, if_false, if_true, Nat.add_zero, and_self] at hc
    have := hc.2 (by omega)
    omega

/-- under `Excl`, no two holders at different positions conflict -/
theorem Excl.pairwise {hs : List H} (h : Excl hs) : hs.Pairwise (fun x y => conflicts x y = false) := by
  induction hs with
  | nil => exact List.Pairwise.nil
  | cons x hs ih =>
    refine List.Pairwise.cons ?_ (ih h.tail)
    intro y hy
    have := h.head
    rw [List.any_eq_false] at this
    simpa using this y hy

theorem Excl.nil : Excl [] := by intro c; simp

/-! ### one acquisition -/

theorem acquire_shared (ws : Words) (c : Col) :
    acquire ws c false =
      if wordOf ws c < Borrow.UNIQUE then some (setWord ws c (wordOf ws c + 1)) else none := by
  unfold acquire Borrow.seqBorrow
  by_cases h : wordOf ws c ≥ Borrow.UNIQUE
  · have : ¬ wordOf ws c < Borrow.UNIQUE := by omega
    simp [h, this]
  · have : wordOf ws c < Borrow.UNIQUE := by omega
    simp [h, this]

theorem acquire_unique (ws : Words) (c : Col) :
    acquire ws c true = if wordOf ws c = 0 then some (setWord ws c Borrow.UNIQUE) else none := by
  unfold acquire Borrow.seqBorrowMut
  by_cases h : wordOf ws c = 0 <;> simp [h]

theorem release_shared (ws : Words) (c : Col) :
    release ws c false = setWord ws c (wordOf ws c - 1) := by
  simp [release, Borrow.seqRelease]

theorem release_unique (ws : Words) (c : Col) :
    release ws c true =
      setWord ws c (if wordOf ws c ≥ Borrow.UNIQUE then wordOf ws c - Borrow.UNIQUE else wordOf ws c) := by
  simp [release, Borrow.seqReleaseMut]

/-- arithmetic core, `U` opaque -/
theorem lt_U_iff {U nu ns : Nat} (hns : ns < U) : U * nu + ns < U ↔ nu = 0 := by
  constructor
  · intro h
    cases nu with
    | zero => rfl
    | succ k => rw [Nat.mul_succ] at h; omega
  · intro h; subst h; simpa using hns

theorem nu_zero_of_lt_U {U nu ns : Nat} (h : U * nu + ns < U) : nu = 0 := by
  cases nu with
  | zero => rfl
  | succ k => rw [Nat.mul_succ] at h; omega

theorem eq_zero_iff' {U nu ns : Nat} (hU : 0 < U) : U * nu + ns = 0 ↔ nu = 0 ∧ ns = 0 := by
  constructor
  · intro h
    cases nu with
    | zero => omega
    | succ k => rw [Nat.mul_succ] at h; omega
  · intro ⟨h1, h2⟩; subst h1; subst h2; simp

/-- a granted acquisition keeps the invariant with the new holder added -/
theorem acquire_some_CE {ws ws' : Words} {hs : List H} {c : Col} {u : Bool}
    (h : CE ws hs) (ha : acquire ws c u = some ws') : CE ws' ((c, u) :: hs) := by
  have hU := U_pos
  have hc := h.counts c
  cases u
  · -- shared
    rw [acquire_shared] at ha
    split at ha
    · rename_i hlt
      injection ha with ha; subst ha
      have hnu : nU hs c = 0 := by rw [hc] at hlt; exact nu_zero_of_lt_U hlt
      refine ⟨?_, ?_⟩
      · intro c'
        rw [wordOf_setWord, nU_cons, nS_cons]
        by_cases hcc : c' = c
        · subst hcc; simp [hc]; omega
        · have : ¬ c = c' := fun e => hcc e.symm
          simp [hcc, this, h.counts c']
      · intro c'
        rw [nU_cons, nS_cons]
        by_cases hcc : c = c'
        · subst hcc
          have := h.excl c
          simp [hnu]
        · simpa [hcc] using h.excl c'
    · cases ha
  · -- unique
    rw [acquire_unique] at ha
    split at ha
    · rename_i h0
      injection ha with ha; subst ha
      rw [hc, eq_zero_iff' hU] at h0
      refine ⟨?_, ?_⟩
      · intro c'
        rw [wordOf_setWord, nU_cons, nS_cons]
        by_cases hcc : c' = c
        · subst hcc; simp [h0.1, h0.2]
        · have : ¬ c = c' := fun e => hcc e.symm
          simp [hcc, this, h.counts c']
      · intro c'
        rw [nU_cons, nS_cons]
        by_cases hcc : c = c'
        · subst hcc
          simp [h0.1, h0.2]
        · simpa [hcc] using h.excl c'
    · cases ha

/-- a granted acquisition did not conflict with any holder -/
theorem acquire_some_noconf {ws ws' : Words} {hs : List H} {c : Col} {u : Bool}
    (h : CE ws hs) (ha : acquire ws c u = some ws') : hs.any (conflicts (c, u)) = false :=
  (acquire_some_CE h ha).excl.head

/-- a request that conflicts with no holder is granted (counter overflow excluded by the bound) -/
theorem acquire_of_noconf {ws : Words} {hs : List H} {c : Col} {u : Bool}
    (h : CE ws hs) (hb : hs.length < Borrow.UNIQUE) (hn : hs.any (conflicts (c, u)) = false) :
    ∃ ws', acquire ws c u = some ws' := by
  have hU := U_pos
  have hc := h.counts c
  have hle := nU_add_nS_le hs c
  cases u
  · rw [any_conflicts_shared] at hn
    rw [acquire_shared]
    have : wordOf ws c < Borrow.UNIQUE := by rw [hc, hn]; omega
    simp [this]
  · rw [any_conflicts_unique] at hn
    rw [acquire_unique]
    have : wordOf ws c = 0 := by rw [hc, hn.1, hn.2]; simp
    simp [this]

/-- `acquire_spec`: granted iff no conflict with a current holder -/
theorem acquire_isSome_iff {ws : Words} {hs : List H} {c : Col} {u : Bool}
    (h : CE ws hs) (hb : hs.length < Borrow.UNIQUE) :
    (acquire ws c u).isSome = true ↔ hs.any (conflicts (c, u)) = false := by
  constructor
  · intro hs'
    obtain ⟨ws', hw⟩ := Option.isSome_iff_exists.1 hs'
    exact acquire_some_noconf h hw
  · intro hn
    obtain ⟨ws', hw⟩ := acquire_of_noconf h hb hn
    simp [hw]

/-! ### one release -/

/-- releasing what a holder holds removes that holder -/
theorem release_cons_CE {ws : Words} {hs : List H} {c : Col} {u : Bool}
    (h : CE ws ((c, u) :: hs)) : CE (release ws c u) hs := by
  refine ⟨?_, h.excl.tail⟩
  have hc := h.counts
  intro c'
  have hc' := hc c'
  rw [nU_cons, nS_cons] at hc'
  cases u
  · rw [release_shared, wordOf_setWord]
    by_cases hcc : c' = c
    · subst hcc
      simp at hc'
      simp [hc']
    · have : ¬ c = c' := fun e => hcc e.symm
      simpa [hcc, this] using hc'
  · rw [release_unique, wordOf_setWord]
    by_cases hcc : c' = c
    · subst hcc
      simp only [true_and, if_true, Bool.true_eq_false, and_false, if_false, Nat.add_zero, Nat.mul_add,
        Nat.mul_one] at hc'
      have hc2 := hc c'
      rw [nU_cons, nS_cons] at hc2
      simp only [true_and, if_true, Bool.true_eq_false, and_false, if_false, Nat.add_zero, Nat.mul_add,
        Nat.mul_one] at hc2
      rw [hc2]
      have : Borrow.UNIQUE * nU hs c' + Borrow.UNIQUE + nS hs c' ≥ Borrow.UNIQUE := by omega
      simp only [this, if_true]
      omega
    · have : ¬ c = c' := fun e => hcc e.symm
      simpa [hcc, this] using hc'

/-- `release_spec` -/
theorem release_erase_CE {ws : Words} {hs : List H} {c : Col} {u : Bool}
    (h : CE ws hs) (hm : (c, u) ∈ hs) : CE (release ws c u) (hs.erase (c, u)) :=
  release_cons_CE (h.perm (List.perm_cons_erase hm))

/-! ### acquiring / releasing a list of columns in order -/

/-- acquire the columns in order, stop at the first refusal, keep what was acquired -/
def acquireCols (ws : Words) : List H → Words × Bool
  | [] => (ws, true)
  | x :: rest =>
    match acquire ws x.1 x.2 with
    | some ws' => acquireCols ws' rest
    | none => (ws, false)

/-- the prefix `acquireCols` actually acquired -/
def acqPre (ws : Words) : List H → List H
  | [] => []
  | x :: rest =>
    match acquire ws x.1 x.2 with
    | some ws' => x :: acqPre ws' rest
    | none => []

def releaseCols (ws : Words) (l : List H) : Words := l.foldl (fun ws x => release ws x.1 x.2) ws

/-- what the property predicts is granted: the longest prefix whose elements conflict neither with
the current holders nor with an earlier element -/
def grantPre (hs : List H) : List H → List H
  | [] => []
  | x :: rest => if hs.any (conflicts x) then [] else x :: grantPre (x :: hs) rest

theorem acquireCols_append (ws : Words) (l₁ l₂ : List H) :
    acquireCols ws (l₁ ++ l₂) =
      if (acquireCols ws l₁).2 then acquireCols (acquireCols ws l₁).1 l₂ else acquireCols ws l₁ := by
  induction l₁ generalizing ws with
  | nil => simp [acquireCols]
  | cons x l ih =>
    cases h : acquire ws x.1 x.2 with
    | none => simp [acquireCols, h]
    | some ws' => simp [acquireCols, h, ih]

theorem acqPre_append (ws : Words) (l₁ l₂ : List H) :
    acqPre ws (l₁ ++ l₂) =
      if (acquireCols ws l₁).2 then l₁ ++ acqPre (acquireCols ws l₁).1 l₂ else acqPre ws l₁ := by
  induction l₁ generalizing ws with
  | nil => simp [acquireCols]
  | cons x l ih =>
    cases h : acquire ws x.1 x.2 with
    | none => simp [acquireCols, acqPre, h]
    | some ws' =>
      simp only [List.cons_append, acquireCols, acqPre, h, ih]
      split <;> simp

theorem acqPre_prefix (ws : Words) (l : List H) : acqPre ws l <+: l := by
  induction l generalizing ws with
  | nil => simp [acqPre]
  | cons x l ih =>
    simp only [acqPre]
    cases h : acquire ws x.1 x.2 with
    | none => exact List.nil_prefix
    | some ws' => exact (List.prefix_cons_inj x).2 (ih ws')

/-- the acquisition succeeded iff everything was acquired -/
theorem acquireCols_ok_iff (ws : Words) (l : List H) : (acquireCols ws l).2 = true ↔ acqPre ws l = l := by
  induction l generalizing ws with
  | nil => simp [acquireCols, acqPre]
  | cons x l ih =>
    simp only [acquireCols, acqPre]
    cases h : acquire ws x.1 x.2 with
    | none => simp
    | some ws' => simp [ih]

/-- whatever happened, the invariant holds with exactly the acquired prefix added -/
theorem acquireCols_CE {ws : Words} {hs : List H} (l : List H) (h : CE ws hs) :
    CE (acquireCols ws l).1 (acqPre ws l ++ hs) := by
  induction l generalizing ws hs with
  | nil => simpa [acquireCols, acqPre] using h
  | cons x l ih =>
    simp only [acquireCols, acqPre]
    cases ha : acquire ws x.1 x.2 with
    | none => simpa using h
    | some ws' =>
      have := ih (acquire_some_CE (c := x.1) (u := x.2) h ha)
      exact this.perm List.perm_middle

/-- a refusal leaves the words of every *other* call untouched: the result words are the input words
when nothing was acquired -/
theorem acquireCols_nil_pre {ws : Words} {l : List H} (h : acqPre ws l = []) (hl : l ≠ []) :
    acquireCols ws l = (ws, false) := by
  cases l with
  | nil => exact absurd rfl hl
  | cons x l =>
    simp only [acquireCols, acqPre] at *
    cases ha : acquire ws x.1 x.2 with
    | none => rfl
    | some ws' => rw [ha] at h; cases h

/-- with the overflow bound, the acquired prefix is exactly the one the property predicts -/
theorem acqPre_eq_grantPre {ws : Words} {hs : List H} (l : List H) (h : CE ws hs)
    (hb : hs.length + l.length < Borrow.UNIQUE) : acqPre ws l = grantPre hs l := by
  induction l generalizing ws hs with
  | nil => rfl
  | cons x l ih =>
    simp only [acqPre, grantPre]
    simp only [List.length_cons] at hb
    cases ha : acquire ws x.1 x.2 with
    | none =>
      cases hany : hs.any (conflicts x) with
      | true => simp
      | false =>
        obtain ⟨ws', hw⟩ := acquire_of_noconf (c := x.1) (u := x.2) h (by omega) hany
        rw [ha] at hw; cases hw
    | some ws' =>
      have hn := acquire_some_noconf (c := x.1) (u := x.2) h ha
      have hce := acquire_some_CE (c := x.1) (u := x.2) h ha
      have : (hs.any (conflicts x)) = false := hn
      simp only [this, Bool.false_eq_true, if_false]
      rw [ih hce (by simp only [List.length_cons]; omega)]

/-- releasing a list of held columns removes exactly those holders -/
theorem releaseCols_CE {ws : Words} {hs : List H} (l : List H) (h : CE ws (l ++ hs)) :
    CE (releaseCols ws l) hs := by
  induction l generalizing ws with
  | nil => simpa [releaseCols] using h
  | cons x l ih =>
    simp only [releaseCols, List.foldl_cons]
    exact ih (release_cons_CE (c := x.1) (u := x.2) h)

theorem releaseCols_append (ws : Words) (l₁ l₂ : List H) :
    releaseCols ws (l₁ ++ l₂) = releaseCols (releaseCols ws l₁) l₂ := by
  simp [releaseCols, List.foldl_append]

end Hecs.GuardLemmas
