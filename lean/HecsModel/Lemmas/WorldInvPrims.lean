import HecsModel.Lemmas.WorldInv
/-
  Observation lemmas for the primitives of the world model: what `locOf`, `rowsOf`, `typesOf`,
  `archs.size`, `metas.size`, `rowCount` are after each primitive.
-/
namespace Hecs
namespace World

/-- total number of rows -/
def rowCount (w : World) : Nat := (w.archs.toList.map (·.rows.size)).sum

/-- generic modification of the rows of one archetype -/
def modRows (w : World) (a : Nat) (g : Array Row → Array Row) : World :=
  { w with archs := w.archs.modify a (fun ar => { ar with rows := g ar.rows }) }

/-- generic modification of one meta -/
def modMeta (w : World) (id : Nat) (f : Meta → Meta) : World :=
  { w with metas := w.metas.modify id f }

theorem rowAt_eq (w : World) (a i : Nat) : w.rowAt a i = (w.rowsOf a)[i]? := by
  unfold rowAt rowsOf
  cases w.archs[a]? <;> simp

theorem rowsOf_ge (w : World) (a : Nat) (h : w.archs.size ≤ a) : w.rowsOf a = #[] := by
  unfold rowsOf; simp [Array.getElem?_eq_none h]

theorem typesOf_ge (w : World) (a : Nat) (h : w.archs.size ≤ a) : w.typesOf a = [] := by
  unfold typesOf; simp [Array.getElem?_eq_none h]

theorem locOf_ge (w : World) (id : Nat) (h : w.metas.size ≤ id) : w.locOf id = none := by
  unfold locOf; simp [Array.getElem?_eq_none h]

theorem lt_of_locOf {w : World} {id : Nat} {l} (h : w.locOf id = some l) : id < w.metas.size := by
  apply Classical.byContradiction; intro hn
  rw [locOf_ge w id (by omega)] at h; cases h

theorem lt_of_row {w : World} {a i : Nat} {r} (h : (w.rowsOf a)[i]? = some r) : a < w.archs.size := by
  apply Classical.byContradiction; intro hn
  rw [rowsOf_ge w a (by omega)] at h; simp at h

/-! ### modRows -/

@[simp] theorem modRows_metas (w : World) (a g) : (w.modRows a g).metas = w.metas := rfl
@[simp] theorem modRows_pending (w : World) (a g) : (w.modRows a g).pending = w.pending := rfl
@[simp] theorem modRows_cursor (w : World) (a g) : (w.modRows a g).cursor = w.cursor := rfl
@[simp] theorem modRows_len (w : World) (a g) : (w.modRows a g).len = w.len := rfl
@[simp] theorem modRows_locOf (w : World) (a g id) : (w.modRows a g).locOf id = w.locOf id := rfl
@[simp] theorem modRows_archs_size (w : World) (a g) : (w.modRows a g).archs.size = w.archs.size := by
  simp [modRows]

@[simp] theorem modRows_typesOf (w : World) (a g b) : (w.modRows a g).typesOf b = w.typesOf b := by
  simp only [typesOf, modRows, Array.getElem?_modify]
  split
  · subst_vars; cases w.archs[b]? <;> simp
  · rfl

theorem modRows_rowsOf (w : World) (a g b) :
    (w.modRows a g).rowsOf b = if b = a ∧ a < w.archs.size then g (w.rowsOf a) else w.rowsOf b := by
  simp only [rowsOf, modRows, Array.getElem?_modify]
  by_cases h : a = b
  · subst h
    by_cases h2 : a < w.archs.size
    · simp [h2]
    · simp [h2]
  · have : ¬ b = a := fun e => h e.symm
    simp [h, this]

theorem modRows_rowsOf_same (w : World) (a g) (h : a < w.archs.size) :
    (w.modRows a g).rowsOf a = g (w.rowsOf a) := by
  simp [modRows_rowsOf, h]

theorem modRows_rowsOf_ne (w : World) (a g b) (h : b ≠ a) :
    (w.modRows a g).rowsOf b = w.rowsOf b := by
  simp [modRows_rowsOf, h]

theorem sum_modify (l : List Arch) (a : Nat) (f : Arch → Arch) (ar : Arch) (h : l[a]? = some ar) :
    ((l.modify a f).map (·.rows.size)).sum + ar.rows.size
      = (l.map (·.rows.size)).sum + (f ar).rows.size := by
  induction l generalizing a with
  | nil => simp at h
  | cons x xs ih =>
    cases a with
    | zero => simp at h; subst h; simp [List.modify]; omega
    | succ a =>
      simp at h
      have := ih a h
      simp only [List.modify_succ_cons, List.map_cons, List.sum_cons] at this ⊢; omega

theorem modRows_rowCount (w : World) (a g) (h : a < w.archs.size) :
    (w.modRows a g).rowCount + (w.rowsOf a).size = w.rowCount + (g (w.rowsOf a)).size := by
  unfold rowCount modRows rowsOf
  simp only [Array.toList_modify]
  have h1 : w.archs.toList[a]? = some w.archs[a] := by simp [h]
  have := sum_modify w.archs.toList a (fun ar => { ar with rows := g ar.rows }) _ h1
  simp [h] at this ⊢
  omega

/-! ### modMeta -/

@[simp] theorem modMeta_archs (w : World) (id f) : (w.modMeta id f).archs = w.archs := rfl
@[simp] theorem modMeta_pending (w : World) (id f) : (w.modMeta id f).pending = w.pending := rfl
@[simp] theorem modMeta_cursor (w : World) (id f) : (w.modMeta id f).cursor = w.cursor := rfl
@[simp] theorem modMeta_len (w : World) (id f) : (w.modMeta id f).len = w.len := rfl
@[simp] theorem modMeta_rowsOf (w : World) (id f a) : (w.modMeta id f).rowsOf a = w.rowsOf a := rfl
@[simp] theorem modMeta_typesOf (w : World) (id f a) : (w.modMeta id f).typesOf a = w.typesOf a := rfl
@[simp] theorem modMeta_rowCount (w : World) (id f) : (w.modMeta id f).rowCount = w.rowCount := rfl
@[simp] theorem modMeta_metas_size (w : World) (id f) : (w.modMeta id f).metas.size = w.metas.size := by
  simp [modMeta]

theorem modMeta_locOf (w : World) (id f id') :
    (w.modMeta id f).locOf id' = if id' = id then (w.metas[id]?).bind (fun m => (f m).loc) else w.locOf id' := by
  simp only [locOf, modMeta, Array.getElem?_modify]
  by_cases h : id = id'
  · subst h; cases w.metas[id]? <;> simp
  · have : ¬ id' = id := fun e => h e.symm
    simp [h, this]

theorem setLoc_eq (w : World) (id l) : w.setLoc id l = w.modMeta id (fun m => { m with loc := l }) := rfl
theorem setLocIndex_eq (w : World) (id i) :
    w.setLocIndex id i = w.modMeta id (fun m => { m with loc := m.loc.map (fun l => (l.1, i)) }) := rfl
theorem setGen_eq (w : World) (id g) : w.setGen id g = w.modMeta id (fun m => { m with gen := g }) := rfl

theorem setLoc_locOf (w : World) (id l id') :
    (w.setLoc id l).locOf id' = if id' = id ∧ id < w.metas.size then l else w.locOf id' := by
  rw [setLoc_eq, modMeta_locOf]
  by_cases h : id' = id
  · subst h
    by_cases h2 : id' < w.metas.size
    · simp [h2]
    · simp [h2, locOf]
  · simp [h]

theorem setLocIndex_locOf (w : World) (id i id') :
    (w.setLocIndex id i).locOf id' = if id' = id then (w.locOf id).map (fun l => (l.1, i)) else w.locOf id' := by
  rw [setLocIndex_eq, modMeta_locOf]
  by_cases h : id' = id
  · subst h; simp [locOf]; cases w.metas[id']? <;> simp
  · simp [h]

@[simp] theorem setGen_locOf (w : World) (id g id') : (w.setGen id g).locOf id' = w.locOf id' := by
  rw [setGen_eq, modMeta_locOf]
  by_cases h : id' = id
  · subst h; simp [locOf]
  · simp [h]

/-! ### invariants in observation form -/

/-- locations and rows are mutually inverse, except at the orphan rows `O` -/
structure BijO (w : World) (O : Nat → Nat → Prop) : Prop where
  loc_row : ∀ id a i, w.locOf id = some (a, i) → ¬ O a i ∧ ∃ r, (w.rowsOf a)[i]? = some r ∧ r.id = id
  row_loc : ∀ a i r, (w.rowsOf a)[i]? = some r → ¬ O a i → w.locOf r.id = some (a, i)

/-- no orphans -/
structure Bij (w : World) : Prop where
  loc_row : ∀ id a i, w.locOf id = some (a, i) → ∃ r, (w.rowsOf a)[i]? = some r ∧ r.id = id
  row_loc : ∀ a i r, (w.rowsOf a)[i]? = some r → w.locOf r.id = some (a, i)

/-- row `(a, i)` exists and is the only orphan -/
structure BijEx (w : World) (a i : Nat) : Prop where
  loc_row : ∀ id b j, w.locOf id = some (b, j) → ¬ (b = a ∧ j = i) ∧ ∃ r, (w.rowsOf b)[j]? = some r ∧ r.id = id
  row_loc : ∀ b j r, (w.rowsOf b)[j]? = some r → ¬ (b = a ∧ j = i) → w.locOf r.id = some (b, j)
  row : i < (w.rowsOf a).size

/-- the rows `(a, j)`, `k ≤ j` are orphans -/
structure BijFrom (w : World) (a k : Nat) : Prop where
  loc_row : ∀ id b j, w.locOf id = some (b, j) → ¬ (b = a ∧ k ≤ j) ∧ ∃ r, (w.rowsOf b)[j]? = some r ∧ r.id = id
  row_loc : ∀ b j r, (w.rowsOf b)[j]? = some r → ¬ (b = a ∧ k ≤ j) → w.locOf r.id = some (b, j)

structure ArchOK (w : World) : Prop where
  arch0 : 0 < w.archs.size ∧ w.typesOf 0 = []
  sorted : ∀ a, a < w.archs.size → strictSorted (w.typesOf a) = true
  inj : ∀ a b, a < w.archs.size → b < w.archs.size → w.typesOf a = w.typesOf b → a = b
  row_types : ∀ (a i : Nat) (r : Row), (w.rowsOf a)[i]? = some r → r.vals.map (·.1) = w.typesOf a

/-- `Q` lists exactly the allocated ids without a location -/
structure Free (w : World) (Q : List Nat) : Prop where
  nodup : Q.Nodup
  iff : ∀ id, id ∈ Q ↔ id < w.metas.size ∧ w.locOf id = none

/-! ### removeRow -/

theorem removeRow_eq (w : World) (a i : Nat) :
    w.removeRow a i =
      if i = (w.rowsOf a).size - 1 then w.modRows a (fun rows => rows.pop)
      else (w.modRows a (fun rows => (rows.set! i (w.rowsOf a)[(w.rowsOf a).size - 1]!).pop)).setLocIndex
            (w.rowsOf a)[(w.rowsOf a).size - 1]!.id i := rfl

theorem removeRow_rowsOf (w : World) (a i b : Nat) :
    (w.removeRow a i).rowsOf b =
      if b = a then
        (if i = (w.rowsOf a).size - 1 then (w.rowsOf a).pop
         else ((w.rowsOf a).set! i (w.rowsOf a)[(w.rowsOf a).size - 1]!).pop)
      else w.rowsOf b := by
  rw [removeRow_eq]
  by_cases ha : a < w.archs.size
  · split <;> simp [setLocIndex_eq, modRows_rowsOf, ha]
  · have h0 := rowsOf_ge w a (by omega)
    split <;> simp [setLocIndex_eq, modRows_rowsOf, ha, h0] <;> intro h <;> subst h <;> exact h0

theorem removeRow_locOf (w : World) (a i id : Nat) :
    (w.removeRow a i).locOf id =
      if i = (w.rowsOf a).size - 1 then w.locOf id
      else if id = (w.rowsOf a)[(w.rowsOf a).size - 1]!.id then (w.locOf id).map (fun l => (l.1, i))
      else w.locOf id := by
  rw [removeRow_eq]
  split
  · simp
  · rw [setLocIndex_locOf]; simp; split <;> simp_all

theorem swapRemove_get (R : Array Row) (i j : Nat) :
    (if i = R.size - 1 then R.pop else (R.set! i R[R.size - 1]!).pop)[j]? =
      if j < R.size - 1 then (if j = i then R[R.size - 1]? else R[j]?) else none := by
  split
  · subst_vars; grind
  · grind

theorem removeRow_get (w : World) (a i b j : Nat) :
    ((w.removeRow a i).rowsOf b)[j]? =
      if b = a then
        (if j < (w.rowsOf a).size - 1 then (if j = i then (w.rowsOf a)[(w.rowsOf a).size - 1]? else (w.rowsOf a)[j]?)
         else none)
      else (w.rowsOf b)[j]? := by
  rw [removeRow_rowsOf]
  split
  · rw [swapRemove_get]
  · rfl

theorem removeRow_size (w : World) (a i b : Nat) :
    ((w.removeRow a i).rowsOf b).size = if b = a then (w.rowsOf a).size - 1 else (w.rowsOf b).size := by
  rw [removeRow_rowsOf]; grind

theorem removeRow_locOf' (w : World) (a i id : Nat) (m : Row)
    (hm : (w.rowsOf a)[(w.rowsOf a).size - 1]? = some m) (hl : w.locOf m.id = some (a, (w.rowsOf a).size - 1)) :
    (w.removeRow a i).locOf id = if id = m.id then some (a, i) else w.locOf id := by
  rw [removeRow_locOf]
  have : (w.rowsOf a)[(w.rowsOf a).size - 1]! = m := by grind
  rw [this]
  by_cases h1 : i = (w.rowsOf a).size - 1
  · simp only [h1, if_true]; split
    · subst_vars; rw [hl]
    · rfl
  · simp only [h1, if_false]; split
    · subst_vars; rw [hl]; rfl
    · rfl

theorem removeRow_bij (w : World) (a i : Nat) (h : w.BijEx a i) : (w.removeRow a i).Bij := by
  obtain ⟨h1, h2, h3⟩ := h
  obtain ⟨m, hm⟩ : ∃ m, (w.rowsOf a)[(w.rowsOf a).size - 1]? = some m :=
    ⟨(w.rowsOf a)[(w.rowsOf a).size - 1], by grind⟩
  by_cases hi : i = (w.rowsOf a).size - 1
  · -- the orphan is the last row
    have hloc : ∀ id, (w.removeRow a i).locOf id = w.locOf id := by
      intro id; rw [removeRow_locOf]; simp [hi]
    constructor
    · intro id b j; rw [hloc, removeRow_get]; intro hl
      have := h1 id b j hl
      have : j < (w.rowsOf b).size := by grind
      grind
    · intro b j r; rw [hloc, removeRow_get]; grind
  · have hl := h2 a _ m hm (by omega)
    constructor
    · intro id b j; rw [removeRow_locOf' w a i id m hm hl, removeRow_get]
      intro hh
      by_cases hid : id = m.id
      · grind
      · simp only [hid, if_false] at hh
        have := h1 id b j hh
        have : j < (w.rowsOf b).size := by grind
        have : b = a → j ≠ (w.rowsOf a).size - 1 := by grind
        grind
    · intro b j r; rw [removeRow_get]; intro hh
      rw [removeRow_locOf' w a i _ m hm hl]
      grind

@[simp] theorem setLocIndex_archs (w : World) (id i) : (w.setLocIndex id i).archs = w.archs := rfl
@[simp] theorem setLoc_archs (w : World) (id l) : (w.setLoc id l).archs = w.archs := rfl
@[simp] theorem setGen_archs (w : World) (id g) : (w.setGen id g).archs = w.archs := rfl
@[simp] theorem setLoc_rowsOf (w : World) (id l a) : (w.setLoc id l).rowsOf a = w.rowsOf a := rfl
@[simp] theorem setGen_rowsOf (w : World) (id g a) : (w.setGen id g).rowsOf a = w.rowsOf a := rfl
@[simp] theorem setLoc_typesOf (w : World) (id l a) : (w.setLoc id l).typesOf a = w.typesOf a := rfl
@[simp] theorem setGen_typesOf (w : World) (id g a) : (w.setGen id g).typesOf a = w.typesOf a := rfl
@[simp] theorem setLoc_rowCount (w : World) (id l) : (w.setLoc id l).rowCount = w.rowCount := rfl
@[simp] theorem setGen_rowCount (w : World) (id g) : (w.setGen id g).rowCount = w.rowCount := rfl
@[simp] theorem setLoc_pending (w : World) (id l) : (w.setLoc id l).pending = w.pending := rfl
@[simp] theorem setGen_pending (w : World) (id g) : (w.setGen id g).pending = w.pending := rfl
@[simp] theorem setLoc_cursor (w : World) (id l) : (w.setLoc id l).cursor = w.cursor := rfl
@[simp] theorem setGen_cursor (w : World) (id g) : (w.setGen id g).cursor = w.cursor := rfl
@[simp] theorem setLoc_len (w : World) (id l) : (w.setLoc id l).len = w.len := rfl
@[simp] theorem setGen_len (w : World) (id g) : (w.setGen id g).len = w.len := rfl
@[simp] theorem setLoc_metas_size (w : World) (id l) : (w.setLoc id l).metas.size = w.metas.size := by
  simp [setLoc]
@[simp] theorem setGen_metas_size (w : World) (id g) : (w.setGen id g).metas.size = w.metas.size := by
  simp [setGen]

@[simp] theorem removeRow_archs_size (w : World) (a i) : (w.removeRow a i).archs.size = w.archs.size := by
  rw [removeRow_eq]; split <;> simp
@[simp] theorem removeRow_typesOf (w : World) (a i b) : (w.removeRow a i).typesOf b = w.typesOf b := by
  rw [removeRow_eq]; split
  · simp
  · rw [setLocIndex_eq]; simp
@[simp] theorem removeRow_metas_size (w : World) (a i) : (w.removeRow a i).metas.size = w.metas.size := by
  rw [removeRow_eq]; split
  · simp
  · rw [setLocIndex_eq]; simp
@[simp] theorem removeRow_pending (w : World) (a i) : (w.removeRow a i).pending = w.pending := by
  rw [removeRow_eq]; split <;> rfl
@[simp] theorem removeRow_cursor (w : World) (a i) : (w.removeRow a i).cursor = w.cursor := by
  rw [removeRow_eq]; split <;> rfl
@[simp] theorem removeRow_len (w : World) (a i) : (w.removeRow a i).len = w.len := by
  rw [removeRow_eq]; split <;> rfl

theorem removeRow_rowCount (w : World) (a i) (h : 0 < (w.rowsOf a).size) :
    (w.removeRow a i).rowCount + 1 = w.rowCount := by
  have ha : a < w.archs.size := by
    apply Classical.byContradiction; intro hn
    rw [rowsOf_ge w a (by omega)] at h; simp at h
  rw [removeRow_eq]; split
  · have := modRows_rowCount w a (fun rows => rows.pop) ha
    simp at this; omega
  · rw [setLocIndex_eq, modMeta_rowCount]
    have := modRows_rowCount w a (fun rows => (rows.set! i (w.rowsOf a)[(w.rowsOf a).size - 1]!).pop) ha
    simp at this ⊢; omega

theorem removeRow_locOf_none (w : World) (a i id) :
    (w.removeRow a i).locOf id = none ↔ w.locOf id = none := by
  rw [removeRow_locOf]; split
  · rfl
  · split <;> simp

theorem removeRow_free (w : World) (a i Q) (h : w.Free Q) : (w.removeRow a i).Free Q := by
  refine ⟨h.nodup, ?_⟩
  intro id; rw [removeRow_locOf_none, removeRow_metas_size]; exact h.iff id

theorem removeRow_archOK (w : World) (a i) (h : w.ArchOK) : (w.removeRow a i).ArchOK := by
  obtain ⟨h0, h1, h2, h3⟩ := h
  refine ⟨by simpa using h0, by simpa using h1, by simpa using h2, ?_⟩
  intro b j r; rw [removeRow_get, removeRow_typesOf]
  intro hh
  by_cases hb : b = a
  · subst hb; simp only [if_true] at hh
    split at hh
    · split at hh
      · exact h3 _ _ _ hh
      · exact h3 _ _ _ hh
    · cases hh
  · simp only [hb, if_false] at hh; exact h3 _ _ _ hh

/-! ### pushRow -/

theorem pushRow_eq (w : World) (a r) : w.pushRow a r = (w.modRows a (fun rows => rows.push r), (w.rowsOf a).size) := rfl

end World
end Hecs
