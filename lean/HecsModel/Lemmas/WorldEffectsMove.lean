import HecsModel.Lemmas.WorldEffectsOps
import HecsModel.Lemmas.WorldEffectsComps
/-
  Effects of `remove`, `insert`, `exchange` on `lookup`.
-/
namespace Hecs
namespace World

/-- the components of one live handle are replaced, nothing else is touched -/
theorem lookup_update {w w' : World} (hc : w.cursor = w.pending.size) (hc' : w'.cursor = w'.pending.size)
    {e : Entity} {new : List Comp} (hlive : w.genAt e.id = some e.gen)
    (hg : ∀ id, w'.genAt id = w.genAt id)
    (hv : ∀ id, w'.valsOf id = if id = e.id then some new else w.valsOf id) :
    w'.lookup e = some new ∧ ∀ e', e' ≠ e → w'.lookup e' = w.lookup e' := by
  constructor
  · exact lookup_some_of hc' (by rw [hg]; exact hlive) (by rw [hv]; simp)
  · intro e' hne
    by_cases hi : e'.id = e.id
    · have hg' : e'.gen ≠ e.gen := by
        intro hg'; apply hne; cases e; cases e'; simp_all
      have : w.genAt e'.id ≠ some e'.gen := by
        rw [hi, hlive]; intro hh; exact hg' (Option.some.inj hh).symm
      rw [lookup_none_of_gen hc this]
      exact lookup_none_of_gen hc' (by rw [hg]; exact this)
    · exact lookup_congr hc hc' (hg _) (by rw [hv, if_neg hi])

/-! ### archetype move, in-place overwrite -/

theorem move_view (w : World) (id a i tgt : Nat) (vals : List Comp) (hf : w.Flushed)
    (hloc : w.locOf id = some (a, i)) (hne : tgt ≠ a) (ht : tgt < w.archs.size) (id' : Nat) :
    ((w.place tgt id vals).removeRow a i).genAt id' = w.genAt id' ∧
    ((w.place tgt id vals).removeRow a i).valsOf id' = if id' = id then some vals else w.valsOf id' := by
  have hex := place_bijEx w tgt id vals a i ht hloc (fun e => hne e.symm) hf.good.bij
  rw [removeRow_genAt, place_genAt, removeRow_valsOf _ _ _ _ hex,
    place_valsOf _ _ _ _ _ ht (lt_of_locOf hloc) hf.good.bij.locOK]
  exact ⟨rfl, rfl⟩

@[simp] theorem setRow_genAt (w : World) (a i r id) : (w.setRow a i r).genAt id = w.genAt id := rfl

theorem setRow_valsOf (w : World) (a i : Nat) (r : Row) (id id' : Nat) (hb : w.Bij)
    (hloc : w.locOf id = some (a, i)) :
    (w.setRow a i r).valsOf id' = if id' = id then some r.vals else w.valsOf id' := by
  obtain ⟨r0, hr0, hid0⟩ := hb.loc_row _ _ _ hloc
  have hi : i < (w.rowsOf a).size := by grind
  by_cases hi' : id' = id
  · subst hi'
    rw [if_pos rfl]
    apply valsOf_of_loc (a := a) (i := i)
    · exact hloc
    · rw [setRow_get]; simp [hi]
  · rw [if_neg hi']
    apply valsOf_congr
    · rfl
    · intro b j hh
      obtain ⟨r1, hr1, hid1⟩ := hb.loc_row _ _ _ hh
      rw [setRow_get]
      grind

/-! ### remove -/

theorem getMut_eq (w : World) (e : Entity) :
    w.getMut e = if w.genAt e.id = some e.gen then w.locOf e.id else none := by
  unfold getMut genAt locOf
  cases w.metas[e.id]? with
  | none => simp
  | some m => simp

theorem filter_types_eq_self (vals : List Comp) (ts : List Nat)
    (h : (vals.map (·.1)).filter (fun t => !ts.contains t) = vals.map (·.1)) :
    vals.filter (fun c => !ts.contains c.1) = vals := by
  rw [List.filter_eq_self] at h ⊢
  intro c hc
  exact h c.1 (List.mem_map_of_mem hc)

theorem remove_spec (w : World) (e : Entity) (ts : List Nat) (h : w.Good) :
    (∀ old got, w.flush.lookup e = some old → bundleGet old ts = some got →
      (w.remove e ts).2.res = .vals got ∧ (w.remove e ts).2.dropped = [] ∧
      (w.remove e ts).1.lookup e = some (old.filter (fun c => !ts.contains c.1)) ∧
      ∀ e', e' ≠ e → (w.remove e ts).1.lookup e' = w.flush.lookup e') ∧
    (∀ old, w.flush.lookup e = some old → bundleGet old ts = none →
      w.remove e ts = (w.flush, { res := .missing })) ∧
    (w.flush.lookup e = none → w.remove e ts = (w.flush, { res := .nosuch })) := by
  have hf := flush_flushed' w h
  refine ⟨?_, ?_, ?_⟩
  · intro old got hold hgot
    obtain ⟨m, a, i, r, hm, hg, hl, hr, hrv, hrid⟩ := located_of_lookup hf hold
    have hgen : w.flush.genAt e.id = some e.gen := genAt_eq_some.2 ⟨m, hm, hg⟩
    have hloc : w.flush.locOf e.id = some (a, i) := by rw [locOf_of_meta hm, hl]
    have hgm : w.flush.getMut e = some (a, i) := by rw [getMut_eq, if_pos hgen, hloc]
    have hrow : w.flush.rowAt a i = some r := by rw [rowAt_eq]; exact hr
    have ha := lt_of_row hr
    have hs : strictSorted ((w.flush.typesOf a).filter (fun t => !ts.contains t)) = true :=
      strictSorted_filter _ _ (hf.good.arch.sorted a ha)
    obtain ⟨g1, g2, g3, g4, g5, g6⟩ := getArch_spec w.flush _ hf.good.arch hs
    subst hrv
    unfold remove
    simp only [hgm, hrow, Option.getD_some, hgot]
    generalize w.flush.getArch ((w.flush.typesOf a).filter (fun t => !ts.contains t)) = ga at *
    obtain ⟨w1, tgt⟩ := ga
    simp only at g1 g2 g3 g4 g5 g6 ⊢
    have hf1 : w1.Flushed := hf.same g1 g4
    split
    · rename_i htgt
      subst htgt
      have hself : r.vals.filter (fun c => !ts.contains c.1) = r.vals := by
        apply filter_types_eq_self
        rw [hf.good.arch.row_types _ _ _ hr, ← g3, g6 _ ha]
      rw [hself]
      refine ⟨rfl, rfl, ?_, ?_⟩
      · rw [← hold]; exact lookup_congr hf.cursor hf1.cursor (g1.genAt _) (g1.valsOf _)
      · intro e' _; exact lookup_congr hf.cursor hf1.cursor (g1.genAt _) (g1.valsOf _)
    · rename_i hne
      have hloc1 : w1.locOf e.id = some (a, i) := by rw [g1.locOf]; exact hloc
      have hfin : ((w1.place tgt e.id (r.vals.filter (fun c => !ts.contains c.1))).removeRow a i).Flushed := by
        apply move_flushed w1 e.id a i tgt _ hf1 hloc1 hne g2
        rw [g3, ← hf.good.arch.row_types a i r hr, List.filter_map]; rfl
      have hmv := move_view w1 e.id a i tgt (r.vals.filter (fun c => !ts.contains c.1)) hf1 hloc1 hne g2
      have := lookup_update (w := w.flush) hf.cursor hfin.cursor (e := e) hgen
        (fun id => by rw [(hmv id).1, g1.genAt]) (fun id => by rw [(hmv id).2, g1.valsOf])
      exact ⟨rfl, rfl, this.1, this.2⟩
  · intro old hold hgot
    obtain ⟨m, a, i, r, hm, hg, hl, hr, hrv, hrid⟩ := located_of_lookup hf hold
    have hgen : w.flush.genAt e.id = some e.gen := genAt_eq_some.2 ⟨m, hm, hg⟩
    have hloc : w.flush.locOf e.id = some (a, i) := by rw [locOf_of_meta hm, hl]
    have hgm : w.flush.getMut e = some (a, i) := by rw [getMut_eq, if_pos hgen, hloc]
    have hrow : w.flush.rowAt a i = some r := by rw [rowAt_eq]; exact hr
    subst hrv
    unfold remove
    simp only [hgm, hrow, Option.getD_some, hgot]
  · intro hnone
    have hgm : w.flush.getMut e = none := by
      rw [getMut_eq]
      split
      · rename_i hgen
        cases hl : w.flush.locOf e.id with
        | none => rfl
        | some l =>
          obtain ⟨r, _, _, hv⟩ := valsOf_isSome_of_loc hf.good.bij hl
          rw [lookup_some_of hf.cursor hgen hv] at hnone; cases hnone
      · rfl
    unfold remove
    simp only [hgm]

/-! ### insertInner -/

theorem insert_move_lookup (src : List Nat) (b vals : List Comp) (t : Nat) :
    lookupComp t (canon (b ++ vals.filter (fun c => src.contains c.1 && !(b.map (·.1)).contains c.1))) =
      if t ∈ b.map (·.1) then lookupComp t b else lookupComp t (vals.filter (fun c => src.contains c.1)) := by
  rw [lookupComp_canon, lookupComp_append,
    lookupComp_filter (fun t => src.contains t && !(b.map (·.1)).contains t),
    lookupComp_filter (fun t => src.contains t)]
  by_cases h : t ∈ b.map (·.1)
  · rw [if_pos h, if_pos h]
  · rw [if_neg h, if_neg h]
    have : (b.map (·.1)).contains t = false := by simpa using h
    simp only [this, Bool.not_false, Bool.and_true, List.contains_eq_mem, decide_eq_true_eq]

theorem insert_inplace_lookup (src : List Nat) (b vals : List Comp) (hbn : (b.map (·.1)).Nodup)
    (hty : ∀ t, t ∈ vals.map (·.1) ↔ t ∈ src ∨ t ∈ b.map (·.1)) (t : Nat) :
    lookupComp t (b.foldl (fun vs c => putComp c vs) vals) =
      if t ∈ b.map (·.1) then lookupComp t b else lookupComp t (vals.filter (fun c => src.contains c.1)) := by
  rw [lookupComp_foldl_putComp t b vals hbn, lookupComp_filter (fun t => src.contains t)]
  have h1 := hty t
  by_cases h : t ∈ b.map (·.1)
  · rw [if_pos ⟨h, h1.2 (.inr h)⟩, if_pos h]
  · rw [if_neg (fun hh => h hh.1), if_neg h]
    by_cases hs : t ∈ src
    · simp [hs]
    · have : t ∉ vals.map (·.1) := fun hm => by rcases h1.1 hm with h2 | h2 <;> contradiction
      rw [(lookupComp_eq_none t vals).2 this]; simp

theorem insertInner_spec (w : World) (e : Entity) (b : List Comp) (origin a i : Nat) (r0 : Row) (hf : w.Flushed)
    (hgen : w.genAt e.id = some e.gen) (hloc : w.locOf e.id = some (a, i))
    (hr0 : (w.rowsOf a)[i]? = some r0)
    (hsub : ∀ x, x ∈ w.typesOf origin → x ∈ w.typesOf a)
    (hso : strictSorted (w.typesOf origin) = true) (hb : (b.map (·.1)).Nodup) :
    (w.insertInner e b origin a i).2 =
      r0.vals.filter (fun c => (w.typesOf origin).contains c.1 && (b.map (·.1)).contains c.1) ∧
    ∃ new, (w.insertInner e b origin a i).1.lookup e = some new ∧
      (∀ t, lookupComp t new = if t ∈ b.map (·.1) then lookupComp t b
        else lookupComp t (r0.vals.filter (fun c => (w.typesOf origin).contains c.1))) ∧
      ∀ e', e' ≠ e → (w.insertInner e b origin a i).1.lookup e' = w.lookup e' := by
  rw [insertInner_eq]
  simp only
  have hnsrc := strictSorted_nodup _ hso
  have hinfo : strictSorted (sortNat (w.typesOf origin ++
      (b.map (·.1)).filter (fun t => !(w.typesOf origin).contains t))) = true := by
    apply sortNat_sorted
    rw [List.nodup_append]
    refine ⟨hnsrc, hb.filter _, ?_⟩
    intro x hx y hy
    simp only [List.mem_filter, Bool.not_eq_eq_eq_not,
      Bool.not_true, List.contains_eq_mem, decide_eq_false_iff_not] at hy
    grind
  obtain ⟨g1, g2, g3, g4, g5, g6⟩ := getArch_spec w _ hf.good.arch hinfo
  generalize w.getArch (sortNat (w.typesOf origin ++
      (b.map (·.1)).filter (fun t => !(w.typesOf origin).contains t))) = ga at *
  obtain ⟨w1, tgt⟩ := ga
  simp only at g1 g2 g3 g4 g5 g6 ⊢
  have hf1 : w1.Flushed := hf.same g1 g4
  have hloc1 : w1.locOf e.id = some (a, i) := by rw [g1.locOf]; exact hloc
  have hr1 : (w1.rowsOf a)[i]? = some r0 := by rw [g1.rows]; exact hr0
  have hrow : w1.rowAt a i = some r0 := by rw [rowAt_eq]; exact hr1
  rw [hrow]; simp only [Option.getD_some]
  have ha : a < w.archs.size := lt_of_row hr0
  split
  · rename_i htgt
    subst htgt
    refine ⟨rfl, b.foldl (fun vs c => putComp c vs) r0.vals, ?_⟩
    have hfin : (w1.setRow tgt i { r0 with vals := b.foldl (fun vs c => putComp c vs) r0.vals }).Flushed :=
      setRow_flushed w1 tgt i _ r0 hf1 hr1 rfl (foldl_putComp_map b r0.vals)
    have hup := lookup_update (w := w) hf.cursor hfin.cursor (e := e) hgen
      (fun id => by rw [setRow_genAt, g1.genAt])
      (fun id => by rw [setRow_valsOf _ _ _ _ e.id id hf1.good.bij hloc1, g1.valsOf])
    refine ⟨hup.1, ?_, hup.2⟩
    apply insert_inplace_lookup _ _ _ hb
    intro t
    rw [hf.good.arch.row_types _ _ _ hr0, ← g6 _ ha, g3, mem_sortNat]
    simp only [List.mem_append, List.mem_filter, Bool.not_eq_eq_eq_not, Bool.not_true,
      List.contains_eq_mem, decide_eq_false_iff_not]
    by_cases hs : t ∈ w.typesOf origin <;> simp [hs]
  · rename_i hne
    refine ⟨rfl, canon (b ++ r0.vals.filter
      (fun c => (w.typesOf origin).contains c.1 && !(b.map (·.1)).contains c.1)), ?_⟩
    have hta : r0.vals.map (·.1) = w.typesOf a := hf.good.arch.row_types a i r0 hr0
    have hfin := move_flushed w1 e.id a i tgt
      (canon (b ++ r0.vals.filter (fun c => (w.typesOf origin).contains c.1 && !(b.map (·.1)).contains c.1)))
      hf1 hloc1 hne g2 (by
        rw [g3]
        exact insert_types (w.typesOf origin) (w.typesOf a) (b.map (·.1)) r0.vals hta hso
          (hf.good.arch.sorted a ha) hb hsub b rfl)
    have hmv := move_view w1 e.id a i tgt
      (canon (b ++ r0.vals.filter (fun c => (w.typesOf origin).contains c.1 && !(b.map (·.1)).contains c.1)))
      hf1 hloc1 hne g2
    have hup := lookup_update (w := w) hf.cursor hfin.cursor (e := e) hgen
      (fun id => by rw [(hmv id).1, g1.genAt]) (fun id => by rw [(hmv id).2, g1.valsOf])
    exact ⟨hup.1, insert_move_lookup _ _ _, hup.2⟩

/-! ### insert -/

theorem get_of_lookup {w : World} (hf : w.Flushed) {e : Entity} {old : List Comp} (h : w.lookup e = some old) :
    ∃ a i r, w.get e = some (some (a, i)) ∧ w.genAt e.id = some e.gen ∧ w.locOf e.id = some (a, i) ∧
      (w.rowsOf a)[i]? = some r ∧ r.vals = old := by
  obtain ⟨m, a, i, r, hm, hg, hl, hr, hrv, _⟩ := located_of_lookup hf h
  have hgen : w.genAt e.id = some e.gen := genAt_eq_some.2 ⟨m, hm, hg⟩
  have hloc : w.locOf e.id = some (a, i) := by rw [locOf_of_meta hm, hl]
  exact ⟨a, i, r, get_located.2 ⟨hgen, hloc⟩, hgen, hloc, hr, hrv⟩

theorem get_of_lookup_none {w : World} (hf : w.Flushed) {e : Entity} (h : w.lookup e = none) :
    ¬ ∃ l, w.get e = some (some l) := by
  rintro ⟨l, hl⟩
  obtain ⟨hgen, hloc⟩ := get_located.1 hl
  obtain ⟨r, _, _, hv⟩ := valsOf_isSome_of_loc hf.good.bij hloc
  rw [lookup_some_of hf.cursor hgen hv] at h; cases h

theorem insert_spec (w : World) (e : Entity) (b : List Comp) (h : w.Good) (hb : (b.map (·.1)).Nodup) :
    (∀ old, w.flush.lookup e = some old →
      (w.insert e b).2.res = .ok ∧
      (w.insert e b).2.dropped = old.filter (fun c => (b.map (·.1)).contains c.1) ∧
      ∃ new, (w.insert e b).1.lookup e = some new ∧
        (∀ t, lookupComp t new = if t ∈ b.map (·.1) then lookupComp t b else lookupComp t old) ∧
        ∀ e', e' ≠ e → (w.insert e b).1.lookup e' = w.flush.lookup e') ∧
    (w.flush.lookup e = none → w.insert e b = (w.flush, { res := .nosuch, dropped := b })) := by
  have hf := flush_flushed' w h
  constructor
  · intro old hold
    obtain ⟨a, i, r, hget, hgen, hloc, hr, hrv⟩ := get_of_lookup hf hold
    subst hrv
    have ha := lt_of_row hr
    have hty := hf.good.arch.row_types _ _ _ hr
    obtain ⟨s1, new, s2, s3, s4⟩ := insertInner_spec w.flush e b a a i r hf hgen hloc hr (fun _ hx => hx)
      (hf.good.arch.sorted a ha) hb
    have hall : ∀ c, c ∈ r.vals → (w.flush.typesOf a).contains c.1 = true := by
      intro c hc; rw [← hty]; simpa using List.mem_map_of_mem (f := (·.1)) hc
    have hself : r.vals.filter (fun c => (w.flush.typesOf a).contains c.1) = r.vals :=
      List.filter_eq_self.2 hall
    rw [hself] at s3
    have heq : w.insert e b = ((w.flush.insertInner e b a a i).1,
        { res := .ok, dropped := (w.flush.insertInner e b a a i).2 }) := by
      simp only [insert, hget]
    rw [heq]
    refine ⟨rfl, ?_, new, s2, s3, s4⟩
    show (w.flush.insertInner e b a a i).2 = _
    rw [s1]
    apply List.filter_congr
    intro c hc; rw [hall c hc]; simp
  · intro hnone
    have := get_of_lookup_none hf hnone
    simp only [insert]
    split
    · rename_i a i hh; exact absurd ⟨(a, i), hh⟩ this
    · rfl

/-- the components after `insert`, explicitly -/
theorem insert_lookup_eq (w : World) (e : Entity) (b : List Comp) (h : w.Good) (hb : (b.map (·.1)).Nodup)
    (old : List Comp) (hold : w.flush.lookup e = some old) :
    (w.insert e b).1.lookup e = some (canon (b ++ old.filter (fun c => !(b.map (·.1)).contains c.1))) := by
  obtain ⟨_, _, new, s2, s3, _⟩ := (insert_spec w e b h hb).1 old hold
  rw [s2]; congr 1
  have hinv : (w.insert e b).1.Inv := (insert_flushed w e b h hb).inv
  have hso := lookup_sorted _ ((flush_flushed' w h).inv) e old hold
  apply comps_ext
  · exact lookup_sorted _ hinv e new s2
  · apply canon_sorted
    rw [List.map_append, List.nodup_append]
    refine ⟨hb, ((strictSorted_nodup _ hso).sublist (List.Sublist.map _ List.filter_sublist)), ?_⟩
    intro x hx y hy
    simp only [List.mem_map, List.mem_filter] at hy
    obtain ⟨c, ⟨_, hc⟩, rfl⟩ := hy
    intro hxy; subst hxy
    simp at hc; simp at hx
    obtain ⟨v, hv⟩ := hx
    exact hc _ hv
  · intro t
    rw [s3, lookupComp_canon, lookupComp_append, lookupComp_filter (fun t => !(b.map (·.1)).contains t)]
    by_cases ht : t ∈ b.map (·.1)
    · rw [if_pos ht, if_pos ht]
    · rw [if_neg ht, if_neg ht]
      have : (b.map (·.1)).contains t = false := by simpa using ht
      simp only [this, Bool.not_false, if_true]

/-! ### exchange -/

theorem exchange_spec (w : World) (e : Entity) (ts : List Nat) (b : List Comp) (h : w.Good)
    (hb : (b.map (·.1)).Nodup) :
    (∀ old got, w.flush.lookup e = some old → bundleGet old ts = some got →
      (w.exchange e ts b).2.res = .vals got ∧
      (w.exchange e ts b).2.dropped =
        (old.filter (fun c => !ts.contains c.1)).filter (fun c => (b.map (·.1)).contains c.1) ∧
      ∃ new, (w.exchange e ts b).1.lookup e = some new ∧
        (∀ t, lookupComp t new = if t ∈ b.map (·.1) then lookupComp t b
          else lookupComp t (old.filter (fun c => !ts.contains c.1))) ∧
        ∀ e', e' ≠ e → (w.exchange e ts b).1.lookup e' = w.flush.lookup e') ∧
    (∀ old, w.flush.lookup e = some old → bundleGet old ts = none →
      w.exchange e ts b = (w.flush, { res := .missing, dropped := b })) ∧
    (w.flush.lookup e = none → w.exchange e ts b = (w.flush, { res := .nosuch, dropped := b })) := by
  have hf := flush_flushed' w h
  refine ⟨?_, ?_, ?_⟩
  · intro old got hold hgot
    obtain ⟨a, i, r, hget, hgen, hloc, hr, hrv⟩ := get_of_lookup hf hold
    subst hrv
    have ha := lt_of_row hr
    have hty := hf.good.arch.row_types _ _ _ hr
    have hrow : w.flush.rowAt a i = some r := by rw [rowAt_eq]; exact hr
    have hs : strictSorted ((w.flush.typesOf a).filter (fun t => !ts.contains t)) = true :=
      strictSorted_filter _ _ (hf.good.arch.sorted a ha)
    obtain ⟨g1, g2, g3, g4, g5, g6⟩ := getArch_spec w.flush _ hf.good.arch hs
    have heq : w.exchange e ts b =
        ((((w.flush.getArch ((w.flush.typesOf a).filter (fun t => !ts.contains t))).1).insertInner e b
            (w.flush.getArch ((w.flush.typesOf a).filter (fun t => !ts.contains t))).2 a i).1,
         { res := .vals got,
           dropped := (((w.flush.getArch ((w.flush.typesOf a).filter (fun t => !ts.contains t))).1).insertInner e b
            (w.flush.getArch ((w.flush.typesOf a).filter (fun t => !ts.contains t))).2 a i).2 }) := by
      simp only [exchange, hget, hrow, Option.getD_some, hgot]
    rw [heq]
    generalize w.flush.getArch ((w.flush.typesOf a).filter (fun t => !ts.contains t)) = ga at *
    obtain ⟨w1, mid⟩ := ga
    simp only at g1 g2 g3 g4 g5 g6 ⊢
    have hf1 : w1.Flushed := hf.same g1 g4
    obtain ⟨s1, new, s2, s3, s4⟩ := insertInner_spec w1 e b mid a i r hf1 (by rw [g1.genAt]; exact hgen)
      (by rw [g1.locOf]; exact hloc) (by rw [g1.rows]; exact hr)
      (by intro x; rw [g3, g6 a ha]; intro hx; exact (List.mem_filter.1 hx).1)
      (by rw [g3]; exact hs) hb
    rw [g3] at s1 s3
    have hall : ∀ c, c ∈ r.vals →
        ((w.flush.typesOf a).filter (fun t => !ts.contains t)).contains c.1 = !ts.contains c.1 := by
      intro c hc
      have : c.1 ∈ w.flush.typesOf a := by rw [← hty]; exact List.mem_map_of_mem (f := (·.1)) hc
      rw [Bool.eq_iff_iff]; simp [this]
    have hfil : r.vals.filter (fun c => ((w.flush.typesOf a).filter (fun t => !ts.contains t)).contains c.1)
        = r.vals.filter (fun c => !ts.contains c.1) := List.filter_congr (fun c hc => hall c hc)
    rw [hfil] at s3
    refine ⟨trivial, ?_, new, s2, s3, ?_⟩
    · show (w1.insertInner e b mid a i).2 = _
      rw [s1, List.filter_filter]
      apply List.filter_congr
      intro c hc; rw [hall c hc, Bool.and_comm]
    · intro e' he'
      rw [s4 e' he']
      exact lookup_congr hf.cursor hf1.cursor (g1.genAt _) (g1.valsOf _)
  · intro old hold hgot
    obtain ⟨a, i, r, hget, hgen, hloc, hr, hrv⟩ := get_of_lookup hf hold
    subst hrv
    have hrow : w.flush.rowAt a i = some r := by rw [rowAt_eq]; exact hr
    simp only [exchange, hget, hrow, Option.getD_some, hgot]
  · intro hnone
    have := get_of_lookup_none hf hnone
    simp only [exchange]
    split
    · rename_i a i hh; exact absurd ⟨(a, i), hh⟩ this
    · rfl

end World
end Hecs
