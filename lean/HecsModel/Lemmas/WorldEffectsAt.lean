import HecsModel.Lemmas.WorldEffectsMove
/-
  Effects of `spawnAt` on `lookup`.
-/
namespace Hecs
namespace World

/-- growing the entity table by empty metas -/
theorem grow_view (w w' : World) (k : Nat) (hm : w'.metas = w.metas ++ Array.replicate k Meta.empty)
    (ha : w'.archs = w.archs) (id : Nat) :
    w'.genAt id = (if id < w.metas.size then w.genAt id else if id < w.metas.size + k then some 1 else none) ∧
    w'.locOf id = w.locOf id ∧ w'.valsOf id = w.valsOf id := by
  have hl : ∀ id, w'.locOf id = w.locOf id := by
    intro id
    simp only [locOf, hm, Array.getElem?_append, Array.getElem?_replicate]
    split
    · rfl
    · rw [Array.getElem?_eq_none (by omega)]
      split <;> simp [Meta.empty]
  refine ⟨?_, hl id, valsOf_congr (hl id) (fun a _ _ => by rw [rowsOf_of_archs ha])⟩
  simp only [genAt, hm, Array.getElem?_append, Array.getElem?_replicate]
  split
  · rfl
  · split
    · rw [if_pos (by omega)]; simp [Meta.empty]
    · rw [if_neg (by omega)]; simp

theorem allocAt_evict_view (w : World) (e : Entity) (D : List Nat) (hf : w.Allocd D) (hD : e.id ∉ D) :
    ((w.allocAt e).1.evict (w.allocAt e).2).1.genAt e.id = some e.gen ∧
    (∀ id, id ≠ e.id → ((w.allocAt e).1.evict (w.allocAt e).2).1.genAt id = w.genAt id ∨ w.genAt id = none) ∧
    (∀ id, ((w.allocAt e).1.evict (w.allocAt e).2).1.valsOf id = if id = e.id then none else w.valsOf id) ∧
    ((w.allocAt e).1.evict (w.allocAt e).2).2 = (w.valsOf e.id).getD [] := by
  unfold allocAt
  split
  · -- fresh id beyond the table
    rename_i hsz
    simp only [evict_none]
    have hnone : w.valsOf e.id = none := valsOf_none (locOf_ge w _ hsz)
    have gv := grow_view w ({ w with
          pending := w.pending ++ (List.range' w.metas.size (e.id - w.metas.size)).toArray,
          cursor := ((w.pending ++ (List.range' w.metas.size (e.id - w.metas.size)).toArray).size : Nat),
          metas := w.metas ++ Array.replicate (e.id + 1 - w.metas.size) Meta.empty,
          len := w.len + 1 } : World) (e.id + 1 - w.metas.size) rfl rfl
    refine ⟨?_, ?_, ?_, by rw [hnone]; rfl⟩
    · rw [setGen_genAt]; simp; omega
    · intro id hne
      rw [setGen_genAt, if_neg (fun hh => hne hh.1), (gv id).1]
      by_cases hlt : id < w.metas.size
      · left; rw [if_pos hlt]
      · right; exact genAt_eq_none.2 (by omega)
    · intro id
      rw [setGen_valsOf, (gv id).2.2]
      split
      · subst_vars; exact hnone
      · rfl
  · rename_i hsz
    have hlt : e.id < w.metas.size := by omega
    split
    · -- the id is in the free list
      rename_i k hk
      obtain ⟨hk1, hk2⟩ := idxOf?_some hk
      simp only [evict_none]
      have hmem : e.id ∈ w.pending.toList := by rw [← hk2]; simp
      have hnone : w.valsOf e.id = none :=
        valsOf_none ((hf.pre.free.iff _).1 (List.mem_append_right _ hmem)).2
      refine ⟨?_, ?_, ?_, by rw [hnone]; rfl⟩
      · rw [setGen_genAt]; simp [hlt]
      · intro id hne
        left; rw [setGen_genAt, if_neg (fun hh => hne hh.1)]; rfl
      · intro id
        rw [setGen_valsOf]
        split
        · subst_vars; exact hnone
        · rfl
    · -- the id is live
      rename_i hk
      rw [Array.idxOf?_eq_none_iff] at hk
      have hsome : w.locOf e.id ≠ none := by
        intro hn
        have := (hf.pre.free.iff e.id).2 ⟨hlt, hn⟩
        rcases List.mem_append.1 this with h1 | h1
        · exact hD h1
        · exact hk (by simpa using h1)
      obtain ⟨⟨a, i⟩, hl⟩ := Option.ne_none_iff_exists'.1 hsome
      simp only [hl, evict_some]
      obtain ⟨r, hr, hrid, hv⟩ := valsOf_isSome_of_loc hf.pre.bij hl
      have hlw : ∀ id', ((w.setLoc e.id none).setGen e.id e.gen).locOf id' = if id' = e.id then none else w.locOf id' := by
        intro id'; rw [setGen_locOf, setLoc_locOf]; split <;> grind
      have hex := unplace_bijEx w ((w.setLoc e.id none).setGen e.id e.gen) e.id a i hf.pre.bij hl hlw rfl
      have hv1 : ∀ id, ((w.setLoc e.id none).setGen e.id e.gen).valsOf id = if id = e.id then none else w.valsOf id := by
        intro id
        by_cases hi : id = e.id
        · subst hi; rw [if_pos rfl]; apply valsOf_none; rw [hlw]; simp
        · rw [if_neg hi]; exact valsOf_congr (by rw [hlw]; simp [hi]) (fun _ _ _ => rfl)
      refine ⟨?_, ?_, ?_, ?_⟩
      · rw [removeRow_genAt, setGen_genAt]; simp [hlt]
      · intro id hne
        left; rw [removeRow_genAt, setGen_genAt, if_neg (fun hh => hne hh.1), setLoc_genAt]
      · intro id; rw [removeRow_valsOf _ _ _ _ hex, hv1]
      · rw [hv]
        have : ((w.setLoc e.id none).setGen e.id e.gen).rowAt a i = some r := by
          rw [rowAt_eq]; exact hr
        rw [this]; rfl

theorem spawnAt_spec (w : World) (h' : Entity) (b : List Comp) (h : w.Good) (hb : (b.map (·.1)).Nodup) :
    (w.spawnAt h' b).2.res = .ok ∧
    (w.spawnAt h' b).1.lookup h' = some (canon b) ∧
    (∀ e, e.id = h'.id → e ≠ h' → (w.spawnAt h' b).1.lookup e = none) ∧
    (∀ e, e.id ≠ h'.id → (w.spawnAt h' b).1.lookup e = w.flush.lookup e) ∧
    (∀ g cs, w.flush.lookup ⟨h'.id, g⟩ = some cs → (w.spawnAt h' b).2.dropped = cs) ∧
    ((∀ g, w.flush.lookup ⟨h'.id, g⟩ = none) → (w.spawnAt h' b).2.dropped = []) := by
  have hf := flush_flushed' w h
  have hfin := spawnAt_flushed w h' b h hb
  obtain ⟨a1, a2, a3, a4⟩ := allocAt_evict_view w.flush h' [] hf.allocd (by simp)
  have h1 := allocAt_evict_allocd w.flush h' [] hf.allocd (by simp)
  have hv := fun id => spawnInner_view ((w.flush.allocAt h').1.evict (w.flush.allocAt h').2).1 h' b [] h1 hb id
  have heq : (w.spawnAt h' b).1 = ((w.flush.allocAt h').1.evict (w.flush.allocAt h').2).1.spawnInner h' b := rfl
  have hd : (w.spawnAt h' b).2.dropped = ((w.flush.allocAt h').1.evict (w.flush.allocAt h').2).2 := rfl
  refine ⟨rfl, ?_, ?_, ?_, ?_, ?_⟩
  · apply lookup_some_of hfin.cursor
    · rw [heq, (hv _).1, a1]
    · rw [heq, (hv _).2]; simp
  · intro e hid hne
    have hg : e.gen ≠ h'.gen := by
      intro hg; apply hne; cases e; cases h'; simp_all
    apply lookup_none_of_gen hfin.cursor
    rw [heq, (hv _).1, hid, a1]
    intro hh; exact hg (Option.some.inj hh).symm
  · intro e hid
    rcases a2 e.id hid with hg | hn
    · apply lookup_congr hf.cursor hfin.cursor
      · rw [heq, (hv _).1, hg]
      · rw [heq, (hv _).2, if_neg hid, a3, if_neg hid]
    · have hn' : w.flush.valsOf e.id = none := valsOf_none (locOf_ge _ _ (genAt_eq_none.1 hn))
      rw [lookup_none_of_vals hf.cursor hn']
      apply lookup_none_of_vals hfin.cursor
      rw [heq, (hv _).2, if_neg hid, a3, if_neg hid, hn']
  · intro g cs hl
    rw [hd, a4]
    rw [lookup_flushed _ hf.cursor] at hl
    split at hl
    · simp only at hl; rw [hl]; rfl
    · cases hl
  · intro hall
    rw [hd, a4]
    cases hvv : w.flush.valsOf h'.id with
    | none => rfl
    | some cs =>
      exfalso
      have hloc : (w.flush.locOf h'.id).isSome := by
        cases hl : w.flush.locOf h'.id with
        | none => rw [valsOf_none hl] at hvv; cases hvv
        | some l => rfl
      obtain ⟨l, hl⟩ := Option.isSome_iff_exists.1 hloc
      have hlt := lt_of_locOf hl
      have hg : w.flush.genAt h'.id = some w.flush.metas[h'.id].gen :=
        genAt_eq_some.2 ⟨_, by simp [hlt], rfl⟩
      have := hall w.flush.metas[h'.id].gen
      rw [lookup_some_of hf.cursor (e := ⟨h'.id, w.flush.metas[h'.id].gen⟩) hg hvv] at this
      cases this

end World
end Hecs
