import HecsModel.Model.Containers
import HecsModel.Lemmas.SortLemmas
/-
  Helper lemmas for the column-batch builder model (`BatchB`), used by `Props/C12`.
-/
namespace Hecs.BatchLemmas
open Hecs

/-! ### sorting and deduplication -/

theorem insertNat_pairwise_le (c : Nat) (l : List Nat) (hl : l.Pairwise (· ≤ ·)) :
    (insertNat c l).Pairwise (· ≤ ·) := by
  induction l with
  | nil => simp [insertNat]
  | cons d ds ih =>
    simp only [insertNat]
    rw [List.pairwise_cons] at hl
    split
    · rw [List.pairwise_cons]
      refine ⟨?_, List.pairwise_cons.2 hl⟩
      intro x hx
      rcases List.mem_cons.1 hx with rfl | hx
      · omega
      · have := hl.1 x hx; omega
    · rw [List.pairwise_cons]
      refine ⟨?_, ih hl.2⟩
      intro x hx
      rcases (mem_insertNat c x ds).1 hx with rfl | hx
      · omega
      · exact hl.1 x hx

theorem sortNat_pairwise_le (l : List Nat) : (sortNat l).Pairwise (· ≤ ·) := by
  induction l with
  | nil => simp [sortNat]
  | cons c cs ih => exact insertNat_pairwise_le c _ ih

theorem mem_dedupSorted (x : Nat) (l : List Nat) : x ∈ BatchB.dedupSorted l ↔ x ∈ l := by
  induction l with
  | nil => simp [BatchB.dedupSorted]
  | cons a l ih =>
    cases l with
    | nil => simp [BatchB.dedupSorted]
    | cons b r =>
      simp only [BatchB.dedupSorted]
      split
      · rename_i h; subst h; rw [ih]; simp
      · simp only [List.mem_cons] at ih ⊢; rw [ih]

theorem dedupSorted_pairwise_lt (l : List Nat) (hl : l.Pairwise (· ≤ ·)) :
    (BatchB.dedupSorted l).Pairwise (· < ·) := by
  induction l with
  | nil => simp [BatchB.dedupSorted]
  | cons a l ih =>
    cases l with
    | nil => simp [BatchB.dedupSorted]
    | cons b r =>
      rw [List.pairwise_cons] at hl
      simp only [BatchB.dedupSorted]
      split
      · exact ih hl.2
      · rename_i hab
        rw [List.pairwise_cons]
        refine ⟨?_, ih hl.2⟩
        intro x hx
        rw [mem_dedupSorted] at hx
        have h1 := hl.1 b (by simp)
        have h2 := hl.2
        rw [List.pairwise_cons] at h2
        rcases List.mem_cons.1 hx with rfl | hx
        · omega
        · have := h2.1 x hx; omega

theorem dedupSorted_sortNat_sorted (l : List Nat) :
    strictSorted (BatchB.dedupSorted (sortNat l)) = true := by
  rw [strictSorted_iff]
  exact dedupSorted_pairwise_lt _ (sortNat_pairwise_le l)

theorem mem_dedupSorted_sortNat (x : Nat) (l : List Nat) :
    x ∈ BatchB.dedupSorted (sortNat l) ↔ x ∈ l := by
  rw [mem_dedupSorted, mem_sortNat]

/-! ### columns keyed by distinct types -/

/-- the column update performed by `push` -/
def upd (t : Nat) (acc : List Nat) (c : Nat × List Nat) : Nat × List Nat :=
  if c.1 == t then (c.1, c.2 ++ acc) else c

theorem upd_fst (t : Nat) (acc : List Nat) (c : Nat × List Nat) : (upd t acc c).1 = c.1 := by
  unfold upd; split <;> rfl

theorem map_upd_keys (t : Nat) (acc : List Nat) (cols : List (Nat × List Nat)) :
    (cols.map (upd t acc)).map (·.1) = cols.map (·.1) := by
  induction cols with
  | nil => rfl
  | cons c cs ih => simp [upd_fst, ih]

theorem map_upd_of_not_mem (t : Nat) (acc : List Nat) (cols : List (Nat × List Nat))
    (h : t ∉ cols.map (·.1)) : cols.map (upd t acc) = cols := by
  induction cols with
  | nil => rfl
  | cons c cs ih =>
    simp only [List.map_cons, List.mem_cons, not_or] at h
    simp only [List.map_cons, ih h.2]
    congr 1
    unfold upd
    have : ¬ c.1 = t := fun e => h.1 e.symm
    simp [this]

theorem map_upd_upd (t : Nat) (a₁ a₂ : List Nat) (cols : List (Nat × List Nat)) :
    (cols.map (upd t a₁)).map (upd t a₂) = cols.map (upd t (a₁ ++ a₂)) := by
  induction cols with
  | nil => rfl
  | cons c cs ih =>
    simp only [List.map_cons, ih]
    congr 1
    unfold upd
    by_cases h : c.1 = t <;> simp [h]

theorem find_of_mem (cols : List (Nat × List Nat)) (hn : (cols.map (·.1)).Nodup)
    (c : Nat × List Nat) (hc : c ∈ cols) : cols.find? (·.1 == c.1) = some c := by
  induction cols with
  | nil => simp at hc
  | cons d ds ih =>
    simp only [List.map_cons, List.nodup_cons] at hn
    rcases List.mem_cons.1 hc with rfl | hc
    · simp
    · have : ¬ d.1 = c.1 := by
        intro e; apply hn.1; rw [e]; exact List.mem_map_of_mem hc
      simp [this, ih hn.2 hc]

theorem find_some_of_key_mem (cols : List (Nat × List Nat)) (t : Nat) (h : t ∈ cols.map (·.1)) :
    ∃ c, c ∈ cols ∧ c.1 = t ∧ cols.find? (·.1 == t) = some c := by
  induction cols with
  | nil => simp at h
  | cons d ds ih =>
    by_cases e : d.1 = t
    · exact ⟨d, by simp, e, by simp [e]⟩
    · simp only [List.map_cons, List.mem_cons] at h
      rcases h with h | h
      · exact absurd h.symm e
      · obtain ⟨c, hc, hct, hf⟩ := ih h
        exact ⟨c, List.mem_cons_of_mem _ hc, hct, by simp [e, hf]⟩

theorem find_map_upd_same (t : Nat) (acc : List Nat) (cols : List (Nat × List Nat)) :
    (cols.map (upd t acc)).find? (·.1 == t) =
      (cols.find? (·.1 == t)).map (fun c => (c.1, c.2 ++ acc)) := by
  induction cols with
  | nil => rfl
  | cons d ds ih =>
    by_cases e : d.1 = t
    · simp [upd, e]
    · simp [upd, e, ih]

theorem find_map_upd_other (t t' : Nat) (ht : t' ≠ t) (acc : List Nat)
    (cols : List (Nat × List Nat)) :
    (cols.map (upd t acc)).find? (·.1 == t') = cols.find? (·.1 == t') := by
  induction cols with
  | nil => rfl
  | cons d ds ih =>
    by_cases e : d.1 = t
    · subst e
      have h' : (d.1 == t') = false := by
        simp only [beq_eq_false_iff_ne, ne_eq]; omega
      simp [upd, ih, h']
    · simp [List.find?_cons, upd, e, ih]

/-- everything stored in a list of columns, tagged by column type -/
def flat (cols : List (Nat × List Nat)) : List Comp :=
  cols.flatMap (fun c => c.2.map (fun v => (c.1, v)))

theorem flat_map_upd_perm (t : Nat) (acc : List Nat) (cols : List (Nat × List Nat))
    (hn : (cols.map (·.1)).Nodup) (ht : t ∈ cols.map (·.1)) :
    (flat (cols.map (upd t acc))).Perm (flat cols ++ acc.map (fun v => (t, v))) := by
  induction cols with
  | nil => simp at ht
  | cons c cs ih =>
    simp only [List.map_cons, List.nodup_cons] at hn
    by_cases e : c.1 = t
    · have hnot : t ∉ cs.map (·.1) := e ▸ hn.1
      rw [List.map_cons, map_upd_of_not_mem t acc cs hnot]
      simp only [flat, List.flatMap_cons, upd, e, beq_self_eq_true, if_true, List.map_append,
        List.append_assoc]
      exact List.Perm.append_left _ List.perm_append_comm
    · have ht' : t ∈ cs.map (·.1) := by
        simp only [List.map_cons, List.mem_cons] at ht
        rcases ht with h | h
        · exact absurd h.symm e
        · exact h
      have := ih hn.2 ht'
      simp only [flat, List.map_cons, List.flatMap_cons, upd, e, beq_iff_eq, if_false,
        List.append_assoc] at this ⊢
      exact List.Perm.append_left _ this

/-! ### rows of a complete batch (transpose) -/

theorem range_map_getD (l : List Nat) (d : Nat) :
    (List.range l.length).map (fun i => l.getD i d) = l := by
  apply List.ext_getElem
  · simp
  · intro i h1 h2
    simp at h1
    simp [List.getD, h1]

theorem flatten_map_cons_perm {α β : Type} [DecidableEq β] (l : List α) (a : α → β)
    (r : α → List β) :
    ((l.map (fun i => a i :: r i)).flatten).Perm (l.map a ++ (l.map r).flatten) := by
  induction l with
  | nil => simp
  | cons x xs ih =>
    simp only [List.map_cons, List.flatten_cons, List.cons_append]
    refine List.Perm.cons _ ?_
    refine (List.Perm.append_left _ ih).trans ?_
    rw [← List.append_assoc, ← List.append_assoc]
    exact List.Perm.append_right _ List.perm_append_comm

/-- transposing a rectangular block of columns permutes its contents -/
theorem transpose_perm (n : Nat) (cols : List (Nat × List Nat))
    (hc : ∀ c ∈ cols, c.2.length = n) :
    (((List.range n).map (fun i => cols.map (fun c => ((c.1, c.2.getD i 0) : Comp)))).flatten).Perm
      (flat cols) := by
  induction cols with
  | nil =>
    simp only [List.map_nil, flat, List.flatMap_nil]
    have : ∀ m, ((List.range m).map (fun _ => ([] : List Comp))).flatten = [] := by
      intro m; simp
    rw [this]
  | cons c cs ih =>
    have hlen : c.2.length = n := hc c (by simp)
    have ih' := ih (fun d hd => hc d (List.mem_cons_of_mem _ hd))
    simp only [List.map_cons]
    refine (flatten_map_cons_perm (List.range n) (fun i => ((c.1, c.2.getD i 0) : Comp))
      (fun i => cs.map (fun c => ((c.1, c.2.getD i 0) : Comp)))).trans ?_
    have h1 : (List.range n).map (fun i => ((c.1, c.2.getD i 0) : Comp)) =
        c.2.map (fun v => (c.1, v)) := by
      conv => rhs; rw [← range_map_getD c.2 0]
      rw [List.map_map, hlen]; rfl
    rw [h1]
    simp only [flat, List.flatMap_cons]
    exact List.Perm.append_left _ ih'

theorem lookupComp_map_of_mem (cols : List (Nat × List Nat)) (f : Nat × List Nat → Nat)
    (hn : (cols.map (·.1)).Nodup) (c : Nat × List Nat) (hc : c ∈ cols) :
    lookupComp c.1 (cols.map (fun d => ((d.1, f d) : Comp))) = some (f c) := by
  induction cols with
  | nil => simp at hc
  | cons d ds ih =>
    simp only [List.map_cons, List.nodup_cons] at hn
    rcases List.mem_cons.1 hc with rfl | hc
    · simp [lookupComp]
    · have : ¬ d.1 = c.1 := by
        intro e; apply hn.1; rw [e]; exact List.mem_map_of_mem hc
      simp [lookupComp, this, ih hn.2 hc]

end Hecs.BatchLemmas
