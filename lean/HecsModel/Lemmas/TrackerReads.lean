import HecsModel.Lemmas.TrackerOps
/-
  C18 (ChangeTracker), part 3: the three reads (`doAdded`, `doChanged`, `doRemoved`): what they report
  and what they do to the world, in terms of the observation `comp`.
-/
namespace Hecs.TrackerLemmas
open Hecs Hecs.World Hecs.Tracker

/-- `e` has a `t` value `v` and no snapshot -/
def IsAdded (t p : Nat) (w : World) (e : Entity) (v : Nat) : Prop :=
  comp w e t = some v ∧ comp w e p = none

/-- `e` has `t = new`, snapshot `old`, and they differ -/
def IsChanged (t p : Nat) (w : World) (e : Entity) (old new : Nat) : Prop :=
  comp w e t = some new ∧ comp w e p = some old ∧ new ≠ old

/-- `e` has a snapshot `old` and no `t` -/
def IsRemoved (t p : Nat) (w : World) (e : Entity) (old : Nat) : Prop :=
  comp w e p = some old ∧ comp w e t = none

/-- what the insertion of the snapshots for the added entities does to the snapshot value -/
def gA : Option Nat → Option Nat → Option Nat
  | tv, none => tv
  | _, some o => some o

/-- what `doChanged` does to the snapshot value -/
def gC : Option Nat → Option Nat → Option Nat
  | some n, some _ => some n
  | _, pv => pv

/-- what `doRemoved` does to the snapshot value -/
def gR : Option Nat → Option Nat → Option Nat
  | none, _ => none
  | some _, pv => pv

/-! ### `doAdded` -/

theorem doAdded_world (t p : Nat) (s : CSt) : (doAdded t p s).1.w = s.w := rfl

theorem doAdded_state (t p : Nat) (s : CSt) :
    (doAdded t p s).1 = { s with addedFlag := true, addedComponents := (doAdded t p s).2 } := rfl

theorem mem_doAdded (t p : Nat) (s : CSt) (hw : s.w.Inv) (e : Entity) (v : Nat) :
    (e, v) ∈ (doAdded t p s).2 ↔ IsAdded t p s.w e v :=
  mem_added_query s.w hw.core t p e v

/-! ### `doChanged` -/

theorem doChanged_state (t p : Nat) (s : CSt) :
    (doChanged t p s).1 = { s with w := (doChanged t p s).1.w, changedFlag := true } := rfl

theorem doChanged_world (t p : Nat) (s : CSt) :
    (doChanged t p s).1.w = (doChanged t p s).2.foldl (fun w x => setVal w x.1 p x.2.2) s.w := rfl

theorem mem_doChanged (t p : Nat) (s : CSt) (hw : s.w.Inv) (e : Entity) (o n : Nat) :
    (e, o, n) ∈ (doChanged t p s).2 ↔ IsChanged t p s.w e o n := by
  simp only [doChanged, List.mem_filterMap]
  constructor
  · rintro ⟨⟨e', it⟩, hm, hf⟩
    obtain ⟨n', o', h1, h2, rfl⟩ := (mem_changed_query s.w hw.core t p e' it).1 hm
    simp only at hf
    split at hf
    · rename_i hne
      simp only [Option.some.injEq, Prod.mk.injEq] at hf
      obtain ⟨rfl, rfl, rfl⟩ := hf
      exact ⟨h1, h2, by simpa using hne⟩
    · cases hf
  · rintro ⟨h1, h2, h3⟩
    refine ⟨(e, .pair (.val t n) (.pair (.val p o) .unit)), ?_, ?_⟩
    · exact (mem_changed_query s.w hw.core t p e _).2 ⟨n, o, h1, h2, rfl⟩
    · simp [h3]

/-- effect of `doChanged` on the world: same handles, same liveness, only `p` values change, and `p`
becomes `t`'s value wherever both exist -/
theorem doChanged_effect (t p : Nat) (s : CSt) (hw : s.w.Inv) :
    (doChanged t p s).1.w.Inv ∧
    (∀ e, (doChanged t p s).1.w.isLive e = s.w.isLive e) ∧
    (∀ e, ex (doChanged t p s).1.w e = ex s.w e) ∧
    (∀ e c, c ≠ p → comp (doChanged t p s).1.w e c = comp s.w e c) ∧
    (∀ e, comp (doChanged t p s).1.w e p = gC (comp s.w e t) (comp s.w e p)) := by
  have hmem := mem_doChanged t p s hw
  obtain ⟨h1, h2, h3⟩ := foldl_setVal_spec p (fun e => (comp s.w e t).getD 0) (doChanged t p s).2 s.w hw
    (by
      rintro ⟨e, o, n⟩ hx
      exact isLive_of_comp ((hmem e o n).1 hx).1)
    (by
      rintro ⟨e, o, n⟩ hx
      simp [((hmem e o n).1 hx).1])
  rw [doChanged_world]
  refine ⟨h1, h2, ?_, ?_, ?_⟩
  · intro e
    unfold TrackerLemmas.ex
    rw [h3]
    split
    · cases s.w.lookup e <;> rfl
    · rfl
  · intro e c hc
    unfold TrackerLemmas.comp
    rw [h3]
    split
    · cases s.w.lookup e with
      | none => rfl
      | some cs =>
        simp only [Option.map_some, Option.bind_some]
        rw [lookupComp_putComp]
        simp [hc]
    · rfl
  · intro e
    by_cases hin : e ∈ (doChanged t p s).2.map (·.1)
    · obtain ⟨⟨e', o, n⟩, hx, rfl⟩ := List.mem_map.1 hin
      obtain ⟨c1, c2, _⟩ := (hmem e' o n).1 hx
      obtain ⟨cs, hl, hp⟩ := comp_eq_some.1 c2
      have : comp (List.foldl (fun w x => setVal w x.1 p x.2.2) s.w (doChanged t p s).2) e' p = some n := by
        unfold TrackerLemmas.comp
        rw [h3, if_pos hin, hl]
        simp only [Option.map_some, Option.bind_some]
        rw [lookupComp_putComp]
        have hpm : p ∈ cs.map (·.1) := (lookupComp_isSome p cs).1 (by rw [hp]; rfl)
        simp [hpm, c1]
      rw [this, c1, c2]; rfl
    · have : comp (List.foldl (fun w x => setVal w x.1 p x.2.2) s.w (doChanged t p s).2) e p = comp s.w e p := by
        unfold TrackerLemmas.comp
        rw [h3, if_neg hin]
      rw [this]
      cases ht : comp s.w e t with
      | none => rfl
      | some n =>
        cases hp : comp s.w e p with
        | none => rfl
        | some o =>
          by_cases hno : n = o
          · subst hno; rfl
          · exfalso
            apply hin
            exact List.mem_map.2 ⟨(e, o, n), (hmem e o n).2 ⟨ht, hp, hno⟩, rfl⟩

theorem doChanged_onlyP (t p : Nat) (s : CSt) (hw : s.w.Inv) : OnlyP p s.w (doChanged t p s).1.w := by
  obtain ⟨_, h2, h3, h4, _⟩ := doChanged_effect t p s hw
  exact ⟨h3, fun e h => by rw [h2]; exact h, h4⟩

/-! ### `doRemoved` -/

theorem doRemoved_state (t p : Nat) (s : CSt) :
    (doRemoved t p s).1 = { s with w := (doRemoved t p s).1.w, removedFlag := true } := rfl

theorem mem_doRemoved (t p : Nat) (s : CSt) (hw : s.w.Inv) (e : Entity) (o : Nat) :
    (e, o) ∈ (doRemoved t p s).2 ↔ IsRemoved t p s.w e o := by
  rw [doRemoved_eq]
  obtain ⟨_, _, _, _, h5⟩ := foldl_remStep_spec p
    ((s.w.queryIter (.without (.with_ .unit (.read p)) (.read t))).map (·.1)) s.w hw []
  simp only
  rw [h5, mem_removed_query s.w hw.core]
  simp only [List.not_mem_nil, false_or, IsRemoved]
  constructor
  · rintro ⟨⟨_, h2⟩, h3⟩; exact ⟨h3, h2⟩
  · rintro ⟨h1, h2⟩; exact ⟨⟨by rw [h1]; rfl, h2⟩, h1⟩

/-- effect of `doRemoved` on the world: same handles, live handles stay live (the `remove` calls
flush), only `p` values change: `p` disappears exactly where there is no `t` -/
theorem doRemoved_effect (t p : Nat) (s : CSt) (hw : s.w.Inv) :
    (doRemoved t p s).1.w.Inv ∧
    OnlyP p s.w (doRemoved t p s).1.w ∧
    (∀ e, comp (doRemoved t p s).1.w e p = gR (comp s.w e t) (comp s.w e p)) := by
  rw [doRemoved_eq]
  obtain ⟨h1, h2, h3, h4, _⟩ := foldl_remStep_spec p
    ((s.w.queryIter (.without (.with_ .unit (.read p)) (.read t))).map (·.1)) s.w hw []
  simp only
  refine ⟨h1, ⟨h2, h3, ?_⟩, ?_⟩
  · intro e c hc
    rw [h4]; simp [hc]
  · intro e
    rw [h4]
    have hq := mem_removed_query s.w hw.core t p e
    cases ht : comp s.w e t with
    | none =>
      cases hp : comp s.w e p with
      | none => simp [gR]
      | some o => rw [if_pos ⟨hq.2 ⟨by rw [hp]; rfl, ht⟩, rfl⟩]; rfl
    | some n =>
      rw [if_neg (fun h => by have := (hq.1 h.1).2; rw [ht] at this; cases this)]; rfl

end Hecs.TrackerLemmas
