import HecsModel.Model.World
/-
  Representation invariant of the world model (DESIGN §5.C01, I1–I6) and its preservation.
-/
namespace Hecs
namespace World

/-- I1/I2/I5/I6: locations and rows are mutually inverse; archetypes are well formed. -/
structure Core (w : World) : Prop where
  loc_row : ∀ id a i, w.locOf id = some (a, i) → ∃ r, w.rowAt a i = some r ∧ r.id = id
  row_loc : ∀ a i r, w.rowAt a i = some r → w.locOf r.id = some (a, i)
  arch0 : ∃ ar, w.archs[0]? = some ar ∧ ar.types = []
  types_sorted : ∀ (a : Nat) (ar : Arch), w.archs[a]? = some ar → strictSorted ar.types = true
  types_inj : ∀ (a b : Nat) (ar br : Arch), w.archs[a]? = some ar → w.archs[b]? = some br → ar.types = br.types → a = b
  row_types : ∀ (a : Nat) (ar : Arch) (i : Nat) (r : Row), w.archs[a]? = some ar → ar.rows[i]? = some r → r.vals.map (·.1) = ar.types

/-- I3/I4: free list, cursor and live count move in step. -/
structure Book (w : World) : Prop where
  pending_nodup : w.pending.toList.Nodup
  pending_iff : ∀ id, id ∈ w.pending.toList ↔ (id < w.metas.size ∧ w.locOf id = none)
  cursor_le : w.cursor ≤ w.pending.size
  len_rows : w.len = (w.archs.toList.map (·.rows.size)).sum
  len_meta : w.len + w.pending.size = w.metas.size

structure Inv (w : World) : Prop where
  core : w.Core
  book : w.Book

private theorem new_arch (a : Nat) (ar : Arch) (h : World.new.archs[a]? = some ar) :
    a = 0 ∧ ar = ⟨[], #[]⟩ := by
  rcases a with _ | a
  · simp [World.new] at h; exact ⟨rfl, h.symm⟩
  · simp [World.new] at h

theorem inv_new : World.new.Inv := by
  refine ⟨⟨?_, ?_, ?_, ?_, ?_, ?_⟩, ⟨?_, ?_, ?_, ?_, ?_⟩⟩
  · intro id a i h; simp [World.new, locOf] at h
  · intro a i r h
    simp only [rowAt] at h
    cases ha : World.new.archs[a]? with
    | none => simp [ha] at h
    | some ar =>
      obtain ⟨_, rfl⟩ := new_arch a ar ha
      simp [ha] at h
  · exact ⟨⟨[], #[]⟩, by simp [World.new], rfl⟩
  · intro a ar h; obtain ⟨_, rfl⟩ := new_arch a ar h; rfl
  · intro a b ar br ha hb _
    have := (new_arch a ar ha).1; have := (new_arch b br hb).1; omega
  · intro a ar i r ha hr; obtain ⟨_, rfl⟩ := new_arch a ar ha; simp at hr
  · simp [World.new]
  · intro id; simp [World.new, locOf]
  · simp [World.new]
  · simp [World.new]
  · simp [World.new]

end World
end Hecs
