import HecsModel.Lemmas.WorldInvPlace
/-
  `flush` preserves the invariant and leaves nothing reserved.
-/
namespace Hecs
namespace World

/-- the part of the invariant that does not mention `pending`, `cursor`, `len`: `Q` is the list of
allocated ids without a location -/
structure Pre (w : World) (Q : List Nat) : Prop where
  bij : w.Bij
  arch : w.ArchOK
  free : w.Free Q
  count : w.rowCount + Q.length = w.metas.size

theorem Pre.of_eq {w w' : World} {Q} (hm : w'.metas = w.metas) (ha : w'.archs = w.archs) (h : w.Pre Q) :
    w'.Pre Q := by
  obtain ⟨m, p, c, l, a⟩ := w
  obtain ⟨m', p', c', l', a'⟩ := w'
  simp only at hm ha; subst hm; subst ha
  exact ⟨⟨h.bij.1, h.bij.2⟩, ⟨h.arch.1, h.arch.2, h.arch.3, h.arch.4⟩, ⟨h.free.1, h.free.2⟩, h.count⟩

theorem Good.pre {w : World} (h : w.Good) : w.Pre w.pending.toList :=
  ⟨h.bij, h.arch, h.free, by simpa using h.count⟩

theorem Pre.good {w : World} (h : w.Pre w.pending.toList) (hc : w.cursor ≤ w.pending.size)
    (hl : w.len = w.rowCount) : w.Good :=
  ⟨h.bij, h.arch, h.free, hc, hl, by simpa using h.count⟩

/-! ### flushPendingOne -/

theorem flushPendingOne_eq (w : World) (id : Nat) : w.flushPendingOne id = w.place 0 id [] := rfl

theorem place_pre (w : World) (a id vals pre post) (ha : a < w.archs.size)
    (hv : vals.map (·.1) = w.typesOf a) (h : w.Pre (pre ++ id :: post)) :
    (w.place a id vals).Pre (pre ++ post) := by
  have hid := (h.free.iff id).1 (by simp)
  refine ⟨place_bij w a id vals ha hid.1 hid.2 h.bij, place_archOK w a id vals ha hv h.arch,
    place_free w a id vals pre post hid.1 h.free, ?_⟩
  rw [place_rowCount _ _ _ _ ha, place_metas_size]
  have := h.count; simp at this ⊢; omega

theorem flushPending_pre (ids : List Nat) (w : World) (pre : List Nat) (h : w.Pre (pre ++ ids)) :
    (flushPending ids w).Pre pre ∧ (flushPending ids w).rowCount = w.rowCount + ids.length ∧
    (flushPending ids w).pending = w.pending ∧ (flushPending ids w).len = w.len ∧
    (flushPending ids w).cursor = w.cursor := by
  induction ids generalizing w with
  | nil => exact ⟨by simpa [flushPending] using h, by simp [flushPending], rfl, rfl, rfl⟩
  | cons id ids ih =>
    have h0 := h.arch.arch0
    have hp := place_pre w 0 id [] pre ids h0.1 (by simp [h0.2]) h
    obtain ⟨i1, i2, i3, i4, i5⟩ := ih (w.place 0 id []) hp
    refine ⟨i1, ?_, i3, i4, i5⟩
    show (flushPending ids (w.place 0 id [])).rowCount = _
    rw [i2, place_rowCount _ _ _ _ h0.1]; simp; omega

/-! ### flushFreshOne -/

theorem flushFreshOne_eq (w : World) :
    w.flushFreshOne =
      { w.modRows 0 (fun rows => rows.push ⟨w.metas.size, []⟩) with
        metas := w.metas.push ⟨1, some (0, (w.rowsOf 0).size)⟩ } := rfl

theorem flushFreshOne_locOf (w : World) (id : Nat) :
    w.flushFreshOne.locOf id = if id = w.metas.size then some (0, (w.rowsOf 0).size) else w.locOf id := by
  rw [flushFreshOne_eq]; simp only [locOf, Array.getElem?_push]
  split <;> simp

theorem flushFreshOne_get (w : World) (b j : Nat) (h0 : 0 < w.archs.size) :
    (w.flushFreshOne.rowsOf b)[j]? =
      if b = 0 then (if j = (w.rowsOf 0).size then some ⟨w.metas.size, []⟩ else (w.rowsOf 0)[j]?)
      else (w.rowsOf b)[j]? := by
  have : w.flushFreshOne.rowsOf b = (w.modRows 0 (fun rows => rows.push ⟨w.metas.size, []⟩)).rowsOf b := rfl
  rw [this, modRows_rowsOf]
  by_cases hb : b = 0
  · subst hb; simp [h0, Array.getElem?_push]
  · simp [hb]

theorem flushFreshOne_pre (w : World) (Q) (h : w.Pre Q) :
    w.flushFreshOne.Pre Q ∧ w.flushFreshOne.rowCount = w.rowCount + 1 ∧
    w.flushFreshOne.pending = w.pending ∧ w.flushFreshOne.len = w.len ∧
    w.flushFreshOne.cursor = w.cursor := by
  have h0 := h.arch.arch0
  have hty : ∀ b, w.flushFreshOne.typesOf b = w.typesOf b := by
    intro b
    show (w.modRows 0 (fun rows => rows.push ⟨w.metas.size, []⟩)).typesOf b = _
    simp
  have hsz : w.flushFreshOne.archs.size = w.archs.size := by
    show (w.modRows 0 (fun rows => rows.push ⟨w.metas.size, []⟩)).archs.size = _
    simp
  have hms : w.flushFreshOne.metas.size = w.metas.size + 1 := by
    rw [flushFreshOne_eq]; simp
  have hrc : w.flushFreshOne.rowCount = w.rowCount + 1 := by
    show (w.modRows 0 (fun rows => rows.push ⟨w.metas.size, []⟩)).rowCount = _
    have := modRows_rowCount w 0 (fun rows => rows.push ⟨w.metas.size, []⟩) h0.1
    simp at this; omega
  refine ⟨⟨⟨?_, ?_⟩, ⟨?_, ?_, ?_, ?_⟩, ⟨h.free.nodup, ?_⟩, ?_⟩, hrc, rfl, rfl, rfl⟩
  · intro id b j; rw [flushFreshOne_locOf, flushFreshOne_get _ _ _ h0.1]
    intro hh
    by_cases hi : id = w.metas.size
    · subst hi; simp only [if_true, Option.some.injEq, Prod.mk.injEq] at hh
      obtain ⟨rfl, rfl⟩ := hh; exact ⟨⟨_, []⟩, by simp, rfl⟩
    · simp only [hi, if_false] at hh
      have := h.bij.loc_row id b j hh
      grind
  · intro b j r; rw [flushFreshOne_get _ _ _ h0.1, flushFreshOne_locOf]
    have h2 := h.bij.row_loc
    have h3 : ∀ id l, w.locOf id = some l → id < w.metas.size := fun id l => lt_of_locOf
    grind
  · rw [hsz, hty]; exact h0
  · intro a; rw [hsz, hty]; exact h.arch.sorted a
  · intro a b; rw [hsz, hty, hty]; exact h.arch.inj a b
  · intro b j r; rw [flushFreshOne_get _ _ _ h0.1, hty]
    intro hh
    by_cases hb : b = 0
    · subst hb; simp only [if_true] at hh
      split at hh
      · cases hh; simp [h0.2]
      · exact h.arch.row_types _ _ _ hh
    · simp only [hb, if_false] at hh; exact h.arch.row_types _ _ _ hh
  · intro id; rw [flushFreshOne_locOf, hms]
    have := h.free.iff id
    have := locOf_ge w id
    grind
  · rw [hrc, hms]; have := h.count; omega

theorem flushFresh_pre (n : Nat) (w : World) (Q) (h : w.Pre Q) :
    (flushFresh n w).Pre Q ∧ (flushFresh n w).rowCount = w.rowCount + n ∧
    (flushFresh n w).pending = w.pending ∧ (flushFresh n w).len = w.len ∧
    (flushFresh n w).cursor = w.cursor := by
  induction n generalizing w with
  | zero => exact ⟨h, rfl, rfl, rfl, rfl⟩
  | succ n ih =>
    obtain ⟨j1, j2, j3, j4, j5⟩ := flushFreshOne_pre w Q h
    obtain ⟨i1, i2, i3, i4, i5⟩ := ih w.flushFreshOne j1
    refine ⟨i1, ?_, i3.trans j3, i4.trans j4, i5.trans j5⟩
    show (flushFresh n w.flushFreshOne).rowCount = _
    rw [i2, j2]; omega

/-! ### flush -/

/-- the second half of `flush` -/
def flushTail (w1 : World) (c : Nat) : World :=
  let tail := w1.pending.toList.drop c
  let w2 := flushPending tail w1
  { w2 with len := w2.len + tail.length, pending := w2.pending.extract 0 c }

theorem flush_eq (w : World) :
    w.flush =
      if w.cursor ≥ 0 then flushTail w w.cursor.toNat
      else flushTail { flushFresh (-w.cursor).toNat w with
                        len := (flushFresh (-w.cursor).toNat w).len + (-w.cursor).toNat, cursor := 0 } 0 := by
  by_cases hc : w.cursor ≥ 0 <;> simp only [flush, flushTail, hc, if_true, if_false]

/-- invariant plus nothing reserved -/
structure Flushed (w : World) : Prop where
  good : w.Good
  cursor : w.cursor = w.pending.size

theorem rowCount_of_archs {w w' : World} (h : w'.archs = w.archs) : w'.rowCount = w.rowCount := by
  unfold rowCount; rw [h]

theorem flushTail_flushed (w : World) (c : Nat) (h : w.Pre w.pending.toList) (hc : w.cursor = c)
    (hcl : c ≤ w.pending.size) (hl : w.len = w.rowCount) : (flushTail w c).Flushed := by
  have hpre : w.Pre (w.pending.toList.take c ++ w.pending.toList.drop c) := by
    rw [List.take_append_drop]; exact h
  obtain ⟨i1, i2, i3, i4, i5⟩ := flushPending_pre _ w _ hpre
  simp only [flushTail]
  generalize flushPending (w.pending.toList.drop c) w = w2 at *
  have hp : (w2.pending.extract 0 c).toList = w.pending.toList.take c := by
    rw [i3]; simp
  have hsz : (w2.pending.extract 0 c).size = c := by
    rw [i3]; simp; omega
  refine ⟨Pre.good ?_ ?_ ?_, ?_⟩
  · simp only [hp]; exact Pre.of_eq (w := w2) rfl rfl i1
  · simp only [hsz, i5]; omega
  · show w2.len + _ = w2.rowCount
    rw [i2, i4, hl]
  · simp only [hsz, i5]; omega

theorem flush_flushed' (w : World) (h : w.Good) : w.flush.Flushed := by
  rw [flush_eq]
  split
  · exact flushTail_flushed w _ h.pre (by omega) (by have := h.cursor_le; omega) h.len_rows
  · obtain ⟨j1, j2, j3, j4, j5⟩ := flushFresh_pre (-w.cursor).toNat w _ h.pre
    apply flushTail_flushed
    · show Pre _ (flushFresh (-w.cursor).toNat w).pending.toList
      rw [j3]; exact Pre.of_eq (w := flushFresh (-w.cursor).toNat w) rfl rfl j1
    · rfl
    · omega
    · show (flushFresh (-w.cursor).toNat w).len + _ = (flushFresh (-w.cursor).toNat w).rowCount
      rw [j2, j4, h.len_rows]

end World
end Hecs
