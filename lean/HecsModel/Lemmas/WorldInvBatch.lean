import HecsModel.Lemmas.WorldInvMove
/-
  Batch spawns: `spawnBatch`, `spawnColumnBatch`, `spawnColumnBatchAt`.
-/
namespace Hecs
namespace World

/-! ### spawnBatch -/

theorem alloc_archs (w : World) : (w.alloc).1.archs = w.archs := by
  unfold alloc; split <;> rfl

theorem typesOf_of_archs {w w1 : World} (ha : w1.archs = w.archs) (b : Nat) : w1.typesOf b = w.typesOf b := by
  unfold typesOf; rw [ha]

theorem spawnBatchRows_flushed (a : Nat) (rows : List (List Comp)) (w : World) (acc : List Entity)
    (hf : w.Flushed) (ha : a < w.archs.size)
    (hty : ∀ row, row ∈ rows → (canon row).map (·.1) = w.typesOf a) :
    (spawnBatchRows a rows w acc).1.Flushed := by
  induction rows generalizing w acc with
  | nil => exact hf
  | cons b bs ih =>
    have h1 := alloc_allocd w hf
    have harchs := alloc_archs w
    have ha1 : a < (w.alloc).1.archs.size := by rw [harchs]; exact ha
    have h2 := place_allocd (w.alloc).1 a (w.alloc).2.id (canon b) [] ha1
      (by rw [typesOf_of_archs harchs]; exact hty b (by simp)) h1
    have := ih ((w.alloc).1.place a (w.alloc).2.id (canon b)) ((w.alloc).2 :: acc) h2.flushed
      (by rw [place_archs_size]; exact ha1)
      (by intro row hrow; rw [place_typesOf, typesOf_of_archs harchs]; exact hty row (by simp [hrow]))
    exact this

theorem spawnBatch_flushed (w : World) (ts : List Nat) (rows : List (List Comp)) (h : w.Good)
    (hts : ts.Nodup) (hrows : ∀ row, row ∈ rows → (canon row).map (·.1) = sortNat ts) :
    (w.spawnBatch ts rows).1.Flushed := by
  have hf := flush_flushed' w h
  obtain ⟨g1, g2, g3, g4, _, _⟩ := getArch_spec w.flush (sortNat ts) hf.good.arch (sortNat_sorted ts hts)
  have hf1 : (w.reserve ts).1.Flushed := hf.same g1 g4
  exact spawnBatchRows_flushed (w.reserve ts).2 rows (w.reserve ts).1 [] hf1 g2
    (by intro row hrow; rw [hrows row hrow]; exact g3.symm)

/-! ### insertBatch -/

def batchRows (rows : List (List Comp)) : Array Row := (rows.map (fun v => (⟨0, v⟩ : Row))).toArray

theorem modify_push_last {α} (xs : Array α) (x : α) (f : α → α) :
    (xs.push x).modify xs.size f = xs.push (f x) := by
  apply Array.ext_getElem?
  intro i
  simp only [Array.getElem?_modify, Array.getElem?_push]
  grind

theorem insertBatch_eq (w : World) (ts : List Nat) (rows : List (List Comp)) :
    w.insertBatch ts rows =
      ((w.getArch ts).1.modRows (w.getArch ts).2 (fun r => r ++ batchRows rows), (w.getArch ts).2,
        (w.rowsOf (w.getArch ts).2).size) := by
  unfold insertBatch getArch
  cases hf : findArch w.archs ts with
  | some a => rfl
  | none =>
    simp only [modRows, batchRows]
    rw [modify_push_last]
    have : w.rowsOf w.archs.size = #[] := rowsOf_ge w _ (Nat.le_refl _)
    simp [this]

theorem locOf_of_metas {w w' : World} (h : w'.metas = w.metas) (id : Nat) : w'.locOf id = w.locOf id := by
  unfold locOf; rw [h]

theorem insertBatch_spec (w : World) (ts : List Nat) (rows : List (List Comp)) (hb : w.Bij) (ha : w.ArchOK)
    (hs : strictSorted ts = true) (hr : ∀ row, row ∈ rows → row.map (·.1) = ts) :
    (w.insertBatch ts rows).1.metas = w.metas ∧ (w.insertBatch ts rows).1.pending = w.pending ∧
    (w.insertBatch ts rows).1.cursor = w.cursor ∧ (w.insertBatch ts rows).1.len = w.len ∧
    (w.insertBatch ts rows).1.ArchOK ∧
    (w.insertBatch ts rows).1.BijFrom (w.insertBatch ts rows).2.1 (w.insertBatch ts rows).2.2 ∧
    ((w.insertBatch ts rows).1.rowsOf (w.insertBatch ts rows).2.1).size
      = (w.insertBatch ts rows).2.2 + rows.length ∧
    (w.insertBatch ts rows).1.rowCount = w.rowCount + rows.length := by
  rw [insertBatch_eq]
  obtain ⟨g1, g2, g3, g4, g5, g6⟩ := getArch_spec w ts ha hs
  generalize w.getArch ts = ga at *
  obtain ⟨w1, a⟩ := ga
  simp only at g1 g2 g3 g4 g5 g6 ⊢
  have hget : ∀ b j, ((w1.modRows a (fun r => r ++ batchRows rows)).rowsOf b)[j]? =
      if b = a then (if j < (w.rowsOf a).size then (w.rowsOf a)[j]? else (batchRows rows)[j - (w.rowsOf a).size]?)
      else (w.rowsOf b)[j]? := by
    intro b j
    rw [modRows_rowsOf]
    by_cases hb : b = a
    · subst hb; simp only [g2, and_self, if_true, g1.rows, Array.getElem?_append]
    · simp [hb, g1.rows]
  have hbsz : (batchRows rows).size = rows.length := by simp [batchRows]
  have hbmem : ∀ (k : Nat) (r : Row), (batchRows rows)[k]? = some r → r.vals.map (·.1) = ts := by
    intro k r hk
    have : r ∈ (rows.map (fun v => (⟨0, v⟩ : Row))) := by
      have := Array.mem_of_getElem? hk
      simpa [batchRows] using this
    obtain ⟨v, hv, rfl⟩ := List.mem_map.1 this
    exact hr v hv
  refine ⟨g1.metas, g1.pending, g1.cursor, g1.len, ⟨?_, ?_, ?_, ?_⟩, ⟨?_, ?_⟩, ?_, ?_⟩
  · simpa using g4.arch0
  · simpa using g4.sorted
  · simpa using g4.inj
  · intro b j r; rw [hget, modRows_typesOf]
    intro hh
    by_cases hb : b = a
    · subst hb; simp only [if_true] at hh
      split at hh
      · rw [← g1.rows] at hh; exact g4.row_types _ _ _ hh
      · rw [g3]; exact hbmem _ _ hh
    · simp only [hb, if_false] at hh; rw [← g1.rows] at hh; exact g4.row_types _ _ _ hh
  · intro id b j; rw [modRows_locOf, g1.locOf, hget]
    intro hh
    obtain ⟨r, hr1, hr2⟩ := hb.loc_row id b j hh
    have : j < (w.rowsOf b).size := by grind
    grind
  · intro b j r; rw [modRows_locOf, g1.locOf, hget]
    intro hh hne
    apply hb.row_loc
    grind
  · rw [modRows_rowsOf_same _ _ _ g2, g1.rows]; simp [hbsz]
  · have := modRows_rowCount w1 a (fun r => r ++ batchRows rows) g2
    rw [g1.rows, g1.rowCount] at this
    simp [hbsz] at this; omega

/-! ### assignRows -/

/-- one step of `assignRows` -/
def assignOne (w : World) (a i id : Nat) : World := (w.setRowId a i id).setLoc id (some (a, i))

theorem assignOne_eq (w : World) (a i id : Nat) :
    w.assignOne a i id =
      (w.modRows a (fun rows => rows.modify i (fun r => { r with id := id }))).setLoc id (some (a, i)) := rfl

theorem assignOne_get (w : World) (a i id b j : Nat) :
    ((w.assignOne a i id).rowsOf b)[j]? =
      if b = a ∧ j = i then ((w.rowsOf a)[i]?).map (fun r => { r with id := id }) else (w.rowsOf b)[j]? := by
  rw [assignOne_eq, setLoc_rowsOf, modRows_rowsOf]
  by_cases hb : b = a
  · subst hb
    by_cases ha : b < w.archs.size
    · simp only [ha, and_self, if_true, true_and, Array.getElem?_modify]
      by_cases hj : i = j
      · subst hj; simp
      · have : ¬ j = i := fun e => hj e.symm
        simp [hj, this]
    · have := rowsOf_ge w b (by omega)
      simp [ha, this]
  · simp [hb]

theorem assignOne_locOf (w : World) (a i id id' : Nat) (hid : id < w.metas.size) :
    (w.assignOne a i id).locOf id' = if id' = id then some (a, i) else w.locOf id' := by
  rw [assignOne_eq, setLoc_locOf]; simp [hid]

theorem assignRows_spec (a : Nat) (ids : List Nat) (k : Nat) (w : World) (pre : List Nat)
    (hb : w.BijFrom a k) (ha : w.ArchOK) (hfree : w.Free (pre ++ ids))
    (hsz : (w.rowsOf a).size = k + ids.length) :
    (assignRows a ids k w).Bij ∧ (assignRows a ids k w).ArchOK ∧ (assignRows a ids k w).Free pre ∧
    (assignRows a ids k w).metas.size = w.metas.size ∧ (assignRows a ids k w).rowCount = w.rowCount ∧
    (assignRows a ids k w).pending = w.pending ∧ (assignRows a ids k w).cursor = w.cursor ∧
    (assignRows a ids k w).len = w.len := by
  induction ids generalizing k w with
  | nil =>
    have e : assignRows a [] k w = w := rfl
    rw [e]
    refine ⟨⟨?_, ?_⟩, ha, by simpa using hfree, rfl, rfl, rfl, rfl, rfl⟩
    · intro id b j hh; exact (hb.loc_row id b j hh).2
    · intro b j r hh
      apply hb.row_loc b j r hh
      simp only [List.length_nil, Nat.add_zero] at hsz
      rintro ⟨rfl, hk⟩
      have : j < (w.rowsOf b).size := by grind
      omega
  | cons id ids ih =>
    have hmem := (hfree.iff id).1 (by simp)
    have hidlt := hmem.1
    have hnone := hmem.2
    have hk : k < (w.rowsOf a).size := by simp at hsz; omega
    have harch : a < w.archs.size := by
      apply Classical.byContradiction; intro hn
      rw [rowsOf_ge w a (by omega)] at hk; simp at hk
    have hty : ∀ b, (w.assignOne a k id).typesOf b = w.typesOf b := by
      intro b; rw [assignOne_eq]; simp
    have hasz : (w.assignOne a k id).archs.size = w.archs.size := by rw [assignOne_eq]; simp
    have hms : (w.assignOne a k id).metas.size = w.metas.size := by rw [assignOne_eq]; simp
    have hrc : (w.assignOne a k id).rowCount = w.rowCount := by
      rw [assignOne_eq, setLoc_rowCount]
      have := modRows_rowCount w a (fun rows => rows.modify k (fun r => { r with id := id })) harch
      simp at this; omega
    have hsz' : ((w.assignOne a k id).rowsOf a).size = (k + 1) + ids.length := by
      rw [assignOne_eq, setLoc_rowsOf, modRows_rowsOf_same _ _ _ harch]
      simp at hsz ⊢; omega
    have hb' : (w.assignOne a k id).BijFrom a (k + 1) := by
      obtain ⟨h1, h2⟩ := hb
      constructor
      · intro id' b j; rw [assignOne_locOf _ _ _ _ _ hidlt, assignOne_get]
        intro hh
        by_cases hi : id' = id
        · subst hi; simp only [if_true, Option.some.injEq, Prod.mk.injEq] at hh
          obtain ⟨rfl, rfl⟩ := hh
          refine ⟨by omega, ?_⟩
          have : (w.rowsOf a)[k]? = some (w.rowsOf a)[k] := by simp [hk]
          simp [this]
        · simp only [hi, if_false] at hh
          have := h1 id' b j hh
          grind
      · intro b j r; rw [assignOne_get, assignOne_locOf _ _ _ _ _ hidlt]
        intro hh hne
        by_cases hc : b = a ∧ j = k
        · obtain ⟨rfl, rfl⟩ := hc
          simp only [and_self, if_true, Option.map_eq_some_iff] at hh
          obtain ⟨r0, _, rfl⟩ := hh
          simp
        · rw [if_neg hc] at hh
          have := h2 b j r hh (by omega)
          have hrid : r.id ≠ id := by intro e; rw [e, hnone] at this; cases this
          simp [hrid, this]
    have ha' : (w.assignOne a k id).ArchOK := by
      obtain ⟨h0, h1, h2, h3⟩ := ha
      refine ⟨by rw [hasz, hty]; exact h0, by intro b; rw [hasz, hty]; exact h1 b,
        by intro b c; rw [hasz, hty, hty]; exact h2 b c, ?_⟩
      intro b j r; rw [assignOne_get, hty]
      intro hh
      by_cases hc : b = a ∧ j = k
      · obtain ⟨rfl, rfl⟩ := hc
        simp only [and_self, if_true, Option.map_eq_some_iff] at hh
        obtain ⟨r0, hr0, rfl⟩ := hh
        exact h3 _ _ r0 hr0
      · rw [if_neg hc] at hh; exact h3 _ _ _ hh
    have hfree' : (w.assignOne a k id).Free (pre ++ ids) := by
      obtain ⟨f1, f2⟩ := hfree
      constructor
      · grind
      · intro id'; rw [assignOne_locOf _ _ _ _ _ hidlt, hms]
        have := f2 id'
        by_cases hi : id' = id
        · subst hi; simp; grind
        · simp [hi] at this ⊢; exact this
    obtain ⟨i1, i2, i3, i4, i5, i6, i7, i8⟩ := ih (k + 1) (w.assignOne a k id) hb' ha' hfree' hsz'
    exact ⟨i1, i2, i3, i4.trans hms, i5.trans hrc, i6, i7, i8⟩

/-! ### spawnColumnBatchAt -/

theorem Free.of_metas {w w' : World} {Q} (hm : w'.metas = w.metas) (h : w.Free Q) : w'.Free Q :=
  ⟨h.nodup, fun id => by rw [locOf_of_metas hm, hm]; exact h.iff id⟩

theorem allocAtAll_allocd (hs : List Entity) (w : World) (d : List Comp) (D : List Nat) (h : w.Allocd D)
    (hnd : (hs.map (·.id)).Nodup) (hdisj : ∀ x, x ∈ hs.map (·.id) → x ∉ D) :
    (allocAtAll hs w d).1.Allocd ((hs.map (·.id)).reverse ++ D) := by
  induction hs generalizing w d D with
  | nil => simpa [allocAtAll] using h
  | cons e es ih =>
    simp only [List.map_cons, List.nodup_cons] at hnd
    have h1 := allocAt_evict_allocd w e D h (hdisj e.id (by simp))
    have := ih ((w.allocAt e).1.evict (w.allocAt e).2).1 (d ++ ((w.allocAt e).1.evict (w.allocAt e).2).2)
      (e.id :: D) h1 hnd.2 (by
        intro x hx
        simp only [List.mem_cons, not_or]
        exact ⟨fun e' => hnd.1 (e' ▸ hx), hdisj x (by simp [hx])⟩)
    simpa [allocAtAll] using this

theorem spawnColumnBatchAt_good (w : World) (hs : List Entity) (ts : List Nat) (rows : List (List Comp))
    (h : w.Good) (hts : strictSorted ts = true) (hrows : ∀ row, row ∈ rows → row.map (·.1) = ts) :
    (w.spawnColumnBatchAt hs ts rows).1.Good := by
  unfold spawnColumnBatchAt
  split
  · exact h
  · rename_i hc
    simp only [not_or, Decidable.not_not] at hc
    obtain ⟨hlen, hnd⟩ := hc
    have hf := flush_flushed' w h
    have h1 := allocAtAll_allocd hs w.flush [] [] hf.allocd hnd (by simp)
    simp only
    generalize (allocAtAll hs w.flush []).1 = w1 at *
    simp only [List.append_nil] at h1
    obtain ⟨s1, s2, s3, s4, s5, s6, s7, s8⟩ := insertBatch_spec w1 ts rows h1.pre.bij h1.pre.arch hts hrows
    generalize w1.insertBatch ts rows = ib at *
    obtain ⟨w2, a, base⟩ := ib
    simp only at s1 s2 s3 s4 s5 s6 s7 s8 ⊢
    have hfree2 : w2.Free (w1.pending.toList ++ hs.map (·.id)) :=
      Free.of_metas s1 (h1.pre.free.perm
        ((List.perm_append_comm).trans (List.Perm.append_left _ (List.reverse_perm _))))
    obtain ⟨i1, i2, i3, i4, i5, i6, i7, i8⟩ :=
      assignRows_spec a (hs.map (·.id)) base w2 w1.pending.toList s6 s5 hfree2 (by simp [s7, hlen])
    have hcount := h1.pre.count
    simp only [List.length_append, List.length_reverse, List.length_map] at hcount
    have hl := h1.len
    simp only [List.length_reverse, List.length_map] at hl
    refine ⟨i1, i2, ?_, ?_, ?_, ?_⟩
    · rw [i6, s2]; exact i3
    · rw [i6, i7, s2, s3, h1.cursor]; exact Int.le_refl _
    · rw [i8, i5, s4, s8, hl, hlen]
    · rw [i5, i6, i4, s8, s2, s1]; simp at hcount ⊢; omega

/-! ### spawnColumnBatch -/

/-- grow the entity table by `k` empty metas -/
def extend (w : World) (k l : Nat) : World :=
  { w with metas := w.metas ++ Array.replicate k Meta.empty, len := l }

theorem extend_locOf (w : World) (k l id : Nat) : (w.extend k l).locOf id = w.locOf id := by
  simp only [locOf, extend, Array.getElem?_append, Array.getElem?_replicate]
  split
  · rfl
  · rw [Array.getElem?_eq_none (by omega)]
    split <;> simp [Meta.empty]

theorem extend_free (w : World) (k l : Nat) (Q : List Nat) (h : w.Free Q) :
    (w.extend k l).Free (Q ++ List.range' w.metas.size k) := by
  have hlt : ∀ x, x ∈ Q → x < w.metas.size := fun x hx => ((h.iff x).1 hx).1
  constructor
  · have hn := h.nodup
    have hr := List.nodup_range' (s := w.metas.size) (n := k) 1
    simp only [List.nodup_append, List.mem_range'_1] at *
    grind
  · intro id; rw [extend_locOf]
    have h1 := h.iff id
    have h2 := locOf_ge w id
    simp only [extend, List.mem_append, List.mem_range'_1, Array.size_append, Array.size_replicate] at *
    grind

theorem spawnColumnBatch_flushed (w : World) (ts : List Nat) (rows : List (List Comp))
    (h : w.Good) (hts : strictSorted ts = true) (hrows : ∀ row, row ∈ rows → row.map (·.1) = ts) :
    (w.spawnColumnBatch ts rows).1.Flushed := by
  have hf := flush_flushed' w h
  unfold spawnColumnBatch
  simp only
  generalize w.flush = w0 at *
  obtain ⟨s1, s2, s3, s4, s5, s6, s7, s8⟩ := insertBatch_spec w0 ts rows hf.good.bij hf.good.arch hts hrows
  generalize w0.insertBatch ts rows = ib at *
  obtain ⟨w1, a, base⟩ := ib
  simp only at s1 s2 s3 s4 s5 s6 s7 s8 ⊢
  have hw2 : ({ w1 with metas := w1.metas ++ Array.replicate (rows.length - w1.pending.size) Meta.empty,
                         len := w1.len + rows.length } : World)
      = w1.extend (rows.length - w1.pending.size) (w1.len + rows.length) := rfl
  rw [hw2]
  have hfree1 : w1.Free w0.pending.toList := Free.of_metas s1 hf.good.free
  have hfree2 := extend_free w1 (rows.length - w1.pending.size) (w1.len + rows.length) _ hfree1
  have hsplit : w0.pending.toList = w0.pending.toList.take (w0.pending.size - rows.length)
      ++ w0.pending.toList.drop (w0.pending.size - rows.length) := (List.take_append_drop _ _).symm
  rw [hsplit, List.append_assoc, ← s2] at hfree2
  have hb2 : (w1.extend (rows.length - w1.pending.size) (w1.len + rows.length)).BijFrom a base := by
    obtain ⟨b1, b2⟩ := s6
    constructor
    · intro id b j; rw [extend_locOf]; exact b1 id b j
    · intro b j r; rw [extend_locOf]; exact b2 b j r
  have ha2 : (w1.extend (rows.length - w1.pending.size) (w1.len + rows.length)).ArchOK :=
    ArchOK.of_archs (w := w1) rfl s5
  obtain ⟨i1, i2, i3, i4, i5, i6, i7, i8⟩ :=
    assignRows_spec a _ base _ _ hb2 ha2 hfree2 (by
      show (w1.rowsOf a).size = _
      rw [s7]; simp; omega)
  generalize assignRows a _ base (w1.extend (rows.length - w1.pending.size) (w1.len + rows.length)) = w3 at *
  have e2 : (w1.extend (rows.length - w1.pending.size) (w1.len + rows.length)).rowCount = w1.rowCount := rfl
  have e3 : (w1.extend (rows.length - w1.pending.size) (w1.len + rows.length)).pending = w1.pending := rfl
  have e4 : (w1.extend (rows.length - w1.pending.size) (w1.len + rows.length)).len = w1.len + rows.length := rfl
  have e5 : (w1.extend (rows.length - w1.pending.size) (w1.len + rows.length)).metas.size
      = w1.metas.size + (rows.length - w1.pending.size) := by simp [extend]
  have hp : (w3.pending.extract 0 (w1.pending.size - rows.length)).toList
      = w1.pending.toList.take (w1.pending.size - rows.length) := by
    rw [i6, e3]; simp
  have hpsz : (w3.pending.extract 0 (w1.pending.size - rows.length)).size = w1.pending.size - rows.length := by
    rw [i6, e3]; simp
  have hcount := hf.good.count
  refine ⟨⟨Bij.congr (w := w3) (fun _ => rfl) (fun _ => rfl) i1, ArchOK.of_archs (w := w3) rfl i2, ?_, ?_, ?_, ?_⟩, ?_⟩
  · simp only [hp]
    exact ⟨i3.nodup, i3.iff⟩
  · simp only [hpsz]; exact Int.le_refl _
  · show w3.len = w3.rowCount
    rw [i8, i5, e4, e2, s8, s4, hf.good.len_rows]
  · show w3.rowCount + _ = w3.metas.size
    rw [hpsz, i5, i4, e2, e5, s8, s2, s1]; omega
  · simp only [hpsz]

end World
end Hecs
