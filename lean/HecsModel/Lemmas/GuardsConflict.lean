import HecsModel.Lemmas.GuardsCount
/-
  C05 helper lemmas, part 2: the specification-side predicate `wouldConflict` unfolded into a
  recursive form, its meaning (`Excl` of the union), and the grant criterion for acquiring a list
  of columns.
-/
namespace Hecs.GuardLemmas
open Hecs Hecs.Guards

theorem conflicts_symm (x y : H) : conflicts x y = conflicts y x := by
  unfold conflicts
  rw [Bool.or_comm]
  congr 1
  by_cases h : x.1 = y.1
  · rw [beq_iff_eq.2 h, beq_iff_eq.2 h.symm]
  · rw [beq_eq_false_iff_ne.2 h, beq_eq_false_iff_ne.2 (fun e => h e.symm)]

/-- two different positions of the list conflict -/
def IntC (l : List H) : Prop :=
  ∃ (i j : Nat) (x y : H), i ≠ j ∧ l[i]? = some x ∧ l[j]? = some y ∧ conflicts x y = true

theorem intC_nil : ¬ IntC [] := by
  rintro ⟨i, j, x, y, _, hi, _⟩
  simp at hi

theorem intC_cons (x : H) (l : List H) : IntC (x :: l) ↔ l.any (conflicts x) = true ∨ IntC l := by
  constructor
  · rintro ⟨i, j, a, b, hne, hi, hj, hc⟩
    cases i with
    | zero =>
      cases j with
      | zero => exact absurd rfl hne
      | succ j =>
        simp only [List.getElem?_cons_zero, Option.some.injEq] at hi
        simp only [List.getElem?_cons_succ] at hj
        subst hi
        exact Or.inl (List.any_eq_true.2 ⟨b, List.mem_of_getElem? hj, hc⟩)
    | succ i =>
      simp only [List.getElem?_cons_succ] at hi
      cases j with
      | zero =>
        simp only [List.getElem?_cons_zero, Option.some.injEq] at hj
        subst hj
        rw [conflicts_symm] at hc
        exact Or.inl (List.any_eq_true.2 ⟨a, List.mem_of_getElem? hi, hc⟩)
      | succ j =>
        simp only [List.getElem?_cons_succ] at hj
        exact Or.inr ⟨i, j, a, b, by omega, hi, hj, hc⟩
  · rintro (h | ⟨i, j, a, b, hne, hi, hj, hc⟩)
    · obtain ⟨b, hb, hc⟩ := List.any_eq_true.1 h
      obtain ⟨j, hj⟩ := List.mem_iff_getElem?.1 hb
      exact ⟨0, j + 1, x, b, by omega, by simp, by simpa using hj, hc⟩
    · exact ⟨i + 1, j + 1, a, b, by omega, by simpa using hi, by simpa using hj, hc⟩

theorem internal_iff_intC (l : List H) :
    l.zipIdx.any (fun p => l.zipIdx.any (fun r => p.2 != r.2 && conflicts p.1 r.1)) = true ↔ IntC l := by
  simp only [List.any_eq_true, List.mem_zipIdx_iff_getElem?, Bool.and_eq_true, bne_iff_ne]
  constructor
  · rintro ⟨⟨x, i⟩, hi, ⟨y, j⟩, hj, hne, hc⟩
    exact ⟨i, j, x, y, hne, hi, hj, hc⟩
  · rintro ⟨i, j, x, y, hne, hi, hj, hc⟩
    exact ⟨(x, i), hi, (y, j), hj, hne, hc⟩

/-- `wouldConflict`, read as a proposition -/
theorem wouldConflict_iff (hs l : List H) :
    wouldConflict hs l = true ↔ (∃ x ∈ l, hs.any (conflicts x) = true) ∨ IntC l := by
  unfold wouldConflict
  rw [Bool.or_eq_true, internal_iff_intC, List.any_eq_true]

@[simp] theorem wouldConflict_nil (hs : List H) : wouldConflict hs [] = false := by
  rw [← Bool.not_eq_true, wouldConflict_iff]
  rintro (⟨x, hx, _⟩ | h)
  · cases hx
  · exact intC_nil h

/-- recursive form: the first wanted column must not conflict with a holder, and the rest must not
conflict with the holders plus that first column -/
theorem wouldConflict_cons (hs : List H) (x : H) (l : List H) :
    wouldConflict hs (x :: l) = (hs.any (conflicts x) || wouldConflict (x :: hs) l) := by
  apply Bool.eq_iff_iff.2
  rw [Bool.or_eq_true, wouldConflict_iff, wouldConflict_iff, intC_cons]
  constructor
  · rintro (⟨y, hy, hc⟩ | h | h)
    · rcases List.mem_cons.1 hy with rfl | hy
      · exact Or.inl hc
      · exact Or.inr (Or.inl ⟨y, hy, by rw [List.any_cons, hc, Bool.or_true]⟩)
    · obtain ⟨y, hy, hc⟩ := List.any_eq_true.1 h
      refine Or.inr (Or.inl ⟨y, hy, ?_⟩)
      rw [List.any_cons, conflicts_symm, hc, Bool.true_or]
    · exact Or.inr (Or.inr h)
  · rintro (h | ⟨y, hy, hc⟩ | h)
    · exact Or.inl ⟨x, List.mem_cons_self, h⟩
    · rw [List.any_cons, Bool.or_eq_true] at hc
      rcases hc with hc | hc
      · rw [conflicts_symm] at hc
        exact Or.inr (Or.inl (List.any_eq_true.2 ⟨y, hy, hc⟩))
      · exact Or.inl ⟨y, List.mem_cons_of_mem _ hy, hc⟩
    · exact Or.inr (Or.inr h)

theorem wouldConflict_congr_left {hs hs' : List H} (h : ∀ y, y ∈ hs ↔ y ∈ hs') (l : List H) :
    wouldConflict hs l = wouldConflict hs' l := by
  apply Bool.eq_iff_iff.2
  rw [wouldConflict_iff, wouldConflict_iff]
  have : ∀ x, hs.any (conflicts x) = true ↔ hs'.any (conflicts x) = true := by
    intro x
    simp only [List.any_eq_true]
    exact ⟨fun ⟨y, hy, hc⟩ => ⟨y, (h y).1 hy, hc⟩, fun ⟨y, hy, hc⟩ => ⟨y, (h y).2 hy, hc⟩⟩
  simp only [this]

theorem wouldConflict_perm_left {hs hs' : List H} (p : hs.Perm hs') (l : List H) :
    wouldConflict hs l = wouldConflict hs' l :=
  wouldConflict_congr_left (fun _ => p.mem_iff) l

/-- acquiring `l₁ ++ l₂`: `l₁` must be grantable, then `l₂` on top of it -/
theorem wouldConflict_append (hs l₁ l₂ : List H) :
    wouldConflict hs (l₁ ++ l₂) = (wouldConflict hs l₁ || wouldConflict (l₁ ++ hs) l₂) := by
  induction l₁ generalizing hs with
  | nil => simp
  | cons x l ih =>
    rw [List.cons_append, wouldConflict_cons, wouldConflict_cons, ih, Bool.or_assoc]
    congr 2
    exact wouldConflict_perm_left List.perm_middle l₂

/-! ### the meaning of `wouldConflict` -/

theorem Excl.cons {x : H} {hs : List H} (h : Excl hs) (hx : hs.any (conflicts x) = false) :
    Excl (x :: hs) := by
  obtain ⟨c, u⟩ := x
  intro c'
  rw [nU_cons, nS_cons]
  have hc' := h c'
  by_cases hcc : c = c'
  · subst hcc
    cases u
    · rw [any_conflicts_shared] at hx
      simp [hx]
    · rw [any_conflicts_unique] at hx
      simp [hx.1, hx.2]
  · simpa [hcc] using hc'

theorem excl_cons_iff (x : H) (hs : List H) :
    Excl (x :: hs) ↔ hs.any (conflicts x) = false ∧ Excl hs :=
  ⟨fun h => ⟨h.head, h.tail⟩, fun h => h.2.cons h.1⟩

/-- `wouldConflict others want = false` says exactly that the union still satisfies
aliasing-xor-mutation -/
theorem wouldConflict_false_iff {hs : List H} (h : Excl hs) (l : List H) :
    wouldConflict hs l = false ↔ Excl (l ++ hs) := by
  induction l generalizing hs with
  | nil => simp [h]
  | cons x l ih =>
    rw [wouldConflict_cons, Bool.or_eq_false_iff]
    constructor
    · intro ⟨h1, h2⟩
      have := (ih (h.cons h1)).1 h2
      exact this.perm List.perm_middle
    · intro he
      have he' : Excl (x :: hs) := by
        have h2 : Excl (x :: (l ++ hs)) := he
        rw [excl_cons_iff] at h2
        rw [excl_cons_iff]
        refine ⟨?_, h⟩
        have := h2.1
        rw [List.any_append, Bool.or_eq_false_iff] at this
        exact this.2
      refine ⟨he'.head, (ih he').2 ?_⟩
      exact Excl.perm (l₁ := x :: (l ++ hs)) he List.perm_middle.symm

theorem grantPre_eq_self_iff (hs l : List H) : grantPre hs l = l ↔ wouldConflict hs l = false := by
  induction l generalizing hs with
  | nil => simp [grantPre]
  | cons x l ih =>
    rw [wouldConflict_cons, Bool.or_eq_false_iff, grantPre]
    cases hx : hs.any (conflicts x) with
    | true => simp
    | false => simp [ih]

theorem grantPre_prefix (hs l : List H) : grantPre hs l <+: l := by
  induction l generalizing hs with
  | nil => simp [grantPre]
  | cons x l ih =>
    rw [grantPre]
    split
    · exact List.nil_prefix
    · exact (List.prefix_cons_inj x).2 (ih _)

/-- when the predicted prefix is strict, the next column conflicts with a holder or with an
already granted column -/
theorem grantPre_next (hs l : List H) (h : grantPre hs l ≠ l) :
    ∃ x rest, l = grantPre hs l ++ x :: rest ∧ (grantPre hs l ++ hs).any (conflicts x) = true := by
  induction l generalizing hs with
  | nil => simp [grantPre] at h
  | cons x l ih =>
    rw [grantPre] at h ⊢
    cases hx : hs.any (conflicts x) with
    | true => exact ⟨x, l, by simp, by simpa using hx⟩
    | false =>
      simp only [hx, Bool.false_eq_true, if_false, ne_eq, List.cons.injEq, true_and] at h
      obtain ⟨y, rest, h1, h2⟩ := ih (x :: hs) h
      refine ⟨y, rest, ?_, ?_⟩
      · simp only [Bool.false_eq_true, if_false, List.cons_append, List.cons.injEq, true_and]
        exact h1
      · simp only [Bool.false_eq_true, if_false]
        rw [← h2]
        exact List.Perm.any_eq (List.perm_middle.symm)

/-! ### grant criterion for a list of columns -/

/-- a granted list did not conflict (no bound needed) -/
theorem acquireCols_ok_noconflict {ws : Words} {hs : List H} (l : List H) (h : CE ws hs)
    (hok : (acquireCols ws l).2 = true) : wouldConflict hs l = false := by
  have := (acquireCols_CE l h).excl
  rw [(acquireCols_ok_iff ws l).1 hok] at this
  exact (wouldConflict_false_iff h.excl l).2 this

/-- `acquireList_spec` / `startBorrow_spec` core: granted iff no conflict -/
theorem acquireCols_ok_iff_noconflict {ws : Words} {hs : List H} (l : List H) (h : CE ws hs)
    (hb : hs.length + l.length < Borrow.UNIQUE) :
    (acquireCols ws l).2 = true ↔ wouldConflict hs l = false := by
  rw [acquireCols_ok_iff, acqPre_eq_grantPre l h hb, grantPre_eq_self_iff]

/-- a single column, as a list -/
theorem acquireCols_single (ws : Words) (c : Col) (u : Bool) :
    acquireCols ws [(c, u)] = match acquire ws c u with | some ws' => (ws', true) | none => (ws, false) := by
  simp only [acquireCols]
  cases acquire ws c u <;> rfl

theorem acqPre_single (ws : Words) (c : Col) (u : Bool) :
    acqPre ws [(c, u)] = if (acquire ws c u).isSome then [(c, u)] else [] := by
  simp only [acqPre]
  cases acquire ws c u <;> rfl

end Hecs.GuardLemmas
