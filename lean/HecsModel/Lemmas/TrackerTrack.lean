import HecsModel.Lemmas.TrackerReads
/-
  C18 (ChangeTracker), part 4: a whole `track`: the invariant of the fold over the reads, `doDrop`,
  the tracker invariant afterwards (snapshot = current value), and the reports.
-/
namespace Hecs.TrackerLemmas
open Hecs Hecs.World Hecs.Tracker

/-- the snapshot value of an entity after the reads performed so far, as a function of the flags
(`cf`: a `changed` read happened, `rf`: a `removed` read happened) and of the entity's `t` value and
snapshot value at the start of `track` -/
def pAfter (cf rf : Bool) (tv pv : Option Nat) : Option Nat :=
  match tv with
  | some n => if cf then pv.map (fun _ => n) else pv
  | none => if rf then none else pv

theorem pAfter_init (tv pv : Option Nat) : pAfter false false tv pv = pv := by
  cases tv <;> rfl

theorem gC_pAfter (cf rf : Bool) (tv pv : Option Nat) : gC tv (pAfter cf rf tv pv) = pAfter true rf tv pv := by
  cases cf <;> cases rf <;> cases tv <;> cases pv <;> rfl

theorem gR_pAfter (cf rf : Bool) (tv pv : Option Nat) : gR tv (pAfter cf rf tv pv) = pAfter cf true tv pv := by
  cases cf <;> cases rf <;> cases tv <;> cases pv <;> rfl

theorem drop_closed (cf rf : Bool) (tv pv : Option Nat) :
    (if rf then (if cf then gA tv (pAfter cf rf tv pv) else gC tv (gA tv (pAfter cf rf tv pv)))
     else gR tv (if cf then gA tv (pAfter cf rf tv pv) else gC tv (gA tv (pAfter cf rf tv pv)))) = tv := by
  cases cf <;> cases rf <;> cases tv <;> cases pv <;> rfl

/-- the reads of one `track`, without the final drop -/
def runReads (t p : Nat) (w : World) (reads : List Read) : CSt × Reports :=
  reads.foldl (fun acc r => doRead t p acc.1 acc.2 r) (({ w := w } : CSt), ({} : Reports))

theorem track_eq (t p : Nat) (w : World) (reads : List Read) :
    track t p w reads = (doDrop t p (runReads t p w reads).1, (runReads t p w reads).2) := rfl

/-- invariant of the per-`Changes` state relative to the world `w0` at the start of `track` -/
structure RInv (t p : Nat) (w0 : World) (s : CSt) : Prop where
  inv : s.w.Inv
  only : OnlyP p w0 s.w
  pval : ∀ e, comp s.w e p = pAfter s.changedFlag s.removedFlag (comp w0 e t) (comp w0 e p)
  added : s.addedFlag = true → ∀ e v, (e, v) ∈ s.addedComponents ↔ IsAdded t p w0 e v

theorem RInv.init (t p : Nat) (w0 : World) (hw : w0.Inv) : RInv t p w0 { w := w0 } :=
  ⟨hw, OnlyP.refl p w0, fun e => (pAfter_init _ _).symm, fun h => by cases h⟩

section
variable {t p : Nat} {w0 : World} {s : CSt}

theorem RInv.tval (htp : t ≠ p) (h : RInv t p w0 s) (e : Entity) : comp s.w e t = comp w0 e t :=
  h.only.comp e t htp

theorem RInv.isAdded_iff (htp : t ≠ p) (h : RInv t p w0 s) (e : Entity) (v : Nat) :
    IsAdded t p s.w e v ↔ IsAdded t p w0 e v := by
  unfold IsAdded
  rw [h.pval, h.tval htp]
  cases s.changedFlag <;> cases s.removedFlag <;> cases comp w0 e t <;> cases comp w0 e p <;> simp [pAfter]

theorem RInv.isChanged_iff (htp : t ≠ p) (h : RInv t p w0 s) (e : Entity) (o n : Nat) :
    IsChanged t p s.w e o n ↔ s.changedFlag = false ∧ IsChanged t p w0 e o n := by
  unfold IsChanged
  rw [h.pval, h.tval htp]
  cases s.changedFlag <;> cases s.removedFlag <;> cases comp w0 e t <;> cases comp w0 e p <;>
    simp [pAfter]
  all_goals (intro h1 h2; omega)

theorem RInv.isRemoved_iff (htp : t ≠ p) (h : RInv t p w0 s) (e : Entity) (o : Nat) :
    IsRemoved t p s.w e o ↔ s.removedFlag = false ∧ IsRemoved t p w0 e o := by
  unfold IsRemoved
  rw [h.pval, h.tval htp]
  cases s.changedFlag <;> cases s.removedFlag <;> cases comp w0 e t <;> cases comp w0 e p <;> simp [pAfter]

/-! ### the reads preserve the invariant -/

theorem RInv.doAdded (htp : t ≠ p) (h : RInv t p w0 s) : RInv t p w0 (doAdded t p s).1 :=
  ⟨h.inv, h.only, h.pval, fun _ e v => (mem_doAdded t p s h.inv e v).trans (h.isAdded_iff htp e v)⟩

theorem RInv.doChanged (htp : t ≠ p) (h : RInv t p w0 s) : RInv t p w0 (doChanged t p s).1 := by
  obtain ⟨c1, _, _, _, c5⟩ := doChanged_effect t p s h.inv
  refine ⟨c1, h.only.trans (doChanged_onlyP t p s h.inv), ?_, h.added⟩
  intro e
  rw [c5, h.pval, h.tval htp, gC_pAfter]
  rfl

theorem RInv.doRemoved (htp : t ≠ p) (h : RInv t p w0 s) : RInv t p w0 (doRemoved t p s).1 := by
  obtain ⟨c1, c2, c3⟩ := doRemoved_effect t p s h.inv
  refine ⟨c1, h.only.trans c2, ?_, h.added⟩
  intro e
  rw [c3, h.pval, h.tval htp, gR_pAfter]
  rfl

theorem doRead_fst (t p : Nat) (s : CSt) (rep : Reports) (r : Read) :
    (doRead t p s rep r).1 =
      match r with
      | .added _ => (Tracker.doAdded t p s).1
      | .changed _ => (Tracker.doChanged t p s).1
      | .removed _ => (Tracker.doRemoved t p s).1 := by
  cases r <;> rfl

theorem RInv.doRead (htp : t ≠ p) (h : RInv t p w0 s) (rep : Reports) (r : Read) :
    RInv t p w0 (doRead t p s rep r).1 := by
  rw [doRead_fst]
  cases r with
  | added _ => exact h.doAdded htp
  | changed _ => exact h.doChanged htp
  | removed _ => exact h.doRemoved htp

theorem RInv.foldl (htp : t ≠ p) (reads : List Read) (s : CSt) (rep : Reports) (h : RInv t p w0 s) :
    RInv t p w0 (reads.foldl (fun acc r => Tracker.doRead t p acc.1 acc.2 r) (s, rep)).1 := by
  induction reads generalizing s rep with
  | nil => exact h
  | cons r rs ih =>
    rw [List.foldl_cons]
    exact ih _ _ (h.doRead htp rep r)

end

theorem runReads_rinv {t p : Nat} (htp : t ≠ p) (w : World) (hw : w.Inv) (reads : List Read) :
    RInv t p w (runReads t p w reads).1 :=
  RInv.foldl htp reads _ _ (RInv.init t p w hw)

/-! ### `doDrop` -/

/-- a world reached from `w0` by changing `p` values only, with the `p` value given pointwise by `F` -/
structure PV (t p : Nat) (w0 w : World) (F : Option Nat → Option Nat → Option Nat) : Prop where
  inv : w.Inv
  only : OnlyP p w0 w
  pval : ∀ e, comp w e p = F (comp w0 e t) (comp w0 e p)

section
variable {t p : Nat} {w0 : World}

theorem PV.changed (htp : t ≠ p) {F} (s : CSt) (h : PV t p w0 s.w F) :
    PV t p w0 (doChanged t p s).1.w (fun tv pv => gC tv (F tv pv)) := by
  obtain ⟨c1, _, _, _, c5⟩ := doChanged_effect t p s h.inv
  refine ⟨c1, h.only.trans (doChanged_onlyP t p s h.inv), ?_⟩
  intro e
  rw [c5, h.pval, h.only.comp e t htp]

theorem PV.removed (htp : t ≠ p) {F} (s : CSt) (h : PV t p w0 s.w F) :
    PV t p w0 (doRemoved t p s).1.w (fun tv pv => gR tv (F tv pv)) := by
  obtain ⟨c1, c2, c3⟩ := doRemoved_effect t p s h.inv
  refine ⟨c1, h.only.trans c2, ?_⟩
  intro e
  rw [c3, h.pval, h.only.comp e t htp]

theorem PV.inserted (cf rf : Bool) (w : World) (h : PV t p w0 w (pAfter cf rf))
    (items : List (Entity × Nat)) (hitems : ∀ e v, (e, v) ∈ items ↔ IsAdded t p w0 e v) :
    PV t p w0 (items.foldl (fun w x => (w.insert x.1 [(p, x.2)]).1) w)
      (fun tv pv => gA tv (pAfter cf rf tv pv)) := by
  obtain ⟨i1, i2, i3, i4⟩ := foldl_insert_spec p (fun e => (comp w0 e t).getD 0) items w h.inv
    (by
      rintro ⟨e, v⟩ hx
      simp [((hitems e v).1 hx).1])
  refine ⟨i1, h.only.trans ⟨i2, i3, ?_⟩, ?_⟩
  · intro e c hc
    rw [i4]; simp [hc]
  · intro e
    rw [i4, h.pval]
    by_cases hin : e ∈ items.map (·.1)
    · obtain ⟨⟨e', v⟩, hx, rfl⟩ := List.mem_map.1 hin
      obtain ⟨a1, a2⟩ := (hitems e' v).1 hx
      have hex : ex w e' = true := by rw [h.only.ex]; exact ex_of_comp a1
      rw [if_pos ⟨hin, hex, rfl⟩, a1, a2]
      cases cf <;> cases rf <;> rfl
    · rw [if_neg (fun hh => hin hh.1)]
      cases ht : comp w0 e t with
      | none => cases cf <;> cases rf <;> cases comp w0 e p <;> rfl
      | some n =>
        cases hp : comp w0 e p with
        | none =>
          exfalso; apply hin
          exact List.mem_map.2 ⟨(e, n), (hitems e n).2 ⟨ht, hp⟩, rfl⟩
        | some o => cases cf <;> cases rf <;> rfl

/-- the `changed` stage of the drop -/
def dropC (t p : Nat) (s2 : CSt) : CSt := if !s2.changedFlag then (doChanged t p s2).1 else s2

/-- the `removed` stage of the drop -/
def dropR (t p : Nat) (s3 : CSt) : CSt := if !s3.removedFlag then (doRemoved t p s3).1 else s3

theorem dropC_spec (htp : t ≠ p) {F} (s2 : CSt) (h : PV t p w0 s2.w F) :
    PV t p w0 (dropC t p s2).w (fun tv pv => if s2.changedFlag then F tv pv else gC tv (F tv pv)) ∧
    (dropC t p s2).removedFlag = s2.removedFlag := by
  unfold dropC
  cases hc : s2.changedFlag with
  | true =>
    simp only [Bool.not_true, Bool.false_eq_true, if_false, if_true]
    exact ⟨h, trivial⟩
  | false =>
    simp only [Bool.not_false, Bool.false_eq_true, if_false, if_true]
    exact ⟨PV.changed htp s2 h, rfl⟩

theorem dropR_spec (htp : t ≠ p) {F} (s3 : CSt) (h : PV t p w0 s3.w F) :
    PV t p w0 (dropR t p s3).w (fun tv pv => if s3.removedFlag then F tv pv else gR tv (F tv pv)) := by
  unfold dropR
  cases hc : s3.removedFlag with
  | true =>
    simp only [Bool.not_true, Bool.false_eq_true, if_false, if_true]
    exact h
  | false =>
    simp only [Bool.not_false, Bool.false_eq_true, if_false, if_true]
    exact PV.removed htp s3 h

/-- after the drop: the invariant holds, only `p` values differ from the start of `track`, and every
handle's snapshot is its `t` value -/
theorem doDrop_spec (htp : t ≠ p) {s : CSt} (h : RInv t p w0 s) :
    (doDrop t p s).Inv ∧ OnlyP p w0 (doDrop t p s) ∧ ∀ e, comp (doDrop t p s) e p = comp w0 e t := by
  -- stage A: the added components are known
  have hA : ∀ S1 : CSt, S1 = (if !s.addedFlag then (doAdded t p s).1 else s) →
      S1.w = s.w ∧ S1.changedFlag = s.changedFlag ∧ S1.removedFlag = s.removedFlag ∧
      ∀ e v, (e, v) ∈ S1.addedComponents ↔ IsAdded t p w0 e v := by
    intro S1 hS1
    cases haf : s.addedFlag with
    | false =>
      rw [haf] at hS1
      subst hS1
      exact ⟨rfl, rfl, rfl, (h.doAdded htp).added rfl⟩
    | true =>
      rw [haf] at hS1
      subst hS1
      exact ⟨rfl, rfl, rfl, h.added haf⟩
  generalize hS1 : (if !s.addedFlag then (doAdded t p s).1 else s) = S1
  obtain ⟨a1, a2, a3, a4⟩ := hA S1 hS1.symm
  have hd : doDrop t p s =
      (dropR t p (dropC t p
        { S1 with w := S1.addedComponents.foldl (fun w x => (w.insert x.1 [(p, x.2)]).1) S1.w })).w := by
    rw [← hS1]; rfl
  rw [hd]
  -- stage B
  have hB := PV.inserted s.changedFlag s.removedFlag s.w ⟨h.inv, h.only, h.pval⟩ S1.addedComponents a4
  rw [← a1] at hB
  -- stages C and D
  obtain ⟨hC, hCr⟩ := dropC_spec htp
    { S1 with w := S1.addedComponents.foldl (fun w x => (w.insert x.1 [(p, x.2)]).1) S1.w } hB
  have hD := dropR_spec htp _ hC
  refine ⟨hD.inv, hD.only, fun e => ?_⟩
  rw [hD.pval e, hCr]
  simp only [a2, a3]
  exact drop_closed _ _ _ _

end

/-! ### "only `p` differs", at the level of component lists -/

theorem filter_sorted (cs : List Comp) (q : Nat → Bool) (h : strictSorted (cs.map (·.1)) = true) :
    strictSorted ((cs.filter (fun c => q c.1)).map (·.1)) = true := by
  have : (cs.filter (fun c => q c.1)).map (·.1) = (cs.map (·.1)).filter q := by
    rw [List.filter_map]; rfl
  rw [this]
  exact strictSorted_filter _ q h

/-- the components other than `p` of every handle are the same lists -/
theorem OnlyP.visible {p : Nat} {w w' : World} (hw : w.Inv) (hw' : w'.Inv) (h : OnlyP p w w') (e : Entity) :
    (w'.lookup e).map (List.filter (fun c => c.1 != p)) =
      (w.lookup e).map (List.filter (fun c => c.1 != p)) := by
  have hex := h.ex e
  unfold TrackerLemmas.ex at hex
  cases h1 : w.lookup e with
  | none =>
    rw [h1] at hex
    cases h2 : w'.lookup e with
    | none => rfl
    | some cs' => rw [h2] at hex; cases hex
  | some cs =>
    rw [h1] at hex
    cases h2 : w'.lookup e with
    | none => rw [h2] at hex; cases hex
    | some cs' =>
      simp only [Option.map_some, Option.some.injEq]
      apply comps_ext
      · exact filter_sorted cs' (fun t => t != p) (World.lookup_sorted w' hw' e cs' h2)
      · exact filter_sorted cs (fun t => t != p) (World.lookup_sorted w hw e cs h1)
      · intro c
        rw [lookupComp_filter (fun t => t != p) c cs', lookupComp_filter (fun t => t != p) c cs]
        by_cases hc : c = p
        · subst hc; simp
        · have := h.comp e c hc
          rw [comp_of_lookup h2, comp_of_lookup h1] at this
          simp [hc, this]

/-! ### the tracker invariant after a full `track` -/

theorem track_spec {t p : Nat} (htp : t ≠ p) (w : World) (hw : w.Inv) (reads : List Read) :
    (track t p w reads).1.Inv ∧ OnlyP p w (track t p w reads).1 ∧
    ∀ e, comp (track t p w reads).1 e p = comp w e t := by
  rw [track_eq]
  exact doDrop_spec htp (runReads_rinv htp w hw reads)

end Hecs.TrackerLemmas
