import HecsModel.Lemmas.TrackerBase
/-
  C18 (ChangeTracker), part 2: what the world transformers used by the tracker do to the observation
  `comp`:  `setVal` (in-place overwrite through `&mut Previous<T>`), folds of `setVal`, of
  `World.remove e [p]` and of `World.insert e [(p, v)]`.
-/
namespace Hecs.TrackerLemmas
open Hecs Hecs.World Hecs.Tracker

/-- `w'` has the same handles as `w`, the live handles of `w` are live in `w'` (a flush may have
made reserved handles live), and only component `p` may differ -/
structure OnlyP (p : Nat) (w w' : World) : Prop where
  ex : ∀ e, ex w' e = ex w e
  live : ∀ e, w.isLive e = true → w'.isLive e = true
  comp : ∀ e c, c ≠ p → comp w' e c = comp w e c

theorem OnlyP.refl (p : Nat) (w : World) : OnlyP p w w := ⟨fun _ => rfl, fun _ h => h, fun _ _ _ => rfl⟩

theorem OnlyP.trans {p : Nat} {w w' w'' : World} (h1 : OnlyP p w w') (h2 : OnlyP p w' w'') : OnlyP p w w'' :=
  ⟨fun e => (h2.ex e).trans (h1.ex e), fun e h => h2.live e (h1.live e h),
   fun e c hc => (h2.comp e c hc).trans (h1.comp e c hc)⟩

/-- a world all of whose handles are live (flushed), with the handles of `w`, has `w`'s live handles -/
theorem live_of_flushed {w w' : World} (hw : w.Inv) (hf : w'.Flushed) (hex : ∀ e, ex w' e = ex w e)
    (e : Entity) (h : w.isLive e = true) : w'.isLive e = true := by
  rw [World.isLive_of_flushed w' hf e]
  have := hex e
  unfold TrackerLemmas.ex at this
  rw [this]
  exact isLive_ex w hw.core e h

/-! ### `setRow` / `setVal` -/

theorem setRow_good (w : World) (a i : Nat) (r r0 : Row) (hg : w.Good)
    (h0 : (w.rowsOf a)[i]? = some r0) (hid : r.id = r0.id) (hv : r.vals.map (·.1) = r0.vals.map (·.1)) :
    (w.setRow a i r).Good := by
  have ha := lt_of_row h0
  have hi : i < (w.rowsOf a).size := by grind
  have hrc : (w.setRow a i r).rowCount = w.rowCount := by
    have := modRows_rowCount w a (fun rows => rows.set! i r) ha
    rw [setRow_eq]; simp at this ⊢; omega
  refine ⟨⟨?_, ?_⟩, ⟨?_, ?_, ?_, ?_⟩, ?_, hg.cursor_le, ?_, ?_⟩
  · intro id b j hh
    rw [setRow_get]
    have := hg.bij.loc_row id b j hh
    have h1 := hg.bij.row_loc a i r0 h0
    show ∃ r', _
    by_cases hc : b = a ∧ j = i ∧ i < (w.rowsOf a).size
    · rw [if_pos hc]; obtain ⟨rfl, rfl, _⟩ := hc
      refine ⟨r, rfl, ?_⟩
      grind
    · rw [if_neg hc]; exact this
  · intro b j r'; rw [setRow_get]
    show _ → w.locOf r'.id = _
    have h1 := hg.bij.row_loc a i r0 h0
    have h2 := hg.bij.row_loc b j r'
    grind
  · rw [setRow_eq]; simpa using hg.arch.arch0
  · rw [setRow_eq]; simpa using hg.arch.sorted
  · rw [setRow_eq]; simpa using hg.arch.inj
  · intro b j r'; rw [setRow_get]
    have h2 := hg.arch.row_types b j r'
    have h3 := hg.arch.row_types a i r0 h0
    have : (w.setRow a i r).typesOf b = w.typesOf b := by rw [setRow_eq]; simp
    rw [this]
    grind
  · exact ⟨hg.free.nodup, hg.free.iff⟩
  · rw [hrc]; exact hg.len_rows
  · rw [hrc]; exact hg.count

theorem lookup_setRow (w : World) (hb : w.Bij) (a i : Nat) (r : Row) (e : Entity)
    (hgen : w.genAt e.id = some e.gen) (hloc : w.locOf e.id = some (a, i)) (e' : Entity) :
    (w.setRow a i r).lookup e' = if e' = e then some r.vals else w.lookup e' := by
  have hL : ∀ id, (w.setRow a i r).locOf id = w.locOf id := fun _ => rfl
  have hR : (w.setRow a i r).Reserved e' ↔ w.Reserved e' := Iff.rfl
  rw [lookup_eq, lookup_eq, setRow_genAt, hL, setRow_valsOf w a i r e.id e'.id hb hloc]
  by_cases he : e' = e
  · subst he; simp [hgen, hloc]
  · rw [if_neg he]
    by_cases hid : e'.id = e.id
    · have hne : ¬ (w.genAt e'.id = some e'.gen ∧ (w.locOf e'.id).isSome = true) := by
        rintro ⟨h1, _⟩
        rw [hid, hgen] at h1
        apply he
        cases e; cases e'; simp_all
      rw [if_neg hne, if_neg hne]
      by_cases hr : w.Reserved e'
      · rw [if_pos hr, if_pos (hR.2 hr)]
      · rw [if_neg hr, if_neg (fun h => hr (hR.1 h))]
    · rw [if_neg hid]
      by_cases hr : w.Reserved e'
      · rw [if_pos hr, if_pos (hR.2 hr)]
      · rw [if_neg hr, if_neg (fun h => hr (hR.1 h))]

theorem isLive_setRow (w : World) (a i : Nat) (r : Row) (e : Entity) :
    (w.setRow a i r).isLive e = w.isLive e := rfl

/-- a live handle is located in a row carrying its id -/
theorem live_located (w : World) (hg : w.Good) (e : Entity) (hl : w.isLive e = true) :
    ∃ a i r, w.genAt e.id = some e.gen ∧ w.locOf e.id = some (a, i) ∧ (w.rowsOf a)[i]? = some r ∧
      r.id = e.id ∧ w.lookup e = some r.vals := by
  rw [isLive_eq, decide_eq_true_iff] at hl
  obtain ⟨hgen, hl2⟩ := hl
  obtain ⟨⟨a, i⟩, hloc⟩ := Option.isSome_iff_exists.1 hl2
  obtain ⟨r, hr, hid⟩ := hg.bij.loc_row _ _ _ hloc
  refine ⟨a, i, r, hgen, hloc, hr, hid, ?_⟩
  rw [lookup_eq, if_pos ⟨hgen, hl2⟩]
  exact valsOf_of_loc hloc hr

theorem setVal_spec (w : World) (hw : w.Inv) (e : Entity) (hl : w.isLive e = true) (c v : Nat) :
    (setVal w e c v).Inv ∧ (∀ e', (setVal w e c v).isLive e' = w.isLive e') ∧
    ∀ e', (setVal w e c v).lookup e' =
      if e' = e then (w.lookup e).map (putComp (c, v)) else w.lookup e' := by
  have hg := (inv_iff_good w).1 hw
  obtain ⟨a, i, r, hgen, hloc, hr, hid, hlk⟩ := live_located w hg e hl
  have hrow : w.rowAt a i = some r := by rw [rowAt_eq]; exact hr
  have heq : setVal w e c v = w.setRow a i { r with vals := putComp (c, v) r.vals } := by
    simp only [setVal, hloc, hrow]
  rw [heq]
  refine ⟨(inv_iff_good _).2 (setRow_good w a i _ r hg hr rfl (putComp_map _ _)), fun _ => rfl, ?_⟩
  intro e'
  rw [lookup_setRow w hg.bij a i _ e hgen hloc e', hlk]
  rfl

theorem putComp_idem (c : Comp) (vals : List Comp) : putComp c (putComp c vals) = putComp c vals := by
  unfold putComp
  rw [List.map_map]
  apply List.map_congr_left
  intro d _
  simp only [Function.comp]
  split <;> simp_all

/-- a fold of in-place overwrites of component `p`; `f` gives the value written for each handle -/
theorem foldl_setVal_spec (p : Nat) (f : Entity → Nat) (items : List (Entity × Nat × Nat)) (w : World)
    (hw : w.Inv) (hlive : ∀ x ∈ items, w.isLive x.1 = true) (hf : ∀ x ∈ items, x.2.2 = f x.1) :
    (items.foldl (fun w x => setVal w x.1 p x.2.2) w).Inv ∧
    (∀ e', (items.foldl (fun w x => setVal w x.1 p x.2.2) w).isLive e' = w.isLive e') ∧
    ∀ e', (items.foldl (fun w x => setVal w x.1 p x.2.2) w).lookup e' =
      if e' ∈ items.map (·.1) then (w.lookup e').map (putComp (p, f e')) else w.lookup e' := by
  induction items generalizing w with
  | nil => exact ⟨hw, fun _ => rfl, fun _ => by simp⟩
  | cons x xs ih =>
    obtain ⟨h1, h2, h3⟩ := setVal_spec w hw x.1 (hlive x (by simp)) p x.2.2
    obtain ⟨i1, i2, i3⟩ := ih (setVal w x.1 p x.2.2) h1
      (fun y hy => by rw [h2]; exact hlive y (List.mem_cons_of_mem _ hy))
      (fun y hy => hf y (List.mem_cons_of_mem _ hy))
    rw [List.foldl_cons]
    refine ⟨i1, fun e' => (i2 e').trans (h2 e'), ?_⟩
    intro e'
    rw [i3, h3, hf x (by simp)]
    simp only [List.map_cons, List.mem_cons]
    by_cases he : e' = x.1
    · subst he
      simp only [if_true, true_or]
      split
      · cases w.lookup x.1 with
        | none => rfl
        | some cs => simp [putComp_idem]
      · rfl
    · simp only [he, false_or, if_false]

/-! ### `remove e [p]` -/

theorem remove_p_spec (w : World) (hw : w.Inv) (e : Entity) (p : Nat) :
    (w.remove e [p]).1.Flushed ∧
    (∀ e', ex (w.remove e [p]).1 e' = ex w e') ∧
    (∀ e' c, comp (w.remove e [p]).1 e' c = if e' = e ∧ c = p then none else comp w e' c) ∧
    (∀ v, comp w e p = some v → (w.remove e [p]).2.res = .vals [(p, v)]) ∧
    (comp w e p = none → ∀ x, (w.remove e [p]).2.res ≠ .vals [x]) := by
  have hg := (inv_iff_good w).1 hw
  refine ⟨remove_flushed w e [p] hg, ?_⟩
  have hfl := World.lookup_flush w hw
  have hframe := Props.C01.remove_frame w e [p] hw
  cases hlk : w.flush.lookup e with
  | none =>
    have heq := (Props.C01.remove_cases w e [p] hw).1 hlk
    have hce : ∀ c, comp w e c = none := fun c => comp_of_lookup_none (by rw [← hfl]; exact hlk) c
    rw [heq]
    refine ⟨fun e' => ex_flush w hw e', ?_, ?_, ?_⟩
    · intro e' c
      rw [comp_flush w hw]
      split
      · rename_i h; rw [h.1, hce]
      · rfl
    · intro v hv; rw [hce] at hv; cases hv
    · intro _ x hx; cases hx
  | some old =>
    have hlk' : w.lookup e = some old := by rw [← hfl]; exact hlk
    cases hp : lookupComp p old with
    | none =>
      have hbg : World.bundleGet old [p] = none := by simp [World.bundleGet, hp]
      have heq := (Props.C01.remove_cases w e [p] hw).2 old hlk hbg
      rw [heq]
      refine ⟨fun e' => ex_flush w hw e', ?_, ?_, ?_⟩
      · intro e' c
        rw [comp_flush w hw]
        split
        · rename_i h; rw [h.1, h.2, comp_of_lookup hlk', hp]
        · rfl
      · intro v hv; rw [comp_of_lookup hlk', hp] at hv; cases hv
      · intro _ x hx; cases hx
    | some v =>
      have hbg : World.bundleGet old [p] = some [(p, v)] := by simp [World.bundleGet, hp]
      obtain ⟨h1, _, _, _, h5⟩ := Props.C01.remove_effect w e [p] hw old [(p, v)] hlk hbg
      have hlook : ∀ e', (w.remove e [p]).1.lookup e' =
          if e' = e then some (old.filter (fun c => !([p].contains c.1))) else w.lookup e' := by
        intro e'
        by_cases he : e' = e
        · subst he; rw [if_pos rfl, h5]
        · rw [if_neg he, hframe e' he, hfl]
      refine ⟨?_, ?_, ?_, ?_⟩
      · intro e'
        unfold TrackerLemmas.ex
        rw [hlook]
        split
        · rename_i h; subst h; simp [hlk']
        · rfl
      · intro e' c
        unfold TrackerLemmas.comp
        rw [hlook]
        by_cases he : e' = e
        · subst he
          rw [if_pos rfl, hlk']
          simp only [Option.bind_some]
          rw [lookupComp_filter (fun t => !([p].contains t)) c old]
          by_cases hc : c = p
          · subst hc; simp
          · simp [hc]
        · simp [he]
      · intro v' hv'
        rw [comp_of_lookup hlk', hp] at hv'
        cases hv'
        exact h1
      · intro hn; rw [comp_of_lookup hlk', hp] at hn; cases hn

/-- the step of the fold inside `doRemoved` -/
def remStep (p : Nat) (acc : World × List (Entity × Nat)) (e : Entity) : World × List (Entity × Nat) :=
  let (w', o) := acc.1.remove e [p]
  match o.res with
  | .vals [(_, v)] => (w', acc.2 ++ [(e, v)])
  | _ => (w', acc.2)

theorem doRemoved_eq (t p : Nat) (s : CSt) :
    doRemoved t p s =
      ({ s with
          w := (((s.w.queryIter (.without (.with_ .unit (.read p)) (.read t))).map (·.1)).foldl
            (remStep p) (s.w, [])).1,
          removedFlag := true },
       (((s.w.queryIter (.without (.with_ .unit (.read p)) (.read t))).map (·.1)).foldl
            (remStep p) (s.w, [])).2) := rfl

theorem remStep_fst (p : Nat) (acc : World × List (Entity × Nat)) (e : Entity) :
    (remStep p acc e).1 = (acc.1.remove e [p]).1 := by
  unfold remStep
  simp only
  split <;> rfl

theorem remStep_snd_some (p : Nat) (acc : World × List (Entity × Nat)) (e : Entity) (v : Nat)
    (h : (acc.1.remove e [p]).2.res = .vals [(p, v)]) : (remStep p acc e).2 = acc.2 ++ [(e, v)] := by
  unfold remStep
  simp only [h]

theorem remStep_snd_none (p : Nat) (acc : World × List (Entity × Nat)) (e : Entity)
    (h : ∀ x, (acc.1.remove e [p]).2.res ≠ .vals [x]) : (remStep p acc e).2 = acc.2 := by
  unfold remStep
  simp only
  split
  · rename_i c v heq; exact absurd heq (h _)
  · rfl

theorem foldl_remStep_spec (p : Nat) (ents : List Entity) (w : World) (hw : w.Inv)
    (acc : List (Entity × Nat)) :
    (ents.foldl (remStep p) (w, acc)).1.Inv ∧
    (∀ e', ex (ents.foldl (remStep p) (w, acc)).1 e' = ex w e') ∧
    (∀ e', w.isLive e' = true → (ents.foldl (remStep p) (w, acc)).1.isLive e' = true) ∧
    (∀ e' c, comp (ents.foldl (remStep p) (w, acc)).1 e' c =
      if e' ∈ ents ∧ c = p then none else comp w e' c) ∧
    (∀ x, x ∈ (ents.foldl (remStep p) (w, acc)).2 ↔
      x ∈ acc ∨ (x.1 ∈ ents ∧ comp w x.1 p = some x.2)) := by
  induction ents generalizing w acc with
  | nil => exact ⟨hw, fun _ => rfl, fun _ h => h, fun _ _ => by simp, fun _ => by simp⟩
  | cons e es ih =>
    obtain ⟨r1, r2, r3, r4, r5⟩ := remove_p_spec w hw e p
    have hw1 : (remStep p (w, acc) e).1.Inv := by rw [remStep_fst]; exact r1.inv
    rw [List.foldl_cons]
    have hpair : remStep p (w, acc) e = ((w.remove e [p]).1, (remStep p (w, acc) e).2) := by
      rw [← remStep_fst p (w, acc) e]
    rw [hpair]
    obtain ⟨i1, i2, i3, i4, i5⟩ := ih (w.remove e [p]).1 r1.inv (remStep p (w, acc) e).2
    refine ⟨i1, fun e' => (i2 e').trans (r2 e'), ?_, ?_, ?_⟩
    · intro e' h
      exact i3 e' (live_of_flushed hw r1 r2 e' h)
    · intro e' c
      rw [i4, r3]
      simp only [List.mem_cons]
      by_cases h1 : c = p <;> by_cases h2 : e' = e <;> by_cases h3 : e' ∈ es <;> simp [h1, h2, h3]
    · rintro ⟨xe, xv⟩
      rw [i5, r3]
      simp only [List.mem_cons]
      cases hc : comp w e p with
      | none =>
        rw [remStep_snd_none p (w, acc) e (r5 hc)]
        by_cases h2 : xe = e
        · subst h2; simp [hc]
        · simp [h2]
      | some v =>
        rw [remStep_snd_some p (w, acc) e v (r4 v hc)]
        simp only [List.mem_append, List.mem_singleton, Prod.mk.injEq]
        by_cases h2 : xe = e
        · subst h2
          simp only [and_self, if_true, true_or, true_and, hc, Option.some.injEq, reduceCtorEq, and_false,
            or_false]
          constructor
          · rintro (h | h)
            · exact Or.inl h
            · exact Or.inr h.symm
          · rintro (h | h)
            · exact Or.inl h
            · exact Or.inr h.symm
        · simp [h2]

/-! ### `insert e [(p, v)]` -/

theorem insert_p_spec (w : World) (hw : w.Inv) (e : Entity) (p v : Nat) :
    (w.insert e [(p, v)]).1.Flushed ∧
    (∀ e', ex (w.insert e [(p, v)]).1 e' = ex w e') ∧
    (∀ e' c, comp (w.insert e [(p, v)]).1 e' c =
      if e' = e ∧ ex w e = true ∧ c = p then some v else comp w e' c) := by
  have hg := (inv_iff_good w).1 hw
  have hb : (Op.insert e [(p, v)]).WF := by simp [Op.WF]
  refine ⟨insert_flushed w e [(p, v)] hg hb, ?_⟩
  have hfl := World.lookup_flush w hw
  have hframe := Props.C01.insert_frame w e [(p, v)] hw hb
  cases hlk : w.flush.lookup e with
  | none =>
    have hlk' : w.lookup e = none := by rw [← hfl]; exact hlk
    rw [Props.C01.insert_nosuch w e [(p, v)] hw hb hlk]
    refine ⟨fun e' => ex_flush w hw e', ?_⟩
    intro e' c
    rw [comp_flush w hw]
    have : ex w e = false := by simp [TrackerLemmas.ex, hlk']
    simp [this]
  | some old =>
    have hlk' : w.lookup e = some old := by rw [← hfl]; exact hlk
    obtain ⟨_, _, new, h3, _, h5⟩ := Props.C01.insert_effect w e [(p, v)] hw hb old hlk
    have hex : ex w e = true := by simp [TrackerLemmas.ex, hlk']
    constructor
    · intro e'
      by_cases he : e' = e
      · subst he; simp [TrackerLemmas.ex, h3, hlk']
      · unfold TrackerLemmas.ex; rw [hframe e' he, hfl]
    · intro e' c
      by_cases he : e' = e
      · subst he
        rw [comp_of_lookup h3, h5, comp_of_lookup hlk']
        by_cases hc : c = p
        · subst hc; simp [hex, lookupComp]
        · simp [hc]
      · unfold TrackerLemmas.comp
        rw [hframe e' he, hfl]
        simp [he]

theorem foldl_insert_spec (p : Nat) (f : Entity → Nat) (items : List (Entity × Nat)) (w : World)
    (hw : w.Inv) (hf : ∀ x ∈ items, x.2 = f x.1) :
    (items.foldl (fun w x => (w.insert x.1 [(p, x.2)]).1) w).Inv ∧
    (∀ e', ex (items.foldl (fun w x => (w.insert x.1 [(p, x.2)]).1) w) e' = ex w e') ∧
    (∀ e', w.isLive e' = true →
      (items.foldl (fun w x => (w.insert x.1 [(p, x.2)]).1) w).isLive e' = true) ∧
    (∀ e' c, comp (items.foldl (fun w x => (w.insert x.1 [(p, x.2)]).1) w) e' c =
      if e' ∈ items.map (·.1) ∧ ex w e' = true ∧ c = p then some (f e') else comp w e' c) := by
  induction items generalizing w with
  | nil => exact ⟨hw, fun _ => rfl, fun _ h => h, fun _ _ => by simp⟩
  | cons x xs ih =>
    obtain ⟨r1, r2, r3⟩ := insert_p_spec w hw x.1 p x.2
    obtain ⟨i1, i2, i3, i4⟩ := ih (w.insert x.1 [(p, x.2)]).1 r1.inv
      (fun y hy => hf y (List.mem_cons_of_mem _ hy))
    rw [List.foldl_cons]
    refine ⟨i1, fun e' => (i2 e').trans (r2 e'), ?_, ?_⟩
    · intro e' h
      exact i3 e' (live_of_flushed hw r1 r2 e' h)
    · intro e' c
      rw [i4, r3, r2, hf x (by simp)]
      simp only [List.map_cons, List.mem_cons]
      by_cases h2 : e' = x.1
      · rw [h2]
        by_cases h1 : c = p <;> by_cases h3 : x.1 ∈ xs.map (·.1) <;>
          by_cases h4 : ex w x.1 = true <;> simp [h1, h3, h4]
      · by_cases h1 : c = p <;> by_cases h3 : e' ∈ xs.map (·.1) <;>
          by_cases h4 : ex w e' = true <;> simp [h1, h2, h3, h4]

end Hecs.TrackerLemmas
