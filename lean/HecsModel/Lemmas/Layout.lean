import HecsModel.Model.Builder
import HecsModel.Generated.Facts
/-
  Layout arithmetic behind C04 (type-erased column storage): `next_power_of_two`, the Rust `align`
  expression versus `alignUp`, and the index/offset arithmetic of columns, arenas and batches.
-/
namespace Hecs.LayoutLemmas
open Hecs

/-! ## A. `nextPow2` -/

theorem le_nextPow2Aux (fuel : Nat) : ∀ (p n : Nat), n ≤ p * 2 ^ fuel → n ≤ nextPow2Aux fuel p n := by
  induction fuel with
  | zero => intro p n h; simpa [nextPow2Aux] using h
  | succ f ih =>
    intro p n h
    unfold nextPow2Aux
    split
    · apply ih
      rw [Nat.pow_succ] at h
      rw [Nat.mul_comm 2 p, Nat.mul_assoc, Nat.mul_comm 2]
      exact h
    · omega

/-- the model of `usize::next_power_of_two` does not round down (for every argument up to `2^64`) -/
theorem le_nextPow2' (n : Nat) (h : n ≤ 2 ^ 64) : n ≤ nextPow2 n := by
  unfold nextPow2
  apply le_nextPow2Aux
  rw [Nat.one_mul]; exact h

theorem le_nextPow2 (n : Nat) (h : n ≤ 2 ^ 63) : n ≤ nextPow2 n := by
  apply le_nextPow2'
  have : (2 : Nat) ^ 63 ≤ 2 ^ 64 := Nat.pow_le_pow_right (by decide) (by decide)
  exact Nat.le_trans h this

theorem nextPow2Aux_isPow2 (fuel : Nat) :
    ∀ (p n : Nat), (∃ j, p = 2 ^ j) → ∃ k, nextPow2Aux fuel p n = 2 ^ k := by
  induction fuel with
  | zero => intro p n h; simpa [nextPow2Aux] using h
  | succ f ih =>
    intro p n h
    unfold nextPow2Aux
    split
    · apply ih
      obtain ⟨j, rfl⟩ := h
      exact ⟨j + 1, by rw [Nat.pow_succ, Nat.mul_comm]⟩
    · exact h

theorem nextPow2_isPow2 (n : Nat) : ∃ k, nextPow2 n = 2 ^ k :=
  nextPow2Aux_isPow2 64 1 n ⟨0, rfl⟩

theorem nextPow2_pos (n : Nat) : 0 < nextPow2 n := by
  obtain ⟨k, hk⟩ := nextPow2_isPow2 n
  rw [hk]; exact Nat.pow_pos (by decide)

theorem nextPow2Aux_lt_two_mul (fuel : Nat) :
    ∀ (p n : Nat), p < 2 * n → nextPow2Aux fuel p n < 2 * n := by
  induction fuel with
  | zero => intro p n h; simpa [nextPow2Aux] using h
  | succ f ih =>
    intro p n h
    unfold nextPow2Aux
    split
    · apply ih; omega
    · exact h

/-- `next_power_of_two` is the *least* power of two: it stays below `2 * n` -/
theorem nextPow2_lt_two_mul (n : Nat) (h : 0 < n) : nextPow2 n < 2 * n :=
  nextPow2Aux_lt_two_mul 64 1 n (by omega)

/-! ## C. `alignUp` -/

theorem alignUp_mod (x a : Nat) : alignUp x a % a = 0 := by
  unfold alignUp; exact Nat.mul_mod_left _ _

theorem alignUp_mono_le (x a : Nat) (ha : 0 < a) : x ≤ alignUp x a := by
  unfold alignUp
  have := Nat.div_add_mod (x + a - 1) a
  have hm := Nat.mod_lt (x + a - 1) ha
  rw [Nat.mul_comm] at this
  omega

theorem alignUp_lt (x a : Nat) (ha : 0 < a) : alignUp x a < x + a := by
  unfold alignUp
  have := Nat.div_add_mod (x + a - 1) a
  rw [Nat.mul_comm] at this
  omega

/-! ## B. the Rust expression `(x + alignment - 1) & (!alignment + 1)` is `alignUp` -/

/-- masking with `2^w - 2^k` clears the low `k` bits of a `w`-bit number -/
theorem and_two_pow_sub_two_pow (w k y : Nat) (hk : k ≤ w) (hy : y < 2 ^ w) :
    y &&& (2 ^ w - 2 ^ k) = y / 2 ^ k * 2 ^ k := by
  have hm : 2 ^ w - 2 ^ k = (2 ^ (w - k) - 1) * 2 ^ k := by
    rw [Nat.sub_mul, Nat.one_mul, ← Nat.pow_add, Nat.sub_add_cancel hk]
  rw [hm]
  apply Nat.eq_of_testBit_eq
  intro i
  rw [Nat.testBit_and, Nat.testBit_mul_two_pow, Nat.testBit_mul_two_pow, Nat.testBit_div_two_pow,
    Nat.testBit_two_pow_sub_one]
  by_cases hki : k ≤ i
  · have e : i - k + k = i := Nat.sub_add_cancel hki
    rw [e]
    by_cases hiw : i < w
    · have : i - k < w - k := by omega
      simp [hki, this]
    · have hlt : y < 2 ^ i := Nat.lt_of_lt_of_le hy (Nat.pow_le_pow_right (by decide) (by omega))
      simp [Nat.testBit_lt_two_pow hlt]
  · simp [hki]

/-- `x + a - 1` on 64-bit words does not wrap when `x + a ≤ 2^64` and `a ≥ 1` (the intermediate sum
may wrap to `0`, the subtraction wraps back) -/
theorem add_sub_one_toNat (x a : BitVec 64) (ha : 0 < a.toNat) (hx : x.toNat + a.toNat ≤ 2 ^ 64) :
    ((x + a) - 1#64).toNat = x.toNat + a.toNat - 1 := by
  rw [BitVec.toNat_sub, BitVec.toNat_add]
  have h1 : (1#64).toNat = 1 := rfl
  rw [h1]
  generalize (2 : Nat) ^ 64 = W at *
  generalize x.toNat = X at *
  generalize a.toNat = A at *
  by_cases h : X + A = W
  · rw [h, Nat.mod_self, Nat.add_zero]
    exact Nat.mod_eq_of_lt (by omega)
  · have hl : X + A < W := by omega
    rw [Nat.mod_eq_of_lt hl]
    have e : W - 1 + (X + A) = (X + A - 1) + W := by omega
    rw [e, Nat.add_mod_right]
    exact Nat.mod_eq_of_lt (by omega)

/-- `!a + 1` is `-a`, i.e. `2^64 - a` for a non-zero `a` -/
theorem not_add_one_toNat (a : BitVec 64) (ha : 0 < a.toNat) :
    (~~~a + 1#64).toNat = 2 ^ 64 - a.toNat := by
  rw [← BitVec.neg_eq_not_add, BitVec.toNat_neg]
  have := a.isLt
  exact Nat.mod_eq_of_lt (by omega)

/-- **`lib.rs::align` is `alignUp`**: for a power-of-two alignment and no overflow of `x + alignment`
beyond `2^64`, the bit-twiddling expression regenerated from the Rust source rounds `x` up to the next
multiple of the alignment. -/
theorem alignExpr_eq_alignUp (x a : BitVec 64) (k : Nat) (hk : k < 64) (ha : a.toNat = 2 ^ k)
    (hx : x.toNat + a.toNat ≤ 2 ^ 64) :
    (Hecs.Generated.alignExpr x a).toNat = alignUp x.toNat a.toNat := by
  have hpos : 0 < a.toNat := by rw [ha]; exact Nat.pow_pos (by decide)
  have hlt : 2 ^ k < 2 ^ 64 := Nat.pow_lt_pow_right (by decide) hk
  unfold Hecs.Generated.alignExpr alignUp
  rw [BitVec.toNat_and, add_sub_one_toNat x a hpos hx, not_add_one_toNat a hpos, ha]
  rw [ha] at hx
  apply and_two_pow_sub_two_pow 64 k _ (Nat.le_of_lt hk)
  have : 0 < 2 ^ k := Nat.pow_pos (by decide)
  generalize (2 : Nat) ^ 64 = W at *
  generalize (2 : Nat) ^ k = P at *
  omega

/-- the same, with the result as a multiple of the alignment at least `x` -/
theorem alignExpr_spec (x a : BitVec 64) (k : Nat) (hk : k < 64) (ha : a.toNat = 2 ^ k)
    (hx : x.toNat + a.toNat ≤ 2 ^ 64) :
    (Hecs.Generated.alignExpr x a).toNat % a.toNat = 0 ∧
      x.toNat ≤ (Hecs.Generated.alignExpr x a).toNat ∧
      (Hecs.Generated.alignExpr x a).toNat < x.toNat + a.toNat := by
  have hpos : 0 < a.toNat := by rw [ha]; exact Nat.pow_pos (by decide)
  rw [alignExpr_eq_alignUp x a k hk ha hx]
  exact ⟨alignUp_mod _ _, alignUp_mono_le _ _ hpos, alignUp_lt _ _ hpos⟩

/-- the same on naturals: the harness's `(x, 2^k)` inputs, embedded as 64-bit words -/
theorem alignExpr_ofNat (x k : Nat) (hk : k < 64) (hx : x + 2 ^ k ≤ 2 ^ 64) :
    (Hecs.Generated.alignExpr (BitVec.ofNat 64 x) (BitVec.ofNat 64 (2 ^ k))).toNat
      = alignUp x (2 ^ k) := by
  have hpos : 0 < 2 ^ k := Nat.pow_pos (by decide)
  have hlt : 2 ^ k < 2 ^ 64 := Nat.pow_lt_pow_right (by decide) hk
  have ea : (BitVec.ofNat 64 (2 ^ k)).toNat = 2 ^ k := by
    rw [BitVec.toNat_ofNat]; exact Nat.mod_eq_of_lt hlt
  have ex : (BitVec.ofNat 64 x).toNat = x := by
    rw [BitVec.toNat_ofNat]; exact Nat.mod_eq_of_lt (by omega)
  have := alignExpr_eq_alignUp (BitVec.ofNat 64 x) (BitVec.ofNat 64 (2 ^ k)) k hk ea
    (by rw [ea, ex]; exact hx)
  rw [ea, ex] at this
  exact this

/-- `Common::add`'s regrown arena (`max (next_power_of_two stop) 64`) holds the new slot -/
theorem arena_grow_fits (stop : Nat) (h : stop ≤ 2 ^ 63) : stop ≤ max (nextPow2 stop) 64 :=
  Nat.le_trans (le_nextPow2 stop h) (Nat.le_max_left _ _)

/-! ## C. column arithmetic -/

theorem col_in_bounds (size i cap : Nat) (h : i < cap) : size * i + size ≤ size * cap := by
  have : size * (i + 1) ≤ size * cap := Nat.mul_le_mul_left size h
  rw [Nat.mul_succ] at this
  exact this

theorem chunk_iter_in_bounds (size position len : Nat) (h : position < len) :
    size * position + size ≤ size * len := col_in_bounds size position len h

theorem col_aligned (base size align i : Nat) (hb : base % align = 0) (hs : size % align = 0) :
    (base + size * i) % align = 0 := by
  have h1 : align ∣ base := Nat.dvd_of_mod_eq_zero hb
  have h2 : align ∣ size * i := Nat.dvd_trans (Nat.dvd_of_mod_eq_zero hs) (Nat.dvd_mul_right _ _)
  exact Nat.mod_eq_zero_of_dvd (Nat.dvd_add h1 h2)

theorem grow_copy_in_bounds (size count oldCap newCap : Nat) (h1 : count ≤ oldCap)
    (h2 : oldCap ≤ newCap) : size * count ≤ size * newCap :=
  Nat.mul_le_mul_left size (Nat.le_trans h1 h2)

/-- `Archetype::reserve` → `grow` → `grow_exact`: the capacity after `reserve(additional)` -/
def reserveCap (cap len additional : Nat) : Nat :=
  if additional > cap - len then cap + max cap (max (additional - (cap - len)) 64) else cap

theorem reserve_enough (cap len additional : Nat) (h : len ≤ cap) :
    len + additional ≤ reserveCap cap len additional := by
  unfold reserveCap
  split <;> omega

theorem reserveCap_ge (cap len additional : Nat) : cap ≤ reserveCap cap len additional := by
  unfold reserveCap
  split <;> omega

/-- `Archetype::allocate`: grow by `max cap 64` when full -/
def allocateCap (cap len : Nat) : Nat := if len = cap then cap + max cap 64 else cap

theorem allocate_grows (cap len : Nat) (h : len ≤ cap) : len < allocateCap cap len := by
  unfold allocateCap
  split <;> omega

theorem allocateCap_ge (cap len : Nat) : cap ≤ allocateCap cap len := by
  unfold allocateCap
  split <;> omega

/-- with layouts sorted by descending alignment and power-of-two alignments, the first (largest)
alignment is a multiple of every alignment in the list -/
theorem zst_ptr_aligned_dvd (m : Nat) (rest : List Nat)
    (hs : (m :: rest).Pairwise (· ≥ ·)) (hp : ∀ a ∈ m :: rest, ∃ k, a = 2 ^ k) :
    ∀ a ∈ m :: rest, a ∣ m := by
  intro a ha
  rcases List.mem_cons.1 ha with rfl | har
  · exact Nat.dvd_refl _
  · have hge : m ≥ a := (List.pairwise_cons.1 hs).1 a har
    obtain ⟨i, rfl⟩ := hp m (List.mem_cons_self ..)
    obtain ⟨j, rfl⟩ := hp a ha
    exact Nat.pow_dvd_pow 2 ((Nat.pow_le_pow_iff_right (by decide)).1 hge)

/-- so the dangling pointer `max_align` used for empty (zero-sized) columns is aligned for every column -/
theorem zst_ptr_aligned (m : Nat) (rest : List Nat)
    (hs : (m :: rest).Pairwise (· ≥ ·)) (hp : ∀ a ∈ m :: rest, ∃ k, a = 2 ^ k) :
    ∀ a ∈ m :: rest, m % a = 0 :=
  fun a ha => Nat.mod_eq_zero_of_dvd (zst_ptr_aligned_dvd m rest hs hp a ha)

theorem batched_bounds (offset batch len : Nat) (h : offset < len) :
    offset + min batch (len - offset) ≤ len := by omega

theorem slot_address_aligned_core (base off al layAlign : Nat) (ho : off % al = 0)
    (hd : al ∣ layAlign) (hb : base % layAlign = 0) : (base + off) % al = 0 := by
  have h1 : al ∣ base := Nat.dvd_trans hd (Nat.dvd_of_mod_eq_zero hb)
  exact Nat.mod_eq_zero_of_dvd (Nat.dvd_add h1 (Nat.dvd_of_mod_eq_zero ho))

end Hecs.LayoutLemmas
