import HecsModel.Model.Atomics
import HecsModel.Model.Borrow
import HecsModel.Generated.Facts
/-
  Tie between the small-step model of `AtomicBorrow` and the atomic call sites extracted from
  borrow.rs on this run (translator, DESIGN §3.4).
-/
namespace Hecs.Borrow
open Hecs.Atomics

/-- the call site each model action stands for -/
def Act.site : Act → Site
  | .borrowAdd => ⟨.borrow, .fetchAdd, .one, [.acquire]⟩
  | .borrowUndo => ⟨.borrow, .fetchSub, .one, [.release]⟩
  | .borrowMut => ⟨.borrowMut, .compareExchange, .zeroToUnique, [.acquire, .relaxed]⟩
  | .release => ⟨.release, .fetchSub, .one, [.release]⟩
  | .releaseMut => ⟨.releaseMut, .fetchAnd, .notUnique, [.release]⟩

/-- granting sites must acquire, releasing/rollback sites must release (success ordering) -/
def siteOrderingOk (s : Site) : Bool :=
  match s.fn, s.meth, s.ords with
  | .borrow, .fetchAdd, [o] => o.acquires
  | .borrow, .fetchSub, [o] => o.releases
  | .borrowMut, .compareExchange, [o, _] => o.acquires
  | .release, .fetchSub, [o] => o.releases
  | .releaseMut, .fetchAnd, [o] => o.releases
  | _, _, _ => false

/-- the shape of a site without its orderings (method and operand are what the model's `act` encodes) -/
def siteShape (s : Site) : Fn × Meth × Operand := (s.fn, s.meth, s.operand)

end Hecs.Borrow
