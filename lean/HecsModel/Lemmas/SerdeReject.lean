import HecsModel.Lemmas.SerdeTotal
/-
  C15, rejection: concrete classes of malformed input and the proof that each is refused.
-/
namespace Hecs.SerdeLemmas
open Hecs Hecs.Serde

theorem error_of_not_ok {α : Type} (x : Except String α) (h : ∀ a, x ≠ .ok a) : ∃ m, x = .error m := by
  cases x with
  | error m => exact ⟨m, rfl⟩
  | ok a => exact absurd rfl (h a)

/-! ### small parsers -/

theorem natsOf_eq_some (xs : List Tree) (l : List Nat) : natsOf xs = some l ↔ xs = l.map Tree.num := by
  induction xs generalizing l with
  | nil => cases l <;> simp [natsOf]
  | cons x xs ih =>
    cases x with
    | num n =>
      simp only [natsOf, Option.map_eq_some_iff]
      constructor
      · rintro ⟨r, hr, rfl⟩; rw [(ih r).1 hr]; rfl
      · intro h
        cases l with
        | nil => simp at h
        | cons a r =>
          simp only [List.map_cons, List.cons.injEq, Tree.num.injEq] at h
          exact ⟨r, (ih r).2 h.2, by rw [h.1]⟩
    | seq ys => cases l <;> simp [natsOf]
    | map ys => cases l <;> simp [natsOf]

theorem natsOf_map_num (l : List Nat) : natsOf (l.map Tree.num) = some l := (natsOf_eq_some _ l).2 rfl

theorem mapM_eq_some {α β : Type} (f : α → Option β) (l : List α) (r : List β) :
    l.mapM f = some r ↔ l.map f = r.map some := by
  induction l generalizing r with
  | nil => cases r <;> simp
  | cons a l ih =>
    rw [List.mapM_cons]
    cases r with
    | nil => cases hfa : f a <;> cases hl : l.mapM f <;> simp
    | cons b r =>
      rw [List.map_cons, List.map_cons, List.cons.injEq, ← ih r]
      cases hfa : f a <;> cases hl : l.mapM f <;> simp

theorem entityOfBits_eq_some (n : Nat) (e : Entity) (h : entityOfBits n = some e) :
    n < 18446744073709551616 ∧ 4294967296 ≤ n ∧ e = ⟨n % 4294967296, n / 4294967296⟩ := by
  unfold entityOfBits at h
  split at h
  · cases h
  · split at h
    · cases h
    · cases h; refine ⟨by omega, by omega, rfl⟩

theorem entityOfBits_small (n : Nat) (h : n < 4294967296) : entityOfBits n = none := by
  unfold entityOfBits
  have : n / 4294967296 = 0 := by omega
  have h2 : ¬ n ≥ 18446744073709551616 := by omega
  simp [this, h2]

/-! ### row format -/

theorem deEntityMap_unknown (H : List Nat) (comps : List (Tree × Tree)) (acc : List Comp) (t : Nat) (x : Tree)
    (hmem : (Tree.num t, x) ∈ comps) (ht : t ∉ H) : ∃ m, deEntityMap H comps acc = .error m := by
  fun_induction deEntityMap H comps acc with
  | case1 acc => simp at hmem
  | case2 t' v rest acc hc ih =>
    rcases List.mem_cons.1 hmem with h | h
    · cases h; simp at hc; exact absurd hc ht
    · exact ih h
  | case3 => exact ⟨_, rfl⟩
  | case4 => exact ⟨_, rfl⟩

/-- an entry that, taken alone, is refused makes the whole input refused -/
theorem deRowEntries_error_of_entry (H : List Nat) (kvs : List (Tree × Tree)) (w : World)
    (p : Tree × Tree) (hp : p ∈ kvs) (hbad : ∀ w0, ∃ m, deRowEntries H [p] w0 = .error m) :
    ∃ m, deRowEntries H kvs w = .error m := by
  fun_induction deRowEntries H kvs w with
  | case1 w => simp at hp
  | case2 k comps rest w hk => exact ⟨_, rfl⟩
  | case3 k comps rest w e he m hm => exact ⟨_, rfl⟩
  | case4 k comps rest w e he b hb ih =>
    rcases List.mem_cons.1 hp with h | h
    · subst h
      obtain ⟨m, hm⟩ := hbad w
      simp [deRowEntries, he, hb] at hm
    · exact ih h
  | case5 => exact ⟨_, rfl⟩

/-- row format: a key whose upper half (the generation) is zero is refused -/
theorem deRow_zero_generation (H : List Nat) (kvs : List (Tree × Tree)) (k : Nat) (v : Tree)
    (hmem : (Tree.num k, v) ∈ kvs) (hk : k < 4294967296) : ∃ m, deRow H (.map kvs) = .error m := by
  apply deRowEntries_error_of_entry H kvs _ _ hmem
  intro w0
  cases v with
  | map comps => exact ⟨"invalid entity bits", by simp [deRowEntries, entityOfBits_small k hk]⟩
  | num n => exact ⟨_, rfl⟩
  | seq xs => exact ⟨_, rfl⟩

/-- row format: a component id the context does not handle is refused -/
theorem deRow_unknown_component (H : List Nat) (kvs : List (Tree × Tree)) (k : Tree)
    (comps : List (Tree × Tree)) (t : Nat) (x : Tree)
    (hmem : (k, Tree.map comps) ∈ kvs) (hc : (Tree.num t, x) ∈ comps) (ht : t ∉ H) :
    ∃ m, deRow H (.map kvs) = .error m := by
  apply deRowEntries_error_of_entry H kvs _ _ hmem
  intro w0
  cases k with
  | num k =>
    obtain ⟨m, hm⟩ := deEntityMap_unknown H comps [] t x hc ht
    cases he : entityOfBits k with
    | none => exact ⟨"invalid entity bits", by simp [deRowEntries, he]⟩
    | some e => exact ⟨m, by simp [deRowEntries, he, hm]⟩
  | seq xs => exact ⟨_, rfl⟩
  | map xs => exact ⟨_, rfl⟩

/-! ### column format -/

theorem deColumn_ok (n : Nat) (c : Tree) (vs : List Nat) (h : deColumn n c = .ok vs) :
    c = .seq (vs.map Tree.num) ∧ vs.length = n := by
  unfold deColumn at h
  split at h
  · split at h
    · cases h
    · rename_i xs vs' hvs
      split at h
      · cases h
      · split at h
        · cases h
        · cases h; exact ⟨by rw [(natsOf_eq_some _ _).1 hvs], by omega⟩
  · cases h

theorem deColumn_eq (vs : List Nat) : deColumn vs.length (.seq (vs.map Tree.num)) = .ok vs := by
  simp [deColumn, natsOf_map_num]

/-- what an accepted column list looks like: one well-formed column per listed id — of length `n`
for an id not seen before, empty for an id listed again — and the rest handed back -/
theorem deColumns_ok (n : Nat) (idl : List Nat) (cols : List Tree) (acc filled : List (Nat × List Nat))
    (rest : List Tree) (h : deColumns n idl cols acc = .ok (filled, rest)) :
    ∃ used, cols = used ++ rest ∧ used.length = idl.length ∧
      (∀ c ∈ used, ∃ vs : List Nat, c = .seq (vs.map Tree.num) ∧ (vs.length = n ∨ vs.length = 0)) ∧
      ((acc.map (·.1) ++ idl).Nodup →
        ∀ c ∈ used, ∃ vs : List Nat, c = .seq (vs.map Tree.num) ∧ vs.length = n) := by
  induction idl generalizing cols acc with
  | nil =>
    simp only [deColumns] at h; cases h
    exact ⟨[], rfl, rfl, by simp, by simp⟩
  | cons t ts ih =>
    cases cols with
    | nil => simp [deColumns] at h
    | cons c cs =>
      simp only [deColumns] at h
      split at h
      · -- an id listed again
        rename_i hany
        cases hc : deColumn 0 c with
        | error m => rw [hc] at h; cases h
        | ok vs =>
          rw [hc] at h
          obtain ⟨used, h1, h2, h3, h4⟩ := ih cs acc h
          refine ⟨c :: used, by rw [h1]; rfl, by simp [h2], ?_, ?_⟩
          · intro c' hc'
            rcases List.mem_cons.1 hc' with rfl | hc'
            · obtain ⟨e1, e2⟩ := deColumn_ok 0 _ vs hc
              exact ⟨vs, e1, Or.inr e2⟩
            · exact h3 c' hc'
          · intro hnd
            exfalso
            obtain ⟨d, hd, hdt⟩ := List.any_eq_true.1 hany
            simp only [beq_iff_eq] at hdt
            rw [List.nodup_append] at hnd
            exact hnd.2.2 _ (List.mem_map_of_mem (f := fun x : Nat × List Nat => x.1) hd) _
              (List.mem_cons_self (a := t) (l := ts)) hdt
      · cases hc : deColumn n c with
        | error m => rw [hc] at h; cases h
        | ok vs =>
          rw [hc] at h
          obtain ⟨used, h1, h2, h3, h4⟩ := ih cs (acc ++ [(t, vs)]) h
          refine ⟨c :: used, by rw [h1]; rfl, by simp [h2], ?_, ?_⟩
          · intro c' hc'
            rcases List.mem_cons.1 hc' with rfl | hc'
            · obtain ⟨e1, e2⟩ := deColumn_ok n _ vs hc
              exact ⟨vs, e1, Or.inl e2⟩
            · exact h3 c' hc'
          · intro hnd c' hc'
            rcases List.mem_cons.1 hc' with rfl | hc'
            · exact ⟨vs, deColumn_ok n _ vs hc⟩
            · exact h4 (by simpa using hnd) c' hc'

/-- column format, summary of everything an accepted archetype block satisfies -/
theorem deArchetype_ok_shape (H : List Nat) (w w' : World) (n0 k0 : Nat) (ids comps : List Tree)
    (h : deArchetype H w (.seq [.num n0, .num k0, .seq ids, .seq comps]) = .ok w') :
    ∃ (idl bits : List Nat) (es : List Entity) (cols : List Tree),
      ids = idl.map Tree.num ∧ (∀ t ∈ idl, t ∈ H) ∧
      comps = .seq (bits.map Tree.num) :: cols ∧ bits.length = n0 ∧
      bits.map entityOfBits = es.map some ∧ (es.map (·.id)).Nodup ∧
      cols.length = idl.length ∧
      (∀ c ∈ cols, ∃ vs : List Nat, c = .seq (vs.map Tree.num) ∧ (vs.length = n0 ∨ vs.length = 0)) ∧
      (idl.Nodup → ∀ c ∈ cols, ∃ vs : List Nat, c = .seq (vs.map Tree.num) ∧ vs.length = n0) := by
  obtain ⟨n, k, ids', ents, cols, idl, bits, es, filled, ht, -, -, hidl, hH, hbits, hes, hlen, hnd, hcols, -⟩ :=
    deArchetype_ok_inv H w _ w' h
  simp only [Tree.seq.injEq, List.cons.injEq, Tree.num.injEq, and_true] at ht
  obtain ⟨rfl, rfl, rfl, rfl⟩ := ht
  obtain ⟨used, h1, h2, h3, h4⟩ := deColumns_ok _ idl cols [] filled [] hcols
  rw [List.append_nil] at h1; subst h1
  have hes' := (mapM_eq_some _ _ _).1 hes
  refine ⟨idl, bits, es, cols, (natsOf_eq_some _ _).1 hidl, by simpa using hH, ?_, ?_, hes', hnd, h2, h3,
    fun hn => h4 (by simpa using hn)⟩
  · rw [(natsOf_eq_some _ _).1 hbits]
  · have := congrArg List.length hes'; simp at this; omega

/-- an entity with zero generation anywhere in the entity list -/
theorem deArchetype_zero_generation (H : List Nat) (w : World) (n0 k0 : Nat) (ids ents cols : List Tree)
    (b : Nat) (hb : Tree.num b ∈ ents) (hsmall : b < 4294967296) :
    ∃ m, deArchetype H w (.seq [.num n0, .num k0, .seq ids, .seq (.seq ents :: cols)]) = .error m := by
  apply error_of_not_ok; intro w' h
  obtain ⟨idl, bits, es, cols', -, -, hc, -, hes, -, -, -⟩ := deArchetype_ok_shape H w w' _ _ _ _ h
  simp only [List.cons.injEq, Tree.seq.injEq] at hc
  obtain ⟨rfl, -⟩ := hc
  simp only [List.mem_map, Tree.num.injEq] at hb
  obtain ⟨b', hb', rfl⟩ := hb
  have : entityOfBits b' ∈ bits.map entityOfBits := List.mem_map_of_mem hb'
  rw [hes, entityOfBits_small b' hsmall] at this
  simp at this

/-- a component id the context does not handle -/
theorem deArchetype_unknown_component (H : List Nat) (w : World) (n0 k0 : Nat) (ids comps : List Tree)
    (t : Nat) (ht : Tree.num t ∈ ids) (hH : t ∉ H) :
    ∃ m, deArchetype H w (.seq [.num n0, .num k0, .seq ids, .seq comps]) = .error m := by
  apply error_of_not_ok; intro w' h
  obtain ⟨idl, bits, es, cols', rfl, hall, -⟩ := deArchetype_ok_shape H w w' _ _ _ _ h
  simp only [List.mem_map, Tree.num.injEq] at ht
  obtain ⟨t', ht', rfl⟩ := ht
  exact hH (hall t' ht')

/-- the same entity id twice in one archetype -/
theorem deArchetype_repeated_id (H : List Nat) (w : World) (n0 k0 : Nat) (ids ents cols : List Tree)
    (i j a b : Nat) (hij : i < j) (hi : ents[i]? = some (.num a)) (hj : ents[j]? = some (.num b))
    (hab : a % 4294967296 = b % 4294967296) :
    ∃ m, deArchetype H w (.seq [.num n0, .num k0, .seq ids, .seq (.seq ents :: cols)]) = .error m := by
  apply error_of_not_ok; intro w' h
  obtain ⟨idl, bits, es, cols', -, -, hc, -, hes, hnd, -, -⟩ := deArchetype_ok_shape H w w' _ _ _ _ h
  simp only [List.cons.injEq, Tree.seq.injEq] at hc
  obtain ⟨rfl, -⟩ := hc
  simp only [List.getElem?_map, Option.map_eq_some_iff, Tree.num.injEq] at hi hj
  obtain ⟨a', hi, rfl⟩ := hi
  obtain ⟨b', hj, rfl⟩ := hj
  have key : ∀ (k x : Nat), bits[k]? = some x → ∃ e : Entity, es[k]? = some e ∧ e.id = x % 4294967296 := by
    intro k x hk
    have := congrArg (·[k]?) hes
    simp only [List.getElem?_map, hk, Option.map_some] at this
    cases hek : es[k]? with
    | none => simp [hek] at this
    | some e =>
      simp only [hek, Option.map_some, Option.some.injEq] at this
      refine ⟨e, rfl, ?_⟩
      rw [(entityOfBits_eq_some _ _ this).2.2]
  obtain ⟨e1, h1, h1'⟩ := key i a' hi
  obtain ⟨e2, h2, h2'⟩ := key j b' hj
  rw [List.nodup_iff_pairwise_ne, List.pairwise_map, List.pairwise_iff_getElem] at hnd
  obtain ⟨hi', h1⟩ := List.getElem?_eq_some_iff.1 h1
  obtain ⟨hj', h2⟩ := List.getElem?_eq_some_iff.1 h2
  apply hnd i j hi' hj' hij
  rw [h1, h2, h1', h2', hab]

/-- the entity list is shorter or longer than the announced entity count -/
theorem deArchetype_entity_count (H : List Nat) (w : World) (n0 k0 : Nat) (ids ents cols : List Tree)
    (hlen : ents.length ≠ n0) :
    ∃ m, deArchetype H w (.seq [.num n0, .num k0, .seq ids, .seq (.seq ents :: cols)]) = .error m := by
  apply error_of_not_ok; intro w' h
  obtain ⟨idl, bits, es, cols', -, -, hc, hn, -⟩ := deArchetype_ok_shape H w w' _ _ _ _ h
  simp only [List.cons.injEq, Tree.seq.injEq] at hc
  obtain ⟨rfl, -⟩ := hc
  simp at hlen; omega

/-- a column longer than the announced entity count, or shorter and not empty -/
theorem deArchetype_column_length (H : List Nat) (w : World) (n0 k0 : Nat) (ids ents cols : List Tree)
    (xs : List Tree) (hc : Tree.seq xs ∈ cols) (hlen : xs.length ≠ n0) (hne : xs.length ≠ 0) :
    ∃ m, deArchetype H w (.seq [.num n0, .num k0, .seq ids, .seq (.seq ents :: cols)]) = .error m := by
  apply error_of_not_ok; intro w' h
  obtain ⟨idl, bits, es, cols', -, -, hcs, -, -, -, -, hall, -⟩ := deArchetype_ok_shape H w w' _ _ _ _ h
  simp only [List.cons.injEq, Tree.seq.injEq] at hcs
  obtain ⟨-, rfl⟩ := hcs
  obtain ⟨vs, hv, hvl⟩ := hall _ hc
  simp only [Tree.seq.injEq] at hv
  subst hv; rw [List.length_map] at hlen hne; omega

/-- with pairwise distinct component ids, every column has exactly the announced length (an empty
column is accepted only for an id that is listed a second time, where nothing is left to fill) -/
theorem deArchetype_column_length_nodup (H : List Nat) (w : World) (n0 k0 : Nat) (idl : List Nat)
    (ents cols : List Tree) (hnd : idl.Nodup)
    (xs : List Tree) (hc : Tree.seq xs ∈ cols) (hlen : xs.length ≠ n0) :
    ∃ m, deArchetype H w (.seq [.num n0, .num k0, .seq (idl.map Tree.num), .seq (.seq ents :: cols)]) = .error m := by
  apply error_of_not_ok; intro w' h
  obtain ⟨idl', bits, es, cols', hid, -, hcs, -, -, -, -, -, hall⟩ := deArchetype_ok_shape H w w' _ _ _ _ h
  have : idl' = idl := by
    have := congrArg natsOf hid
    rw [natsOf_map_num, natsOf_map_num] at this
    exact (Option.some.inj this).symm
  subst this
  simp only [List.cons.injEq, Tree.seq.injEq] at hcs
  obtain ⟨-, rfl⟩ := hcs
  obtain ⟨vs, hv, hvl⟩ := hall hnd _ hc
  simp only [Tree.seq.injEq] at hv
  subst hv; simp at hlen; omega

/-- fewer columns than listed component ids ("end of components") -/
theorem deArchetype_missing_column (H : List Nat) (w : World) (n0 k0 : Nat) (ids ents cols : List Tree)
    (hlen : cols.length < ids.length) :
    ∃ m, deArchetype H w (.seq [.num n0, .num k0, .seq ids, .seq (.seq ents :: cols)]) = .error m := by
  apply error_of_not_ok; intro w' h
  obtain ⟨idl, bits, es, cols', rfl, -, hcs, -, -, -, hcl, -⟩ := deArchetype_ok_shape H w w' _ _ _ _ h
  simp only [List.cons.injEq, Tree.seq.injEq] at hcs
  obtain ⟨-, rfl⟩ := hcs
  simp at hlen; omega

/-- more elements in the component tuple than listed component ids ("trailing elements") -/
theorem deArchetype_trailing (H : List Nat) (w : World) (n0 k0 : Nat) (ids ents cols : List Tree)
    (hlen : ids.length < cols.length) :
    ∃ m, deArchetype H w (.seq [.num n0, .num k0, .seq ids, .seq (.seq ents :: cols)]) = .error m := by
  apply error_of_not_ok; intro w' h
  obtain ⟨idl, bits, es, cols', rfl, -, hcs, -, -, -, hcl, -⟩ := deArchetype_ok_shape H w w' _ _ _ _ h
  simp only [List.cons.injEq, Tree.seq.injEq] at hcs
  obtain ⟨-, rfl⟩ := hcs
  simp at hlen; omega

/-- the component tuple without its leading entity list -/
theorem deArchetype_no_entity_list (H : List Nat) (w : World) (n0 k0 : Nat) (ids : List Tree) :
    ∃ m, deArchetype H w (.seq [.num n0, .num k0, .seq ids, .seq []]) = .error m := by
  apply error_of_not_ok; intro w' h
  obtain ⟨_, _, _, _, -, -, hcs, -⟩ := deArchetype_ok_shape H w w' _ _ _ _ h
  cases hcs

/-- a refused archetype block makes the whole column input refused -/
theorem deColArchs_error_of_block (H : List Nat) (xs : List Tree) (w : World) (t : Tree) (ht : t ∈ xs)
    (hbad : ∀ w0, ∃ m, deArchetype H w0 t = .error m) : ∃ m, deColArchs H xs w = .error m := by
  induction xs generalizing w with
  | nil => simp at ht
  | cons x rest ih =>
    simp only [deColArchs]
    cases hx : deArchetype H w x with
    | error m => exact ⟨m, rfl⟩
    | ok w1 =>
      rcases List.mem_cons.1 ht with rfl | h
      · obtain ⟨m, hm⟩ := hbad w; rw [hx] at hm; cases hm
      · exact ih w1 h

theorem deCol_error_of_block (H : List Nat) (xs : List Tree) (t : Tree) (ht : t ∈ xs)
    (hbad : ∀ w0, ∃ m, deArchetype H w0 t = .error m) : ∃ m, deCol H (.seq xs) = .error m :=
  deColArchs_error_of_block H xs _ t ht hbad

end Hecs.SerdeLemmas
