import HecsModel.Lemmas.SerdeRoundCol
/-
  C14: the round-trip theorems restated over `lookup`/`isLive` of the original world.
-/
namespace Hecs.SerdeLemmas
open Hecs Hecs.Serde Hecs.CanonLemmas

/-- the live rows are the live handles with what `lookup` reports for them -/
theorem mem_liveRows_iff (w : World) (hc : w.Core) (e : Entity) (cs : List Comp) :
    (e, cs) ∈ w.liveRows ↔ w.isLive e = true ∧ w.lookup e = some cs := by
  constructor
  · intro h
    obtain ⟨a, ar, i, r, ha, hi, heq⟩ := liveRows_mem h
    simp only [Prod.mk.injEq] at heq
    obtain ⟨rfl, rfl⟩ := heq
    have hrow := World.rowAt_eq_archs ha hi
    have hloc := hc.row_loc a i r hrow
    have hgen : w.genAt r.id = some (w.genOf r.id) := by
      unfold World.genAt World.genOf
      unfold World.locOf at hloc
      cases hm : w.metas[r.id]? with
      | none => rw [hm] at hloc; cases hloc
      | some m => simp
    have hget : w.get (w.entityOf r.id) = some (some (a, i)) := World.get_located.2 ⟨hgen, hloc⟩
    simp [World.isLive, World.lookup, hget, hrow]
  · rintro ⟨hl, hlk⟩
    unfold World.isLive at hl
    cases hget : w.get e with
    | none => rw [hget] at hl; cases hl
    | some o =>
      cases o with
      | none => rw [hget] at hl; cases hl
      | some l =>
        obtain ⟨a, i⟩ := l
        obtain ⟨hgen, hloc⟩ := World.get_located.1 hget
        obtain ⟨r, hrow, hrid⟩ := hc.loc_row e.id a i hloc
        simp only [World.lookup, hget, hrow, Option.map_some, Option.some.injEq] at hlk
        obtain ⟨ar, ha, hi⟩ := World.rowAt_some hrow
        simp only [World.liveRows, List.mem_flatMap, List.mem_map]
        refine ⟨ar, World.getElem?_mem_archs ha, r, World.getElem?_mem_rows hi, ?_⟩
        have : w.entityOf r.id = e := by
          unfold World.entityOf World.genOf
          unfold World.genAt at hgen
          rw [hrid]
          cases e with
          | mk id g =>
            simp only at hgen ⊢
            rw [hgen]; rfl
        rw [this, hlk]

theorem roundtrip_lookup_of (w w' : World) (H : List Nat) (hw : w.Inv)
    (h1 : ∀ e cs, (e, cs) ∈ w.liveRows → w'.lookup e = some (canon (restrict H cs)))
    (h2 : ∀ e, (∀ cs, (e, cs) ∉ w.liveRows) → w'.lookup e = none) (e : Entity) :
    w'.lookup e = if w.isLive e = true then (w.lookup e).map (restrict H) else none := by
  by_cases hl : w.isLive e = true
  · rw [if_pos hl]
    cases hlk : w.lookup e with
    | none =>
      -- a live handle always has a row
      exfalso
      unfold World.isLive at hl
      cases hget : w.get e with
      | none => rw [hget] at hl; cases hl
      | some o =>
        cases o with
        | none => rw [hget] at hl; cases hl
        | some l =>
          obtain ⟨a, i⟩ := l
          obtain ⟨-, hloc⟩ := World.get_located.1 hget
          obtain ⟨r, hrow, -⟩ := hw.core.loc_row e.id a i hloc
          simp [World.lookup, hget, hrow] at hlk
    | some cs =>
      have hm := (mem_liveRows_iff w hw.core e cs).2 ⟨hl, hlk⟩
      rw [h1 e cs hm]
      have hs : cs.Pairwise (fun x y => x.1 < y.1) :=
        List.pairwise_map.1 ((strictSorted_iff _).1 (liveRows_sorted hw hm))
      have : canon (restrict H cs) = restrict H cs :=
        CmdBufLemmas.canon_of_sorted _ ((hs.filter _).imp (fun h => Nat.le_of_lt h))
      rw [this]; rfl
  · rw [if_neg hl]
    apply h2
    intro cs hm
    exact hl ((mem_liveRows_iff w hw.core e cs).1 hm).1

/-- C14, row format, over `lookup`: the deserialized world knows exactly the live handles of the
original, each with its components of the handled types (reserved-but-unflushed handles are not
serialized) -/
theorem row_roundtrip_lookup (w : World) (H : List Nat) (hw : w.Inv) (hH : H.Nodup) (hb : Bounded w)
    (hz : ZstNormal w) :
    ∃ w', deRow H (serRow w H none) = .ok w' ∧ w'.Inv ∧
      ∀ e, w'.lookup e = if w.isLive e = true then (w.lookup e).map (restrict H) else none := by
  obtain ⟨w', h0, hi, h1, h2⟩ := row_roundtrip w H hw hH hb hz
  exact ⟨w', h0, hi, roundtrip_lookup_of w w' H hw h1 h2⟩

theorem col_roundtrip_lookup (w : World) (H : List Nat) (hw : w.Inv) (hH : H.Nodup) (hb : Bounded w)
    (hz : ZstNormal w) (hf : SizesFit w H) :
    ∃ w', deCol H (serCol w H none) = .ok w' ∧ w'.Inv ∧
      ∀ e, w'.lookup e = if w.isLive e = true then (w.lookup e).map (restrict H) else none := by
  obtain ⟨w', h0, hi, h1, h2⟩ := col_roundtrip w H hw hH hb hz hf
  exact ⟨w', h0, hi, roundtrip_lookup_of w w' H hw h1 h2⟩

theorem restrict_all (H : List Nat) (cs : List Comp) (h : ∀ c ∈ cs, c.1 ∈ H) : restrict H cs = cs := by
  unfold restrict
  rw [List.filter_eq_self]
  intro c hc; simpa using h c hc

end Hecs.SerdeLemmas
