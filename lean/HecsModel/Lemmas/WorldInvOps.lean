import HecsModel.Lemmas.WorldInvEnt
import HecsModel.Lemmas.SortLemmas
/-
  Preservation of the invariant by the world operations (single-entity operations).
-/
namespace Hecs
namespace World

theorem Allocd.same {w w' : World} {D} (hs : Same w' w) (ha : w'.ArchOK) (h : w.Allocd D) : w'.Allocd D := by
  refine ⟨⟨hs.bij h.pre.bij, ha, ?_, ?_⟩, ?_, ?_⟩
  · rw [hs.pending]; exact hs.free h.pre.free
  · rw [hs.pending, hs.rowCount, hs.metas]; exact h.pre.count
  · rw [hs.pending, hs.cursor]; exact h.cursor
  · rw [hs.len, hs.rowCount]; exact h.len

theorem Allocd.arch {w : World} {D} (h : w.Allocd D) : w.ArchOK := h.pre.arch

/-- `getArch` followed by `place` -/
theorem getArch_place_allocd (w : World) (ts : List Nat) (id : Nat) (vals : List Comp) (D : List Nat)
    (h : w.Allocd (id :: D)) (hs : strictSorted ts = true) (hv : vals.map (·.1) = ts) :
    ((w.getArch ts).1.place (w.getArch ts).2 id vals).Allocd D := by
  obtain ⟨g1, g2, g3, g4, _, _⟩ := getArch_spec w ts h.arch hs
  exact place_allocd _ _ _ _ _ g2 (by rw [g3]; exact hv) (h.same g1 g4)

theorem spawnInner_eq (w : World) (e : Entity) (b : List Comp) :
    w.spawnInner e b =
      (w.getArch ((canon b).map (·.1))).1.place (w.getArch ((canon b).map (·.1))).2 e.id (canon b) := rfl

theorem spawnInner_allocd (w : World) (e : Entity) (b : List Comp) (D : List Nat)
    (h : w.Allocd (e.id :: D)) (hb : (b.map (·.1)).Nodup) : (w.spawnInner e b).Allocd D := by
  rw [spawnInner_eq]
  exact getArch_place_allocd w _ e.id (canon b) D h (canon_sorted b hb) rfl

/-! ### spawn, spawnAt, despawn, take -/

theorem spawn_flushed (w : World) (b : List Comp) (h : w.Good) (hb : (b.map (·.1)).Nodup) :
    (w.spawn b).1.Flushed := by
  have h1 := alloc_allocd w.flush (flush_flushed' w h)
  exact (spawnInner_allocd _ _ b [] h1 hb).flushed

theorem spawnAt_flushed (w : World) (e : Entity) (b : List Comp) (h : w.Good) (hb : (b.map (·.1)).Nodup) :
    (w.spawnAt e b).1.Flushed := by
  have h1 := allocAt_evict_allocd w.flush e [] (flush_flushed' w h).allocd (by simp)
  exact (spawnInner_allocd _ _ b [] h1 hb).flushed

theorem despawn_flushed (w : World) (e : Entity) (h : w.Good) : (w.despawn e).1.Flushed := by
  have hf := flush_flushed' w h
  unfold despawn
  simp only
  split
  · exact hf
  · rename_i w1 a i hfree
    obtain ⟨m, hm, _, hl, rfl⟩ := free_some hfree
    exact freed_removeRow_flushed _ _ _ _ _ hf hm hl

theorem modify_set_comm (M : Array Meta) (j k : Nat) (f : Meta → Meta) (v : Meta) (h : j ≠ k) :
    (M.modify j f).set! k v = (M.set! k v).modify j f := by
  apply Array.ext_getElem?
  intro i
  simp only [Array.set!_eq_setIfInBounds, Array.getElem?_setIfInBounds, Array.getElem?_modify, Array.size_modify]
  grind

theorem get_some_some {w : World} {e : Entity} {l} (h : w.get e = some (some l)) :
    ∃ m, w.metas[e.id]? = some m ∧ m.gen = e.gen ∧ m.loc = some l := by
  unfold get at h
  split at h
  · split at h <;> simp at h
  · rename_i m hm
    split at h
    · cases h
    · rename_i hg
      split at h
      · rename_i l' hl'
        simp only [Option.some.injEq] at h; subst h
        exact ⟨m, hm, by simpa using hg, hl'⟩
      · split at h <;> simp at h

theorem removeRow_free_comm (w : World) (e : Entity) (m : Meta) (a i : Nat)
    (hm : w.metas[e.id]? = some m) (hg : m.gen = e.gen) (hl : m.loc = some (a, i)) (hb : w.Bij) :
    (w.removeRow a i).free e = some ((w.freed e.id m).removeRow a i, (a, i)) := by
  have hloc : w.locOf e.id = some (a, i) := by rw [locOf_of_meta hm, hl]
  obtain ⟨r0, hr0, hr0id⟩ := hb.loc_row _ _ _ hloc
  rw [removeRow_eq, removeRow_eq]
  have hrows : (w.freed e.id m).rowsOf a = w.rowsOf a := rfl
  rw [hrows]
  split
  · exact free_of_meta (w := w.modRows a fun rows => rows.pop) hm hg hl
  · rename_i hi
    have hlast : (w.rowsOf a)[(w.rowsOf a).size - 1]? = some (w.rowsOf a)[(w.rowsOf a).size - 1]! := by grind
    have hml := hb.row_loc _ _ _ hlast
    have hne : (w.rowsOf a)[(w.rowsOf a).size - 1]!.id ≠ e.id := by
      intro he; rw [he, hloc] at hml; simp at hml; omega
    generalize (w.rowsOf a)[(w.rowsOf a).size - 1]! = mv at *
    have hm' : ((w.modRows a fun rows => (rows.set! i mv).pop).setLocIndex mv.id i).metas[e.id]? = some m := by
      simp only [setLocIndex, modRows, Array.getElem?_modify]
      simp [hne, hm]
    rw [free_of_meta hm' hg hl]
    congr 2
    simp only [freed, setLocIndex, modRows]
    congr 1
    · exact modify_set_comm _ _ _ _ _ hne

theorem take_flushed (w : World) (e : Entity) (h : w.Good) : (w.take e).1.Flushed := by
  have hf := flush_flushed' w h
  unfold take
  simp only
  split
  · rename_i a i hget
    obtain ⟨m, hm, hg, hl⟩ := get_some_some hget
    rw [removeRow_free_comm _ _ _ _ _ hm hg hl hf.good.bij]
    exact freed_removeRow_flushed _ _ _ _ _ hf hm hl
  · exact hf

/-! ### clear, reserve, reserveEntity, reserveEntities -/

theorem Good.of_eq {w w' : World} (hm : w'.metas = w.metas) (ha : w'.archs = w.archs)
    (hp : w'.pending = w.pending) (hl : w'.len = w.len) (hc : w'.cursor ≤ w'.pending.size) (h : w.Good) :
    w'.Good := by
  apply Pre.good
  · rw [hp]; exact Pre.of_eq hm ha h.pre
  · exact hc
  · rw [hl, rowCount_of_archs ha]; exact h.len_rows

theorem reserveEntity_good (w : World) (h : w.Good) : (w.reserveEntity).1.Good := by
  have e : (w.reserveEntity).1 = { w with cursor := w.cursor - 1 } := by
    unfold reserveEntity; simp only; split <;> rfl
  rw [e]
  exact Good.of_eq (w := w) rfl rfl rfl rfl (by have := h.cursor_le; simp only; omega) h

theorem reserveEntities_good (w : World) (n : Nat) (h : w.Good) : (w.reserveEntities n).1.Good := by
  have e : (w.reserveEntities n).1 = { w with cursor := w.cursor - n } := rfl
  rw [e]
  exact Good.of_eq (w := w) rfl rfl rfl rfl (by have := h.cursor_le; simp only; omega) h

theorem reserve_flushed (w : World) (ts : List Nat) (h : w.Good) (hts : ts.Nodup) : (w.reserve ts).1.Flushed := by
  have hf := flush_flushed' w h
  obtain ⟨g1, g2, g3, g4, _, _⟩ := getArch_spec w.flush (sortNat ts) hf.good.arch (sortNat_sorted ts hts)
  exact (hf.allocd.same g1 g4).flushed

theorem clear_flushed (w : World) (h : w.Good) : (w.clear).1.Flushed := by
  have hrows : ∀ b, (w.clear).1.rowsOf b = #[] := by
    intro b; simp only [clear, rowsOf, Array.getElem?_map]
    cases w.archs[b]? <;> simp
  have hty : ∀ b, (w.clear).1.typesOf b = w.typesOf b := by
    intro b; simp only [clear, typesOf, Array.getElem?_map]
    cases w.archs[b]? <;> simp
  have hsz : (w.clear).1.archs.size = w.archs.size := by simp [clear]
  have hloc : ∀ id, (w.clear).1.locOf id = none := by intro id; simp [clear, locOf]
  have hrc : (w.clear).1.rowCount = 0 := by
    simp only [clear, rowCount, Array.toList_map, List.map_map]
    generalize w.archs.toList = L
    induction L with
    | nil => rfl
    | cons x xs ih => simpa using ih
  refine ⟨⟨⟨?_, ?_⟩, ⟨?_, ?_, ?_, ?_⟩, ⟨?_, ?_⟩, ?_, ?_, ?_⟩, ?_⟩
  · intro id a i hh; rw [hloc] at hh; cases hh
  · intro a i r hh; rw [hrows] at hh; simp at hh
  · rw [hsz, hty]; exact h.arch.arch0
  · intro a; rw [hsz, hty]; exact h.arch.sorted a
  · intro a b; rw [hsz, hty, hty]; exact h.arch.inj a b
  · intro a i r hh; rw [hrows] at hh; simp at hh
  · simp [clear]
  · intro id; simp [clear]
  · simp [clear]
  · rw [hrc]; rfl
  · rw [hrc]; simp [clear]
  · simp [clear]

end World
end Hecs
