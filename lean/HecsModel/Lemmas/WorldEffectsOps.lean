import HecsModel.Lemmas.WorldEffectsFlush
/-
  Effects of `spawn`, `despawn`, `take`, `clear`, `reserveEntity`, `reserveEntities` on `lookup`.
-/
namespace Hecs
namespace World

theorem genAt_of_archs_metas {w w' : World} (h : w'.metas = w.metas) (id : Nat) : w'.genAt id = w.genAt id := by
  unfold genAt; rw [h]

theorem valsOf_of_eq {w w' : World} (hm : w'.metas = w.metas) (ha : w'.archs = w.archs) (id : Nat) :
    w'.valsOf id = w.valsOf id :=
  valsOf_congr (locOf_of_metas hm id) (fun a _ _ => by rw [rowsOf_of_archs ha])

/-! ### alloc -/

theorem alloc_view (w : World) (hf : w.Flushed) :
    (∀ id, (w.alloc).1.genAt id = if id = (w.alloc).2.id then some (w.alloc).2.gen else w.genAt id) ∧
    (∀ id, (w.alloc).1.valsOf id = w.valsOf id) ∧
    w.valsOf (w.alloc).2.id = none := by
  unfold alloc
  split
  · rename_i hz
    simp only
    refine ⟨?_, ?_, ?_⟩
    · intro id
      simp only [genAt, Array.getElem?_push]
      split <;> simp_all [Meta.empty]
    · intro id
      apply valsOf_congr
      · simp only [locOf, Array.getElem?_push]
        split
        · subst_vars; simp [Meta.empty]
        · rfl
      · intro _ _ _; rfl
    · exact valsOf_none (locOf_ge w _ (Nat.le_refl _))
  · rename_i hz
    simp only
    have hmem : w.pending.back! ∈ w.pending.toList := by
      have hlt : w.pending.size - 1 < w.pending.size := by omega
      have : w.pending.back! = w.pending[w.pending.size - 1] := by
        rw [Array.back!_eq_back?, Array.back?_eq_getElem?]; simp [hlt]
      rw [this]; simp
    have hx := (hf.good.free.iff _).1 hmem
    refine ⟨?_, ?_, valsOf_none hx.2⟩
    · intro id
      by_cases hi : id = w.pending.back!
      · subst hi
        simp only [if_true, genOf, genAt]
        have : w.metas[w.pending.back!]? = some w.metas[w.pending.back!] := by simp [hx.1]
        simp [this]
      · simp [hi]; rfl
    · intro id; rfl

/-! ### spawnInner -/

theorem spawnInner_view (w : World) (e : Entity) (b : List Comp) (D : List Nat)
    (h : w.Allocd (e.id :: D)) (hb : (b.map (·.1)).Nodup) (id : Nat) :
    (w.spawnInner e b).genAt id = w.genAt id ∧
    (w.spawnInner e b).valsOf id = if id = e.id then some (canon b) else w.valsOf id := by
  rw [spawnInner_eq]
  obtain ⟨g1, g2, g3, g4, _, _⟩ := getArch_spec w _ h.arch (canon_sorted b hb)
  have hid : e.id < w.metas.size := ((h.pre.free.iff e.id).1 (by simp)).1
  rw [place_genAt, g1.genAt, place_valsOf _ _ _ _ _ g2 (by rw [g1.metas]; exact hid) (g1.bij h.pre.bij).locOK,
    g1.valsOf]
  exact ⟨rfl, rfl⟩

/-! ### spawn -/

theorem spawn_spec (w : World) (b : List Comp) (h : w.Good) (hb : (b.map (·.1)).Nodup) :
    ∃ e', (w.spawn b).2.res = .ent e' ∧ (w.spawn b).2.dropped = [] ∧
      (∀ g, w.flush.lookup ⟨e'.id, g⟩ = none) ∧
      (w.spawn b).1.lookup e' = some (canon b) ∧
      ∀ e, e ≠ e' → (w.spawn b).1.lookup e = w.flush.lookup e := by
  have hf := flush_flushed' w h
  have hfin := spawn_flushed w b h hb
  obtain ⟨a1, a2, a3⟩ := alloc_view w.flush hf
  have h1 := alloc_allocd w.flush hf
  have hv := fun id => spawnInner_view (w.flush.alloc).1 (w.flush.alloc).2 b [] h1 hb id
  have heq : (w.spawn b).1 = (w.flush.alloc).1.spawnInner (w.flush.alloc).2 b := rfl
  refine ⟨(w.flush.alloc).2, rfl, rfl, ?_, ?_, ?_⟩
  · intro g
    exact lookup_none_of_vals hf.cursor a3
  · apply lookup_some_of hfin.cursor
    · rw [heq, (hv _).1, a1]; simp
    · rw [heq, (hv _).2]; simp
  · intro e hne
    by_cases hi : e.id = (w.flush.alloc).2.id
    · have hg : e.gen ≠ (w.flush.alloc).2.gen := by
        intro hg; apply hne; cases e; cases hh : (w.flush.alloc).2; simp_all
      rw [lookup_none_of_vals hf.cursor (by rw [hi]; exact a3)]
      apply lookup_none_of_gen hfin.cursor
      rw [heq, (hv _).1, a1, if_pos hi]
      intro hh; exact hg (Option.some.inj hh).symm
    · apply lookup_congr hf.cursor hfin.cursor
      · rw [heq, (hv _).1, a1, if_neg hi]
      · rw [heq, (hv _).2, a2, if_neg hi]

/-! ### despawn -/

theorem unplace_bijEx (w w1 : World) (id a i : Nat) (hb : w.Bij) (hloc : w.locOf id = some (a, i))
    (hl : ∀ id', w1.locOf id' = if id' = id then none else w.locOf id') (ha : w1.archs = w.archs) :
    w1.BijEx a i := by
  have hr := rowsOf_of_archs ha
  obtain ⟨r0, hr0, hr0id⟩ := hb.loc_row id a i hloc
  have hsz : i < (w.rowsOf a).size := by grind
  obtain ⟨h1, h2⟩ := hb
  constructor
  · intro id' b j; rw [hl, hr]; intro hh
    by_cases hi : id' = id
    · simp [hi] at hh
    · simp only [hi, if_false] at hh
      have := h1 id' b j hh
      grind
  · intro b j r; rw [hl, hr]; intro hh hne
    have := h2 b j r hh
    grind
  · rw [hr]; exact hsz

theorem freed_genAt (w : World) (id : Nat) (m : Meta) (id' : Nat) (hid : id < w.metas.size) :
    (w.freed id m).genAt id' = if id' = id then some (m.gen + 1) else w.genAt id' := by
  simp only [genAt, freed, Array.set!_eq_setIfInBounds, Array.getElem?_setIfInBounds]
  by_cases h : id = id'
  · subst h; simp [hid]
  · have : ¬ id' = id := fun e => h e.symm
    simp [h, this]

theorem freed_valsOf (w : World) (id : Nat) (m : Meta) (id' : Nat) :
    (w.freed id m).valsOf id' = if id' = id then none else w.valsOf id' := by
  by_cases hi : id' = id
  · subst hi; rw [if_pos rfl]; apply valsOf_none; rw [freed_locOf]; simp
  · rw [if_neg hi]
    exact valsOf_congr (by rw [freed_locOf]; simp [hi]) (fun _ _ _ => rfl)

/-- the handle is live in a flushed world: what `free`, `get`, `getMut` test -/
theorem located_of_lookup {w : World} (hf : w.Flushed) {e : Entity} {cs : List Comp}
    (h : w.lookup e = some cs) :
    ∃ m a i r, w.metas[e.id]? = some m ∧ m.gen = e.gen ∧ m.loc = some (a, i) ∧
      (w.rowsOf a)[i]? = some r ∧ r.vals = cs ∧ r.id = e.id := by
  rw [lookup_flushed _ hf.cursor] at h
  split at h
  · rename_i hg
    obtain ⟨m, hm, hmg⟩ := genAt_eq_some.1 hg
    cases hl : w.locOf e.id with
    | none => rw [valsOf_none hl] at h; cases h
    | some l =>
      obtain ⟨a, i⟩ := l
      obtain ⟨r, hr, hid, hv⟩ := valsOf_isSome_of_loc hf.good.bij hl
      rw [hv] at h; cases h
      exact ⟨m, a, i, r, hm, hmg, by rw [← locOf_of_meta hm]; exact hl, hr, rfl, hid⟩
  · cases h

theorem lookup_of_located {w : World} (hf : w.Flushed) {e : Entity} {m : Meta} {a i : Nat}
    (hm : w.metas[e.id]? = some m) (hg : m.gen = e.gen) (hl : m.loc = some (a, i)) :
    ∃ r, (w.rowsOf a)[i]? = some r ∧ w.lookup e = some r.vals := by
  have hloc : w.locOf e.id = some (a, i) := by rw [locOf_of_meta hm, hl]
  obtain ⟨r, hr, hid, hv⟩ := valsOf_isSome_of_loc hf.good.bij hloc
  exact ⟨r, hr, lookup_some_of hf.cursor (genAt_eq_some.2 ⟨m, hm, hg⟩) hv⟩

/-- the world after a successful `despawn`/`take` -/
theorem freed_removeRow_spec (w : World) (e : Entity) (m : Meta) (a i : Nat) (hf : w.Flushed)
    (hm : w.metas[e.id]? = some m) (hg : m.gen = e.gen) (hl : m.loc = some (a, i)) :
    ((w.freed e.id m).removeRow a i).lookup e = none ∧
    ∀ e', e' ≠ e → ((w.freed e.id m).removeRow a i).lookup e' = w.lookup e' := by
  have hfin := freed_removeRow_flushed w e.id m a i hf hm hl
  have hloc : w.locOf e.id = some (a, i) := by rw [locOf_of_meta hm, hl]
  have hex := unplace_bijEx w (w.freed e.id m) e.id a i hf.good.bij hloc (freed_locOf w e.id m) rfl
  have hid := lt_of_locOf hloc
  have hv : ∀ id, ((w.freed e.id m).removeRow a i).valsOf id = if id = e.id then none else w.valsOf id := by
    intro id; rw [removeRow_valsOf _ _ _ _ hex, freed_valsOf]
  have hgen : ∀ id, ((w.freed e.id m).removeRow a i).genAt id
      = if id = e.id then some (m.gen + 1) else w.genAt id := by
    intro id; rw [removeRow_genAt, freed_genAt _ _ _ _ hid]
  constructor
  · exact lookup_none_of_vals hfin.cursor (by rw [hv]; simp)
  · intro e' hne
    by_cases hi : e'.id = e.id
    · have hg' : e'.gen ≠ e.gen := by
        intro hg'; apply hne; cases e; cases e'; simp_all
      rw [lookup_none_of_vals hfin.cursor (by rw [hv]; simp [hi])]
      symm; apply lookup_none_of_gen hf.cursor
      rw [hi, genAt_eq_some.2 ⟨m, hm, hg⟩]
      intro hh; exact hg' (Option.some.inj hh).symm
    · apply lookup_congr hf.cursor hfin.cursor
      · rw [hgen, if_neg hi]
      · rw [hv, if_neg hi]

theorem despawn_spec (w : World) (e : Entity) (h : w.Good) :
    (∀ cs, w.flush.lookup e = some cs →
      (w.despawn e).2.res = .ok ∧ (w.despawn e).2.dropped = cs ∧ (w.despawn e).1.lookup e = none ∧
      ∀ e', e' ≠ e → (w.despawn e).1.lookup e' = w.flush.lookup e') ∧
    (w.flush.lookup e = none → w.despawn e = (w.flush, { res := .nosuch })) := by
  have hf := flush_flushed' w h
  cases hfree : w.flush.free e with
  | none =>
    have hnone : w.flush.lookup e = none := by
      cases hl : w.flush.lookup e with
      | none => rfl
      | some cs =>
        obtain ⟨m, a, i, r, hm, hg, hloc, _⟩ := located_of_lookup hf hl
        rw [free_of_meta hm hg hloc] at hfree; cases hfree
    refine ⟨fun cs hcs => ?_, fun _ => ?_⟩
    · rw [hnone] at hcs; cases hcs
    · simp only [despawn, hfree]
  | some x =>
    obtain ⟨w1, a, i⟩ := x
    obtain ⟨m, hm, hg, hl, rfl⟩ := free_some hfree
    obtain ⟨r, hr, hlk⟩ := lookup_of_located hf hm hg hl
    have heq : w.despawn e = ((w.flush.freed e.id m).removeRow a i,
        { res := .ok, dropped := (((w.flush.freed e.id m).rowAt a i).map (·.vals)).getD [] }) := by
      simp only [despawn, hfree]
    have hrow : (w.flush.freed e.id m).rowAt a i = some r := by
      rw [rowAt_eq]; exact hr
    obtain ⟨s1, s2⟩ := freed_removeRow_spec w.flush e m a i hf hm hg hl
    refine ⟨fun cs hcs => ?_, fun hn => ?_⟩
    · rw [hlk] at hcs; cases hcs
      rw [heq, hrow]
      exact ⟨rfl, rfl, s1, s2⟩
    · rw [hlk] at hn; cases hn

/-! ### take -/

theorem take_spec (w : World) (e : Entity) (h : w.Good) :
    (∀ cs, w.flush.lookup e = some cs →
      (w.take e).2 = some cs ∧ (w.take e).1.lookup e = none ∧
      ∀ e', e' ≠ e → (w.take e).1.lookup e' = w.flush.lookup e') ∧
    (w.flush.lookup e = none → w.take e = (w.flush, none)) := by
  have hf := flush_flushed' w h
  by_cases hget : ∃ l, w.flush.get e = some (some l)
  · obtain ⟨⟨a, i⟩, hget⟩ := hget
    obtain ⟨m, hm, hg, hl⟩ := get_some_some hget
    obtain ⟨r, hr, hlk⟩ := lookup_of_located hf hm hg hl
    have hrow : w.flush.rowAt a i = some r := by rw [rowAt_eq]; exact hr
    have heq : w.take e = ((w.flush.freed e.id m).removeRow a i, some r.vals) := by
      simp only [take, hget, removeRow_free_comm _ _ _ _ _ hm hg hl hf.good.bij, hrow]
      rfl
    obtain ⟨s1, s2⟩ := freed_removeRow_spec w.flush e m a i hf hm hg hl
    refine ⟨fun cs hcs => ?_, fun hn => ?_⟩
    · rw [hlk] at hcs; cases hcs
      rw [heq]; exact ⟨rfl, s1, s2⟩
    · rw [hlk] at hn; cases hn
  · have hnone : w.flush.lookup e = none := by
      cases hl : w.flush.lookup e with
      | none => rfl
      | some cs =>
        obtain ⟨m, a, i, r, hm, hg, hloc, _⟩ := located_of_lookup hf hl
        exfalso; apply hget
        exact ⟨(a, i), get_located.2 ⟨genAt_eq_some.2 ⟨m, hm, hg⟩, by rw [locOf_of_meta hm, hloc]⟩⟩
    refine ⟨fun cs hcs => ?_, fun _ => ?_⟩
    · rw [hnone] at hcs; cases hcs
    · simp only [take]
      split
      · rename_i a i hh; exact absurd ⟨(a, i), hh⟩ hget
      · rfl

/-! ### reserveEntity, reserveEntities -/

theorem genOf_eq_eff (w : World) (id : Nat) : w.genOf id = (w.genAt id).getD 1 := rfl

theorem mem_reserveEntities_eff (w : World) (n : Nat) (h : w.Good) (e : Entity) :
    e ∈ (w.reserveEntities n).2 ↔
      (e.id ∈ (w.pending.toList.drop (w.cursor - n).toNat).take (w.cursor.toNat - (w.cursor - n).toNat)
        ∧ w.genAt e.id = some e.gen) ∨
      (e.gen = 1 ∧ w.metas.size ≤ e.id ∧ (w.metas.size : Int) - w.cursor ≤ e.id ∧
        (e.id : Int) < w.metas.size - w.cursor + n) := by
  unfold reserveEntities
  simp only [List.mem_append, List.mem_map]
  apply or_congr
  · constructor
    · rintro ⟨id, hid, rfl⟩
      refine ⟨hid, ?_⟩
      have hlt := ((h.free.iff id).1 (List.mem_of_mem_drop (List.mem_of_mem_take hid))).1
      simp only [genOf_eq_eff]
      obtain ⟨g, hg⟩ : ∃ g, w.genAt id = some g := by
        cases hh : w.genAt id with
        | none => rw [genAt_eq_none] at hh; omega
        | some g => exact ⟨g, rfl⟩
      simp [hg]
    · rintro ⟨hid, hg⟩
      refine ⟨e.id, hid, ?_⟩
      cases e; simp_all [genOf_eq_eff]
  · split
    · simp; omega
    · rename_i hneg
      simp only [List.mem_map, List.mem_range'_1]
      have hmin : min w.cursor 0 = w.cursor ∧ w.cursor ≤ 0 ∨ min w.cursor 0 = 0 ∧ 0 ≤ w.cursor := by
        rcases Int.le_total w.cursor 0 with hc | hc
        · exact .inl ⟨Int.min_eq_left hc, hc⟩
        · exact .inr ⟨Int.min_eq_right hc, hc⟩
      generalize min w.cursor 0 = mn at *
      constructor
      · rintro ⟨id, hid, rfl⟩
        simp only
        obtain ⟨h1, h2⟩ := hid
        rcases hmin with ⟨rfl, hc⟩ | ⟨rfl, hc⟩
        · refine ⟨trivial, ?_, ?_, ?_⟩ <;> omega
        · refine ⟨trivial, ?_, ?_, ?_⟩ <;> omega
      · rintro ⟨hg, h1, h2, h3⟩
        refine ⟨e.id, ?_, ?_⟩
        · rcases hmin with ⟨rfl, hc⟩ | ⟨rfl, hc⟩ <;> constructor <;> omega
        · cases e; simp_all

theorem reserveEntities_fst (w : World) (n : Nat) :
    (w.reserveEntities n).1 = { w with cursor := w.cursor - n } := rfl

theorem drop_split (L : List Nat) (lo hi : Nat) (h : lo ≤ hi) :
    L.drop lo = (L.drop lo).take (hi - lo) ++ L.drop hi := by
  have := (List.take_append_drop (hi - lo) (L.drop lo)).symm
  rw [List.drop_drop] at this
  have e : lo + (hi - lo) = hi := by omega
  rw [e] at this; exact this

theorem reserveEntities_mid (w : World) (n : Nat) (h : w.Good) :
    (∀ x, x ∈ w.pending.toList.drop (w.cursor - n).toNat ↔
      x ∈ (w.pending.toList.drop (w.cursor - n).toNat).take (w.cursor.toNat - (w.cursor - n).toNat) ∨
      x ∈ w.reservedPending) ∧
    (∀ x, x ∈ (w.pending.toList.drop (w.cursor - n).toNat).take (w.cursor.toNat - (w.cursor - n).toNat) →
      w.locOf x = none ∧ x < w.metas.size ∧ x ∉ w.reservedPending) := by
  have hle : (w.cursor - n).toNat ≤ w.cursor.toNat := by omega
  have hs := drop_split w.pending.toList _ _ hle
  have hnd : (w.pending.toList.drop (w.cursor - n).toNat).Nodup := h.free.nodup.drop
  constructor
  · intro x
    unfold reservedPending
    conv => lhs; rw [hs]
    simp
  · intro x hx
    have hp := (h.free.iff x).1 (List.mem_of_mem_drop (List.mem_of_mem_take hx))
    refine ⟨hp.2, hp.1, ?_⟩
    unfold reservedPending
    rw [hs, List.nodup_append] at hnd
    intro hx2
    exact hnd.2.2 x hx x hx2 rfl

theorem reserveEntities_reserved_eff (w : World) (n : Nat) (h : w.Good) (e : Entity) :
    ((w.reserveEntities n).1.Reserved e ↔ w.Reserved e ∨ e ∈ (w.reserveEntities n).2) ∧
    (e ∈ (w.reserveEntities n).2 →
      ¬ w.Reserved e ∧ ¬ (w.genAt e.id = some e.gen ∧ (w.locOf e.id).isSome)) := by
  obtain ⟨m1, m2⟩ := reserveEntities_mid w n h
  rw [mem_reserveEntities_eff w n h, reserveEntities_fst]
  have hres : ∀ x, x ∈ w.reservedPending → x < w.metas.size := by
    intro x hx; exact ((h.free.iff x).1 (List.mem_of_mem_drop hx)).1
  have hR : ({ w with cursor := w.cursor - n } : World).Reserved e ↔
      (w.genAt e.id = some e.gen ∧ w.locOf e.id = none ∧ e.id ∈ w.pending.toList.drop (w.cursor - n).toNat) ∨
      (w.metas.size ≤ e.id ∧ e.gen = 1 ∧ (e.id : Int) < -(w.cursor - n) + w.metas.size) := Iff.rfl
  rw [hR]
  unfold Reserved
  have m1e := m1 e.id
  have m2e := m2 e.id
  have hgl : w.genAt e.id = some e.gen → e.id < w.metas.size := genAt_lt
  constructor
  · constructor
    · rintro (⟨a1, a2, a3⟩ | ⟨a1, a2, a3⟩)
      · rcases m1e.1 a3 with hm | hm
        · exact .inr (.inl ⟨hm, a1⟩)
        · exact .inl (.inl ⟨a1, a2, hm⟩)
      · by_cases hc : (e.id : Int) < -w.cursor + w.metas.size
        · exact .inl (.inr ⟨a1, a2, hc⟩)
        · exact .inr (.inr ⟨a2, a1, by omega, by omega⟩)
    · rintro ((⟨a1, a2, a3⟩ | ⟨a1, a2, a3⟩) | (⟨a1, a2⟩ | ⟨a1, a2, a3, a4⟩))
      · exact .inl ⟨a1, a2, m1e.2 (.inr a3)⟩
      · exact .inr ⟨a1, a2, by omega⟩
      · exact .inl ⟨a2, (m2e a1).1, m1e.2 (.inl a1)⟩
      · exact .inr ⟨a2, a1, by omega⟩
  · rintro (⟨a1, a2⟩ | ⟨a1, a2, a3, a4⟩)
    · have := m2e a1
      refine ⟨?_, ?_⟩
      · rintro (⟨b1, b2, b3⟩ | ⟨b1, b2, b3⟩)
        · exact this.2.2 b3
        · omega
      · rintro ⟨_, b2⟩; rw [this.1] at b2; cases b2
    · refine ⟨?_, ?_⟩
      · rintro (⟨b1, b2, b3⟩ | ⟨b1, b2, b3⟩)
        · have := hgl b1; omega
        · omega
      · rintro ⟨b1, _⟩; have := hgl b1; omega

theorem lookup_setCursor (w : World) (c' : Int) (e : Entity) :
    ({ w with cursor := c' } : World).lookup e =
      if w.genAt e.id = some e.gen ∧ (w.locOf e.id).isSome then w.valsOf e.id
      else if ({ w with cursor := c' } : World).Reserved e then some [] else none :=
  lookup_eq _ e

theorem reserveEntities_spec (w : World) (n : Nat) (h : w.Good) :
    (∀ e, e ∈ (w.reserveEntities n).2 →
      w.lookup e = none ∧ (w.reserveEntities n).1.lookup e = some [] ∧
      (w.reserveEntities n).1.isLive e = false ∧ (w.reserveEntities n).1.contains e = true) ∧
    (∀ e, e ∉ (w.reserveEntities n).2 → (w.reserveEntities n).1.lookup e = w.lookup e) := by
  constructor
  · intro e he
    obtain ⟨r1, r2⟩ := reserveEntities_reserved_eff w n h e
    obtain ⟨n1, n2⟩ := r2 he
    have hr : (w.reserveEntities n).1.Reserved e := r1.2 (.inr he)
    have n2' : ¬ ((w.reserveEntities n).1.genAt e.id = some e.gen ∧ ((w.reserveEntities n).1.locOf e.id).isSome) := n2
    refine ⟨?_, ?_, ?_, ?_⟩
    · rw [lookup_eq, if_neg n2, if_neg n1]
    · rw [lookup_eq, if_neg n2', if_pos hr]
    · rw [isLive_eq]; simp only [decide_eq_false_iff_not]; exact n2'
    · rw [contains_iff]; exact .inr hr
  · intro e he
    obtain ⟨r1, _⟩ := reserveEntities_reserved_eff w n h e
    rw [reserveEntities_fst, lookup_setCursor, lookup_eq w e]
    rw [reserveEntities_fst] at r1
    by_cases hr : w.Reserved e
    · rw [if_pos (r1.2 (.inl hr)), if_pos hr]
    · have : ¬ ({ w with cursor := w.cursor - n } : World).Reserved e := by
        intro hh; rcases r1.1 hh with h1 | h1
        · exact hr h1
        · exact he h1
      rw [if_neg this, if_neg hr]

theorem reserveEntities_length (w : World) (n : Nat) (h : w.Good) : (w.reserveEntities n).2.length = n := by
  have hc := h.cursor_le
  unfold reserveEntities
  simp only [List.length_append, List.length_map, List.length_take, List.length_drop, Array.length_toList]
  split
  · simp; omega
  · simp only [List.length_map, List.length_range']
    rcases Int.le_total w.cursor 0 with hc0 | hc0
    · rw [Int.min_eq_left hc0]; omega
    · rw [Int.min_eq_right hc0]; omega

theorem reserveEntity_eq (w : World) (h : w.Good) :
    w.reserveEntities 1 = ((w.reserveEntity).1, [(w.reserveEntity).2]) := by
  have hc := h.cursor_le
  unfold reserveEntities reserveEntity
  have e0 : ((1 : Nat) : Int) = 1 := rfl
  simp only [e0]
  by_cases hpos : w.cursor > 0
  · have hlt : (w.cursor - 1).toNat < w.pending.size := by omega
    have e1 : w.cursor.toNat - (w.cursor - 1).toNat = 1 := by omega
    have h1 : w.cursor - 1 ≥ 0 := by omega
    simp only [hpos, if_true, e1, h1, List.append_nil]
    congr 1
    rw [List.drop_eq_getElem_cons (by simpa using hlt)]
    have hlt' : w.cursor.toNat - 1 < w.pending.size := by omega
    have : w.pending[w.cursor.toNat - 1]! = w.pending[w.cursor.toNat - 1] := by simp [hlt']
    simp [this]
  · have e1 : w.cursor.toNat - (w.cursor - 1).toNat = 0 := by omega
    have h1 : ¬ (w.cursor - 1 ≥ 0) := by omega
    simp only [hpos, if_false, e1, List.take_zero, List.map_nil, List.nil_append, h1]
    have hmin : min w.cursor 0 = w.cursor := Int.min_eq_left (by omega)
    rw [hmin]
    have e3 : ((w.metas.size : Int) - (w.cursor - 1)).toNat - ((w.metas.size : Int) - w.cursor).toNat = 1 := by omega
    have e4 : ((w.metas.size : Int) - w.cursor).toNat = ((w.metas.size : Int) + -w.cursor).toNat := by omega
    rw [e3, e4]
    rfl

theorem reserveEntity_spec (w : World) (h : w.Good) :
    w.lookup (w.reserveEntity).2 = none ∧ (w.reserveEntity).1.lookup (w.reserveEntity).2 = some [] ∧
    (w.reserveEntity).1.isLive (w.reserveEntity).2 = false ∧
    (w.reserveEntity).1.contains (w.reserveEntity).2 = true ∧
    ∀ e, e ≠ (w.reserveEntity).2 → (w.reserveEntity).1.lookup e = w.lookup e := by
  have hs := reserveEntities_spec w 1 h
  rw [reserveEntity_eq w h] at hs
  obtain ⟨s1, s2⟩ := hs
  obtain ⟨t1, t2, t3, t4⟩ := s1 (w.reserveEntity).2 (by simp)
  exact ⟨t1, t2, t3, t4, fun e he => s2 e (by simpa using he)⟩

/-! ### clear -/

theorem clear_lookup (w : World) (e : Entity) : (w.clear).1.lookup e = none := by
  have hg : (w.clear).1.genAt e.id = none := by simp [clear, genAt]
  rw [lookup_eq, hg]
  have : ¬ (w.clear).1.Reserved e := by
    unfold Reserved; rw [hg]; simp [clear]
  simp [this]

theorem clear_dropped (w : World) :
    (w.clear).2.dropped = w.archs.toList.flatMap (fun ar => ar.rows.toList.flatMap (·.vals)) := rfl

theorem mem_clear_dropped (w : World) (c : Comp) :
    c ∈ (w.clear).2.dropped ↔ ∃ (a i : Nat) (r : Row), (w.rowsOf a)[i]? = some r ∧ c ∈ r.vals := by
  rw [clear_dropped]
  simp only [List.mem_flatMap]
  constructor
  · rintro ⟨ar, har, r, hr, hc⟩
    obtain ⟨a, ha, rfl⟩ := List.getElem_of_mem har
    obtain ⟨i, hi, rfl⟩ := List.getElem_of_mem hr
    simp only [Array.length_toList] at ha hi
    refine ⟨a, i, _, ?_, hc⟩
    simp only [Array.getElem_toList] at hi ⊢
    rw [rowsOf_of_get (get_of_lt ha)]
    simp [hi]
  · rintro ⟨a, i, r, hr, hc⟩
    have ha := lt_of_row hr
    rw [rowsOf_of_get (get_of_lt ha)] at hr
    exact ⟨w.archs[a], by simp, r, by simpa using Array.mem_of_getElem? hr, hc⟩

/-- `clear` drops the components of every live entity … -/
theorem clear_dropped_of_live (w : World) (e : Entity) (cs : List Comp) (hl : w.isLive e = true)
    (h : w.lookup e = some cs) (c : Comp) (hc : c ∈ cs) : c ∈ (w.clear).2.dropped := by
  rw [isLive_eq, decide_eq_true_iff] at hl
  rw [lookup_eq, if_pos hl] at h
  obtain ⟨l, hloc⟩ := Option.isSome_iff_exists.1 hl.2
  simp only [valsOf, hloc, Option.bind_some, rowAt_eq, Option.map_eq_some_iff] at h
  obtain ⟨r, hr, rfl⟩ := h
  exact (mem_clear_dropped w c).2 ⟨_, _, r, hr, hc⟩

/-- … and nothing else -/
theorem clear_dropped_live (w : World) (h : w.Good) (c : Comp) (hc : c ∈ (w.clear).2.dropped) :
    ∃ e cs, w.isLive e = true ∧ w.lookup e = some cs ∧ c ∈ cs := by
  obtain ⟨a, i, r, hr, hcr⟩ := (mem_clear_dropped w c).1 hc
  have hloc := h.bij.row_loc a i r hr
  have hlt := lt_of_locOf hloc
  have hg : w.genAt r.id = some w.metas[r.id].gen := genAt_eq_some.2 ⟨_, by simp [hlt], rfl⟩
  have hlive : w.genAt r.id = some w.metas[r.id].gen ∧ (w.locOf r.id).isSome := ⟨hg, by simp [hloc]⟩
  refine ⟨⟨r.id, w.metas[r.id].gen⟩, r.vals, ?_, ?_, hcr⟩
  · rw [isLive_eq, decide_eq_true_iff]; exact hlive
  · rw [lookup_eq]; simp only; rw [if_pos hlive]; exact valsOf_of_loc hloc hr

end World
end Hecs
