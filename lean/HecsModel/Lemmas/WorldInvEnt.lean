import HecsModel.Lemmas.WorldInvFlush
/-
  The entity-table primitives: `alloc`, `free`, `allocAt` (+ `evict`).
-/
namespace Hecs
namespace World

theorem Free.perm {w : World} {Q Q'} (hp : Q.Perm Q') (h : w.Free Q) : w.Free Q' :=
  ⟨hp.nodup_iff.1 h.nodup, fun id => by rw [← hp.mem_iff]; exact h.iff id⟩

theorem Pre.perm {w : World} {Q Q'} (hp : Q.Perm Q') (h : w.Pre Q) : w.Pre Q' :=
  ⟨h.bij, h.arch, h.free.perm hp, by rw [← hp.length_eq]; exact h.count⟩

theorem Free.perm_of {w : World} {Q Q'} (h : w.Free Q) (h' : w.Free Q') : Q.Perm Q' :=
  (List.perm_ext_iff_of_nodup h.nodup h'.nodup).2 (fun id => by rw [h.iff, h'.iff])

/-- the ids `D` have been allocated but not yet given a row; nothing is reserved -/
structure Allocd (w : World) (D : List Nat) : Prop where
  pre : w.Pre (D ++ w.pending.toList)
  cursor : w.cursor = w.pending.size
  len : w.len = w.rowCount + D.length

theorem Flushed.allocd {w : World} (h : w.Flushed) : w.Allocd [] :=
  ⟨by simpa using h.good.pre, h.cursor, by simpa using h.good.len_rows⟩

theorem Allocd.flushed {w : World} (h : w.Allocd []) : w.Flushed :=
  ⟨Pre.good (by simpa using h.pre) (by rw [h.cursor]; exact Int.le_refl _) (by simpa using h.len), h.cursor⟩

theorem Bij.congr {w w' : World} (hl : ∀ id, w'.locOf id = w.locOf id) (hr : ∀ b, w'.rowsOf b = w.rowsOf b)
    (h : w.Bij) : w'.Bij := by
  obtain ⟨h1, h2⟩ := h
  constructor
  · intro id a i; rw [hl, hr]; exact h1 id a i
  · intro a i r; rw [hl, hr]; exact h2 a i r

theorem ArchOK.of_archs {w w' : World} (ha : w'.archs = w.archs) (h : w.ArchOK) : w'.ArchOK := by
  obtain ⟨m, p, c, l, a⟩ := w
  obtain ⟨m', p', c', l', a'⟩ := w'
  simp only at ha; subst ha
  exact ⟨h.1, h.2, h.3, h.4⟩

/-! ### alloc -/

theorem alloc_allocd (w : World) (h : w.Flushed) : (w.alloc).1.Allocd [(w.alloc).2.id] := by
  unfold alloc
  split
  · rename_i hz
    have hp : w.pending = #[] := Array.eq_empty_of_size_eq_zero hz
    have hpre := h.good.pre
    rw [hp] at hpre
    simp only
    have hloc : ∀ id, ({ w with metas := w.metas.push Meta.empty, len := w.len + 1 } : World).locOf id = w.locOf id := by
      intro id
      simp only [locOf, Array.getElem?_push]
      split
      · subst_vars; simp [Meta.empty]
      · rfl
    refine ⟨⟨Bij.congr hloc (fun _ => rfl) hpre.bij, ArchOK.of_archs (w := w) rfl hpre.arch, ⟨?_, ?_⟩, ?_⟩, ?_, ?_⟩
    · simp [hp]
    · intro id; rw [hloc]
      have := hpre.free.iff id
      have := locOf_ge w id
      simp [hp] at *; grind
    · have := hpre.count
      simp [hp] at *
      show w.rowCount = _
      omega
    · exact h.cursor
    · show w.len + 1 = w.rowCount + 1
      rw [h.good.len_rows]
  · rename_i hz
    simp only
    have hb : w.pending.toList = w.pending.pop.toList ++ [w.pending.back!] := by
      have hlt : w.pending.size - 1 < w.pending.size := by omega
      have : w.pending.back! = w.pending[w.pending.size - 1] := by
        rw [Array.back!_eq_back?, Array.back?_eq_getElem?]; simp [hlt]
      rw [this, Array.toList_pop]
      have hne : w.pending.toList ≠ [] := by simp; intro h0; simp [h0] at hz
      conv => lhs; rw [← List.dropLast_concat_getLast hne]
      simp [List.getLast_eq_getElem]
    refine ⟨?_, rfl, ?_⟩
    · have hpre := h.good.pre
      rw [hb] at hpre
      exact Pre.of_eq (w := w) rfl rfl (hpre.perm (by simp))
    · show w.len + 1 = w.rowCount + 1
      rw [h.good.len_rows]

/-! ### giving an allocated id its row -/

theorem place_allocd (w : World) (a id) (vals : List Comp) (D) (ha : a < w.archs.size)
    (hv : vals.map (·.1) = w.typesOf a) (h : w.Allocd (id :: D)) : (w.place a id vals).Allocd D := by
  have hp := place_pre w a id vals [] (D ++ w.pending.toList) ha hv (by simpa using h.pre)
  refine ⟨by simpa using hp, ?_, ?_⟩
  · simp [h.cursor]
  · rw [place_len, place_rowCount _ _ _ _ ha, h.len]; simp; omega

/-! ### taking a row away from an id -/

theorem rowsOf_of_archs {w w1 : World} (ha : w1.archs = w.archs) (b : Nat) : w1.rowsOf b = w.rowsOf b := by
  unfold rowsOf; rw [ha]

theorem unplace_pre (w w1 : World) (id a i : Nat) (pre post : List Nat)
    (h : w.Pre (pre ++ post)) (hloc : w.locOf id = some (a, i))
    (hl : ∀ id', w1.locOf id' = if id' = id then none else w.locOf id')
    (ha : w1.archs = w.archs) (hm : w1.metas.size = w.metas.size) :
    (w1.removeRow a i).Pre (pre ++ id :: post) ∧ (w1.removeRow a i).rowCount + 1 = w.rowCount := by
  have hr := rowsOf_of_archs ha
  obtain ⟨r0, hr0, hr0id⟩ := h.bij.loc_row id a i hloc
  have hsz : i < (w.rowsOf a).size := by grind
  have hex : w1.BijEx a i := by
    obtain ⟨h1, h2⟩ := h.bij
    constructor
    · intro id' b j; rw [hl, hr]; intro hh
      by_cases hi : id' = id
      · simp [hi] at hh
      · simp only [hi, if_false] at hh
        have := h1 id' b j hh
        grind
    · intro b j r; rw [hl, hr]; intro hh hne
      have := h2 b j r hh
      grind
    · rw [hr]; exact hsz
  have hfree : w1.Free (pre ++ id :: post) := by
    obtain ⟨f1, f2⟩ := h.free
    have hnot : id ∉ pre ++ post := by
      intro hmem; have := (f2 id).1 hmem; rw [hloc] at this; simp at this
    constructor
    · simp only [List.nodup_append, List.nodup_cons, List.mem_append, List.mem_cons] at *; grind
    · intro id'; rw [hl, hm]
      have hf := f2 id'
      have hlt := lt_of_locOf hloc
      by_cases hi : id' = id
      · subst hi; simp; omega
      · simp [hi] at hf ⊢; exact hf
  have hrc : (w1.removeRow a i).rowCount + 1 = w.rowCount := by
    rw [removeRow_rowCount w1 a i (by rw [hr]; omega)]
    exact rowCount_of_archs ha
  refine ⟨⟨removeRow_bij w1 a i hex, removeRow_archOK w1 a i (ArchOK.of_archs ha h.arch),
    removeRow_free w1 a i _ hfree, ?_⟩, hrc⟩
  rw [removeRow_metas_size, hm]
  have := h.count; simp at this ⊢; omega

/-! ### free -/

/-- the state after `free` succeeded on meta `m` -/
def freed (w : World) (id : Nat) (m : Meta) : World :=
  { w with metas := w.metas.set! id ⟨m.gen + 1, none⟩, pending := w.pending.push id,
           cursor := ((w.pending.push id).size : Nat), len := w.len - 1 }

theorem free_some {w : World} {e : Entity} {w1 l} (h : w.free e = some (w1, l)) :
    ∃ m, w.metas[e.id]? = some m ∧ m.gen = e.gen ∧ m.loc = some l ∧ w1 = w.freed e.id m := by
  unfold free at h
  split at h
  · cases h
  · rename_i m hm
    split at h
    · cases h
    · rename_i hg
      split at h
      · cases h
      · rename_i l' hl'
        simp only [Option.some.injEq, Prod.mk.injEq] at h
        obtain ⟨h1, h2⟩ := h
        subst h2
        exact ⟨m, hm, by simpa using hg, hl', h1.symm⟩

theorem free_of_meta {w : World} {e : Entity} {m : Meta} {l} (hm : w.metas[e.id]? = some m)
    (hg : m.gen = e.gen) (hl : m.loc = some l) : w.free e = some (w.freed e.id m, l) := by
  unfold free
  simp only [hm, hg, hl]
  simp [freed, hg]

theorem freed_locOf (w : World) (id : Nat) (m : Meta) (id' : Nat) :
    (w.freed id m).locOf id' = if id' = id then none else w.locOf id' := by
  simp only [locOf, freed, Array.set!_eq_setIfInBounds, Array.getElem?_setIfInBounds]
  by_cases h : id = id'
  · subst h; simp
  · have : ¬ id' = id := fun e => h e.symm
    simp [h, this]

theorem locOf_of_meta {w : World} {id : Nat} {m : Meta} (hm : w.metas[id]? = some m) : w.locOf id = m.loc := by
  simp [locOf, hm]

theorem freed_removeRow_flushed (w : World) (id : Nat) (m : Meta) (a i : Nat) (hf : w.Flushed)
    (hm : w.metas[id]? = some m) (hl : m.loc = some (a, i)) :
    ((w.freed id m).removeRow a i).Flushed := by
  have hloc : w.locOf id = some (a, i) := by rw [locOf_of_meta hm, hl]
  obtain ⟨hp, hrc⟩ := unplace_pre w (w.freed id m) id a i w.pending.toList []
    (by simpa using hf.good.pre) hloc (freed_locOf w id m) rfl (by simp [freed])
  refine ⟨Pre.good ?_ ?_ ?_, ?_⟩
  · rw [removeRow_pending]; simpa [freed] using hp
  · rw [removeRow_pending, removeRow_cursor]; simp [freed]
  · rw [removeRow_len]; show w.len - 1 = _; rw [hf.good.len_rows]; omega
  · rw [removeRow_pending, removeRow_cursor]; simp [freed]

/-! ### allocAt -/

theorem list_swapRemove_perm (L : List Nat) (k : Nat) (hk : k < L.length) (d : Nat) :
    (L[k] :: (L.set k (L.getLast?.getD d)).dropLast).Perm L := by
  induction L generalizing k with
  | nil => simp at hk
  | cons x xs ih =>
    cases k with
    | zero =>
      simp only [List.getElem_cons_zero, List.set_cons_zero]
      apply List.Perm.cons
      cases xs with
      | nil => simp
      | cons y ys =>
        have hne : (y :: ys) ≠ [] := by simp
        simp only [List.getLast?_cons_cons, List.dropLast_cons_cons]
        rw [List.getLast?_eq_some_getLast hne]
        simp only [Option.getD_some]
        conv => rhs; rw [← List.dropLast_concat_getLast hne]
        exact (List.perm_append_singleton _ _).symm
    | succ k =>
      simp only [List.length_cons, Nat.add_lt_add_iff_right] at hk
      have hne : xs ≠ [] := by intro h; subst h; simp at hk
      obtain ⟨y, ys, rfl⟩ := List.exists_cons_of_ne_nil hne
      simp only [List.getElem_cons_succ, List.set_cons_succ, List.getLast?_cons_cons]
      have hne2 : (y :: ys).set k ((y :: ys).getLast?.getD d) ≠ [] := by
        intro h; have := congrArg List.length h; simp at this
      obtain ⟨z, zs, hz⟩ := List.exists_cons_of_ne_nil hne2
      rw [hz, List.dropLast_cons_cons, ← hz]
      exact (List.Perm.swap _ _ _).trans ((ih k hk).cons x)

theorem swapRemove_perm (P : Array Nat) (k : Nat) (hk : k < P.size) :
    (P[k] :: ((P.set! k P.back!).pop).toList).Perm P.toList := by
  have := list_swapRemove_perm P.toList k (by simpa using hk) default
  simpa [Array.back!_eq_back?, Array.back?_eq_getElem?, List.getLast?_eq_getElem?] using this

theorem Pre.congr {w w' : World} {Q} (hl : ∀ id, w'.locOf id = w.locOf id) (ha : w'.archs = w.archs)
    (hm : w'.metas.size = w.metas.size) (h : w.Pre Q) : w'.Pre Q := by
  refine ⟨Bij.congr hl (rowsOf_of_archs ha) h.bij, ArchOK.of_archs ha h.arch, ⟨h.free.nodup, ?_⟩, ?_⟩
  · intro id; rw [hl, hm]; exact h.free.iff id
  · rw [rowCount_of_archs ha, hm]; exact h.count

theorem idxOf?_some {P : Array Nat} {x k : Nat} (h : P.idxOf? x = some k) : ∃ hk : k < P.size, P[k] = x := by
  unfold Array.idxOf? at h
  rw [Option.map_eq_some_iff] at h
  obtain ⟨i, hi, rfl⟩ := h
  rw [Array.finIdxOf?_eq_some_iff] at hi
  exact ⟨i.2, hi.1⟩

theorem evict_none (w : World) : w.evict none = (w, []) := rfl
theorem evict_some (w : World) (a i : Nat) :
    w.evict (some (a, i)) = (w.removeRow a i, ((w.rowAt a i).map (·.vals)).getD []) := rfl

theorem allocAt_evict_allocd (w : World) (e : Entity) (D : List Nat) (h : w.Allocd D) (hD : e.id ∉ D) :
    ((w.allocAt e).1.evict (w.allocAt e).2).1.Allocd (e.id :: D) := by
  unfold allocAt
  split
  · -- fresh id beyond the table
    rename_i hsz
    simp only [evict_none]
    have hloc : ∀ id, (({ w with
          pending := w.pending ++ (List.range' w.metas.size (e.id - w.metas.size)).toArray,
          cursor := ((w.pending ++ (List.range' w.metas.size (e.id - w.metas.size)).toArray).size : Nat),
          metas := w.metas ++ Array.replicate (e.id + 1 - w.metas.size) Meta.empty,
          len := w.len + 1 } : World).setGen e.id e.gen).locOf id = w.locOf id := by
      intro id; rw [setGen_locOf]
      simp only [locOf, Array.getElem?_append, Array.getElem?_replicate]
      split
      · rfl
      · rename_i hge
        rw [Array.getElem?_eq_none (by omega)]
        split <;> simp [Meta.empty]
    have hpre := h.pre
    have hlt : ∀ x, x ∈ D ++ w.pending.toList → x < w.metas.size := fun x hx => ((hpre.free.iff x).1 hx).1
    refine ⟨⟨Bij.congr hloc (fun _ => rfl) hpre.bij, ArchOK.of_archs (w := w) rfl hpre.arch, ⟨?_, ?_⟩, ?_⟩, ?_, ?_⟩
    · have hn := hpre.free.nodup
      have hr := List.nodup_range' (s := w.metas.size) (n := e.id - w.metas.size) 1
      simp only [setGen_pending, Array.toList_append, List.nodup_cons, List.nodup_append, List.mem_append,
        List.mem_range'_1, List.cons_append] at *
      grind
    · intro id; rw [hloc]
      have h1 := hpre.free.iff id
      have h2 := locOf_ge w id
      simp only [setGen_pending, setGen_metas_size, Array.toList_append, List.mem_cons, List.mem_append,
        List.mem_range'_1, List.cons_append, Array.size_append, Array.size_replicate] at *
      grind
    · have hc := hpre.count
      simp only [setGen_pending, setGen_metas_size, setGen_rowCount, Array.toList_append, List.length_cons,
        List.length_append, List.length_range', Array.size_append, Array.size_replicate, List.cons_append,
        Array.length_toList, List.size_toArray] at *
      show w.rowCount + _ = _
      omega
    · simp
    · rw [setGen_len, setGen_rowCount]
      show w.len + 1 = w.rowCount + _
      rw [h.len]; simp; omega
  · rename_i hsz
    split
    · -- the id is in the free list
      rename_i k hk
      obtain ⟨hk1, hk2⟩ := idxOf?_some hk
      simp only [evict_none]
      have hperm := swapRemove_perm w.pending k hk1
      rw [hk2] at hperm
      have hsize : ((w.pending.set! k w.pending.back!).pop).size + 1 = w.pending.size := by
        simp; omega
      refine ⟨?_, ?_, ?_⟩
      · refine Pre.congr (w := w) (fun id => by rw [setGen_locOf]; rfl) rfl (by simp) (h.pre.perm ?_)
        simp only [setGen_pending, List.cons_append]
        exact ((List.Perm.append_left D hperm.symm).trans List.perm_middle)
      · simp
      · rw [setGen_len, setGen_rowCount]
        show w.len + 1 = w.rowCount + _
        rw [h.len]; simp; omega
    · -- the id is live
      rename_i hk
      rw [Array.idxOf?_eq_none_iff] at hk
      have hsome : w.locOf e.id ≠ none := by
        intro hn
        have := (h.pre.free.iff e.id).2 ⟨by omega, hn⟩
        simp at this; grind
      obtain ⟨⟨a, i⟩, hl⟩ := Option.ne_none_iff_exists'.1 hsome
      simp only [hl, evict_some]
      obtain ⟨hp, hrc⟩ := unplace_pre w ((w.setLoc e.id none).setGen e.id e.gen) e.id a i [] (D ++ w.pending.toList)
        (by simpa using h.pre) hl
        (fun id' => by rw [setGen_locOf, setLoc_locOf]; split <;> grind) rfl (by simp)
      refine ⟨?_, ?_, ?_⟩
      · simpa using hp
      · simp [h.cursor]
      · simp [h.len]; omega

end World
end Hecs
