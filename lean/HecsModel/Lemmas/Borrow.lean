import HecsModel.Model.Borrow
/-
  C06 helper lemmas: counters over the thread list, the lock-word invariant, and its preservation
  by every atomic action of every thread.

  The constant `UNIQUE` is never unfolded inside a big `simp`/`omega` call: the arithmetic lemmas
  are stated for an arbitrary positive `U` and instantiated with `UNIQUE_pos`.
-/
namespace Hecs.Borrow

/-! ### counters -/

/-- 1 if the thread holds the unique borrow -/
def uBit (t : Thread) : Nat := if t.uniq then 1 else 0
/-- 1 if the thread is between the failed `fetch_add` and the compensating `fetch_sub` -/
def rBit (t : Thread) : Nat := if t.rollback then 1 else 0

/-- number of shared borrows held, over all threads -/
def sumShared (s : Sys) : Nat := (s.threads.map (·.shared)).sum
/-- number of threads holding the unique borrow -/
def numUniq (s : Sys) : Nat := (s.threads.map uBit).sum
/-- number of threads whose failed shared attempt is still counted in the word -/
def numRollback (s : Sys) : Nat := (s.threads.map rBit).sum

/-- the lock word is exactly `UNIQUE`·(unique holders) + (shared holders) + (pending roll-backs);
at most one unique holder; a unique holder excludes every shared holder -/
def Inv (s : Sys) : Prop :=
  s.word = UNIQUE * numUniq s + sumShared s + numRollback s ∧ numUniq s ≤ 1 ∧
    (numUniq s = 1 → sumShared s = 0)

/-- the documented out-of-scope overflow: fewer than 2^63 simultaneous shared borrows/attempts -/
def Bounded (s : Sys) : Prop := sumShared s + numRollback s < UNIQUE

/-- a schedule: which thread performs which atomic action, in order -/
def run (s : Sys) : List (Nat × Act) → Sys
  | [] => s
  | (i, a) :: rest => run (s.step i a).1 rest

theorem UNIQUE_pos : 0 < UNIQUE := by decide

/-! ### sums over `List.set` -/

theorem sum_map_set (f : Thread → Nat) :
    ∀ (l : List Thread) (i : Nat) (t t' : Thread), l[i]? = some t →
      ((l.set i t').map f).sum + f t = (l.map f).sum + f t'
  | [], i, t, t', h => by simp at h
  | x :: xs, 0, t, t', h => by
    simp at h
    subst h
    simp only [List.set_cons_zero, List.map_cons, List.sum_cons]
    omega
  | x :: xs, i + 1, t, t', h => by
    simp at h
    have ih := sum_map_set f xs i t t' h
    simp only [List.set_cons_succ, List.map_cons, List.sum_cons]
    omega

theorem le_sum_map (f : Thread → Nat) :
    ∀ (l : List Thread) (i : Nat) (t : Thread), l[i]? = some t → f t ≤ (l.map f).sum
  | [], i, t, h => by simp at h
  | x :: xs, 0, t, h => by
    simp at h
    subst h
    simp
  | x :: xs, i + 1, t, h => by
    simp at h
    have ih := le_sum_map f xs i t h
    simp
    omega

theorem add_le_sum_map (f : Thread → Nat) :
    ∀ (l : List Thread) (i j : Nat) (ti tj : Thread), l[i]? = some ti → l[j]? = some tj → i ≠ j →
      f ti + f tj ≤ (l.map f).sum
  | [], i, j, ti, tj, h, _, _ => by simp at h
  | x :: xs, 0, 0, ti, tj, _, _, hne => by simp at hne
  | x :: xs, 0, j + 1, ti, tj, hi, hj, _ => by
    simp at hi hj
    subst hi
    have := le_sum_map f xs j tj hj
    simp
    omega
  | x :: xs, i + 1, 0, ti, tj, hi, hj, _ => by
    simp at hi hj
    subst hj
    have := le_sum_map f xs i ti hi
    simp
    omega
  | x :: xs, i + 1, j + 1, ti, tj, hi, hj, hne => by
    simp at hi hj
    have := add_le_sum_map f xs i j ti tj hi hj (by omega)
    simp
    omega

theorem sum_map_eq_zero (f : Thread → Nat) :
    ∀ (l : List Thread), (∀ t ∈ l, f t = 0) → (l.map f).sum = 0
  | [], _ => by simp
  | x :: xs, h => by
    have h0 : f x = 0 := h x (by simp)
    have ih := sum_map_eq_zero f xs (fun t ht => h t (by simp [ht]))
    simp [h0, ih]

theorem sum_map_replicate_zero (f : Thread → Nat) (t : Thread) (h : f t = 0) (n : Nat) :
    ((List.replicate n t).map f).sum = 0 :=
  sum_map_eq_zero f _ (fun t' ht' => by
    have := (List.mem_replicate.mp ht').2
    subst this
    exact h)

/-! ### counters after replacing thread `i` -/

section set
variable (s : Sys) (i : Nat) (t t' : Thread) (w : Nat)

theorem sumShared_set (h : s.threads[i]? = some t) :
    sumShared { word := w, threads := s.threads.set i t' } + t.shared = sumShared s + t'.shared :=
  sum_map_set (·.shared) s.threads i t t' h

theorem numUniq_set (h : s.threads[i]? = some t) :
    numUniq { word := w, threads := s.threads.set i t' } + uBit t = numUniq s + uBit t' :=
  sum_map_set uBit s.threads i t t' h

theorem numRollback_set (h : s.threads[i]? = some t) :
    numRollback { word := w, threads := s.threads.set i t' } + rBit t = numRollback s + rBit t' :=
  sum_map_set rBit s.threads i t t' h

end set

theorem shared_le (s : Sys) (i : Nat) (t : Thread) (h : s.threads[i]? = some t) :
    t.shared ≤ sumShared s := le_sum_map (·.shared) s.threads i t h
theorem uBit_le (s : Sys) (i : Nat) (t : Thread) (h : s.threads[i]? = some t) :
    uBit t ≤ numUniq s := le_sum_map uBit s.threads i t h
theorem rBit_le (s : Sys) (i : Nat) (t : Thread) (h : s.threads[i]? = some t) :
    rBit t ≤ numRollback s := le_sum_map rBit s.threads i t h

/-! ### arithmetic core, for an arbitrary positive value of the unique bit -/

/-- with at most one unique holder, the word is below `U` only if nobody holds the unique borrow -/
theorem nu_zero_of_lt {U w nu ss nr : Nat} (hw : w = U * nu + ss + nr) (hlt : w < U) : nu = 0 := by
  cases nu with
  | zero => rfl
  | succ k =>
    have : U * (k + 1) = U * k + U := Nat.mul_succ U k
    omega

theorem all_zero_of_word_zero {U w nu ss nr : Nat} (hU : 0 < U) (hw : w = U * nu + ss + nr)
    (h0 : w = 0) : nu = 0 ∧ ss = 0 ∧ nr = 0 := by
  have hnu : nu = 0 := nu_zero_of_lt hw (by omega)
  subst hnu
  simp at hw
  omega

/-- with the overflow bound, the word reaches `U` only if somebody holds the unique borrow -/
theorem nu_one_of_ge {U w nu ss nr : Nat} (hw : w = U * nu + ss + nr) (hle : nu ≤ 1)
    (hb : ss + nr < U) (hge : w ≥ U) : nu = 1 := by
  cases nu with
  | zero => simp at hw; omega
  | succ k => omega

/-! ### the step -/

/-- unfolding of `Sys.step` for an in-range, enabled action -/
theorem step_enabled (s : Sys) (i : Nat) (a : Act) (t : Thread) (h : s.threads[i]? = some t)
    (he : enabled t a = true) :
    s.step i a =
      ({ word := (act s.word t a).1, threads := s.threads.set i (act s.word t a).2.1 },
        (act s.word t a).2.2) := by
  simp [Sys.step, h, he]

theorem step_disabled (s : Sys) (i : Nat) (a : Act) (t : Thread) (h : s.threads[i]? = some t)
    (he : enabled t a = false) : s.step i a = (s, none) := by
  simp [Sys.step, h, he]

theorem step_out_of_range (s : Sys) (i : Nat) (a : Act) (h : s.threads[i]? = none) :
    s.step i a = (s, none) := by
  simp [Sys.step, h]

/-- a step of thread `i` never touches the record of another thread -/
theorem step_frame (s : Sys) (i j : Nat) (a : Act) (hne : j ≠ i) :
    (s.step i a).1.threads[j]? = s.threads[j]? := by
  cases h : s.threads[i]? with
  | none => rw [step_out_of_range s i a h]
  | some t =>
    cases he : enabled t a with
    | false => rw [step_disabled s i a t h he]
    | true =>
      rw [step_enabled s i a t h he]
      simp [List.getElem?_set_ne (Ne.symm hne)]

/-- the invariant for an arbitrary value `U` of the unique bit (used to keep the literal opaque) -/
def InvU (U : Nat) (s : Sys) : Prop :=
  s.word = U * numUniq s + sumShared s + numRollback s ∧ numUniq s ≤ 1 ∧
    (numUniq s = 1 → sumShared s = 0)

theorem inv_iff_invU (s : Sys) : Inv s ↔ InvU UNIQUE s := Iff.rfl

/-- `act` with the unique bit as a parameter -/
def actU (U : Nat) (word : Nat) (t : Thread) : Act → Nat × Thread × Option Bool
  | .borrowAdd =>
    if word ≥ U then (word + 1, { t with rollback := true }, none)
    else (word + 1, { t with shared := t.shared + 1 }, some true)
  | .borrowUndo => (word - 1, { t with rollback := false }, some false)
  | .borrowMut =>
    if word = 0 then (U, { t with uniq := true }, some true) else (word, t, some false)
  | .release => (word - 1, { t with shared := t.shared - 1 }, none)
  | .releaseMut => (if word ≥ U then word - U else word, { t with uniq := false }, none)

theorem act_eq_actU (word : Nat) (t : Thread) (a : Act) : act word t a = actU UNIQUE word t a := by
  cases a <;> rfl

/-- elimination form in which the product `U * numUniq s` is replaced by a linear atom -/
theorem invU_elim {U : Nat} {s : Sys} (h : InvU U s) :
    ∃ m, (numUniq s = 0 ∧ m = 0 ∨ numUniq s = 1 ∧ m = U) ∧ s.word = m + sumShared s + numRollback s ∧
      numUniq s ≤ 1 ∧ (numUniq s = 1 → sumShared s = 0) := by
  obtain ⟨hw, hle, hex⟩ := h
  refine ⟨U * numUniq s, ?_, hw, hle, hex⟩
  have : numUniq s = 0 ∨ numUniq s = 1 := by omega
  rcases this with h0 | h1
  · left; simp [h0]
  · right; simp [h1]

/-- introduction form, same idea -/
theorem invU_intro {U : Nat} {s : Sys} (hle : numUniq s ≤ 1)
    (h : ∀ m, (numUniq s = 0 ∧ m = 0 ∨ numUniq s = 1 ∧ m = U) →
      s.word = m + sumShared s + numRollback s ∧ (numUniq s = 1 → sumShared s = 0)) :
    InvU U s := by
  have hc : numUniq s = 0 ∨ numUniq s = 1 := by omega
  have hm : numUniq s = 0 ∧ U * numUniq s = 0 ∨ numUniq s = 1 ∧ U * numUniq s = U := by
    rcases hc with h0 | h1
    · left; simp [h0]
    · right; simp [h1]
  obtain ⟨hw, hex⟩ := h (U * numUniq s) hm
  exact ⟨hw, hle, hex⟩

theorem set_self (l : List Thread) (i : Nat) (t : Thread) (h : l[i]? = some t) : l.set i t = l := by
  apply List.ext_getElem?
  intro j
  by_cases hj : i = j
  · subst hj
    obtain ⟨hlt, heq⟩ := List.getElem?_eq_some_iff.mp h
    simp [hlt, heq]
  · simp [List.getElem?_set_ne hj]

/-- preservation by one enabled action, for an arbitrary positive unique bit -/
theorem invU_act (U : Nat) (hU : 0 < U) (s : Sys) (i : Nat) (a : Act) (t : Thread)
    (h : s.threads[i]? = some t) (he : enabled t a = true) (hinv : InvU U s) :
    InvU U { word := (actU U s.word t a).1, threads := s.threads.set i (actU U s.word t a).2.1 } := by
  obtain ⟨m, hm, hw, hle, hex⟩ := invU_elim hinv
  have hS := fun t' w => sumShared_set s i t t' w h
  have hN := fun t' w => numUniq_set s i t t' w h
  have hR := fun t' w => numRollback_set s i t t' w h
  have hs := shared_le s i t h
  have hu := uBit_le s i t h
  have hr := rBit_le s i t h
  cases a with
  | borrowAdd =>
    have hrb : t.rollback = false := by simpa [enabled] using he
    by_cases hge : s.word ≥ U
    · simp only [actU, hge, if_true]
      have hS' := hS { t with rollback := true } (s.word + 1)
      have hN' := hN { t with rollback := true } (s.word + 1)
      have hR' := hR { t with rollback := true } (s.word + 1)
      simp [uBit, rBit, hrb] at hS' hN' hR' hu hr
      apply invU_intro (by omega)
      intro m' hm'
      dsimp only
      omega
    · simp only [actU, hge, if_false]
      have hS' := hS { t with shared := t.shared + 1 } (s.word + 1)
      have hN' := hN { t with shared := t.shared + 1 } (s.word + 1)
      have hR' := hR { t with shared := t.shared + 1 } (s.word + 1)
      simp [uBit, rBit] at hS' hN' hR' hu hr
      apply invU_intro (by omega)
      intro m' hm'
      dsimp only
      omega
  | borrowUndo =>
    have hrb : t.rollback = true := by simpa [enabled] using he
    simp only [actU]
    have hS' := hS { t with rollback := false } (s.word - 1)
    have hN' := hN { t with rollback := false } (s.word - 1)
    have hR' := hR { t with rollback := false } (s.word - 1)
    simp [uBit, rBit, hrb] at hS' hN' hR' hu hr
    apply invU_intro (by omega)
    intro m' hm'
    dsimp only
    omega
  | borrowMut =>
    by_cases hz : s.word = 0
    · simp only [actU, hz, if_true]
      have hS' := hS { t with uniq := true } U
      have hN' := hN { t with uniq := true } U
      have hR' := hR { t with uniq := true } U
      simp [uBit, rBit] at hS' hN' hR' hu hr
      apply invU_intro (by omega)
      intro m' hm'
      dsimp only
      omega
    · simp only [actU, hz, if_false]
      rw [set_self _ _ _ h]
      exact hinv
  | release =>
    have hen : t.rollback = false ∧ t.shared > 0 := by simpa [enabled] using he
    simp only [actU]
    have hS' := hS { t with shared := t.shared - 1 } (s.word - 1)
    have hN' := hN { t with shared := t.shared - 1 } (s.word - 1)
    have hR' := hR { t with shared := t.shared - 1 } (s.word - 1)
    simp [uBit, rBit] at hS' hN' hR' hu hr
    apply invU_intro (by omega)
    intro m' hm'
    dsimp only
    omega
  | releaseMut =>
    have hen : t.rollback = false ∧ t.uniq = true := by simpa [enabled] using he
    have hS' := hS { t with uniq := false } (if s.word ≥ U then s.word - U else s.word)
    have hN' := hN { t with uniq := false } (if s.word ≥ U then s.word - U else s.word)
    have hR' := hR { t with uniq := false } (if s.word ≥ U then s.word - U else s.word)
    simp [uBit, rBit, hen.2] at hS' hN' hR' hu hr
    have hge : s.word ≥ U := by omega
    simp only [actU, hge, if_true] at hS' hN' hR' ⊢
    apply invU_intro (by omega)
    intro m' hm'
    dsimp only
    omega

/-- preservation by one step of any thread performing any action (no overflow bound is needed: the
model word is a natural number, so the equation survives even beyond 2^63 attempts) -/
theorem inv_step' (s : Sys) (i : Nat) (a : Act) (hinv : Inv s) : Inv (s.step i a).1 := by
  cases h : s.threads[i]? with
  | none => rw [step_out_of_range s i a h]; exact hinv
  | some t =>
    cases he : enabled t a with
    | false => rw [step_disabled s i a t h he]; exact hinv
    | true =>
      rw [step_enabled s i a t h he, act_eq_actU]
      exact invU_act UNIQUE UNIQUE_pos s i a t h he hinv

theorem inv_init' (n : Nat) : Inv (Sys.init n) := by
  have hs : sumShared (Sys.init n) = 0 := sum_map_replicate_zero _ _ rfl n
  have hu : numUniq (Sys.init n) = 0 := sum_map_replicate_zero _ _ rfl n
  have hr : numRollback (Sys.init n) = 0 := sum_map_replicate_zero _ _ rfl n
  refine ⟨?_, by omega, fun _ => hs⟩
  rw [hs, hu, hr]
  rfl

theorem inv_run' : ∀ (steps : List (Nat × Act)) (s : Sys), Inv s → Inv (run s steps)
  | [], _, h => h
  | (i, a) :: rest, s, h => inv_run' rest (s.step i a).1 (inv_step' s i a h)

/-! ### results returned by the granting actions -/

/-- `borrow_mut` reports success only from the all-zero word -/
theorem word_zero_of_borrowMut_true (s : Sys) (i : Nat)
    (h : (s.step i .borrowMut).2 = some true) : s.word = 0 := by
  cases ht : s.threads[i]? with
  | none => rw [step_out_of_range s i _ ht] at h; simp at h
  | some t =>
    cases he : enabled t .borrowMut with
    | false => rw [step_disabled s i _ t ht he] at h; simp at h
    | true =>
      rw [step_enabled s i _ t ht he] at h
      by_cases hz : s.word = 0
      · exact hz
      · simp [act, hz] at h

/-- `borrow` reports success only from a word without the unique bit -/
theorem word_lt_of_borrowAdd_true (s : Sys) (i : Nat)
    (h : (s.step i .borrowAdd).2 = some true) : s.word < UNIQUE := by
  cases ht : s.threads[i]? with
  | none => rw [step_out_of_range s i _ ht] at h; simp at h
  | some t =>
    cases he : enabled t .borrowAdd with
    | false => rw [step_disabled s i _ t ht he] at h; simp at h
    | true =>
      rw [step_enabled s i _ t ht he] at h
      by_cases hz : s.word ≥ UNIQUE
      · simp [act, hz] at h
      · exact Nat.lt_of_not_le hz

/-- an enabled `fetch_add` of `borrow` that does not complete the call saw the unique bit -/
theorem word_ge_of_borrowAdd_none (s : Sys) (i : Nat) (t : Thread) (ht : s.threads[i]? = some t)
    (he : enabled t .borrowAdd = true) (h : (s.step i .borrowAdd).2 = none) : s.word ≥ UNIQUE := by
  rw [step_enabled s i _ t ht he] at h
  by_cases hz : s.word ≥ UNIQUE
  · exact hz
  · simp [act, hz] at h

/-- the failed `fetch_add` followed immediately by the compensating `fetch_sub` restores the whole
state (word and every thread record) -/
theorem failed_borrow_restores (s : Sys) (i : Nat) (t : Thread) (ht : s.threads[i]? = some t)
    (he : enabled t .borrowAdd = true) (h : (s.step i .borrowAdd).2 = none) :
    ((s.step i .borrowAdd).1.step i .borrowUndo).1 = s := by
  have hge := word_ge_of_borrowAdd_none s i t ht he h
  have hrb : t.rollback = false := by simpa [enabled] using he
  have hlt : i < s.threads.length := (List.getElem?_eq_some_iff.mp ht).1
  have h1 : (s.step i .borrowAdd).1 =
      { word := s.word + 1, threads := s.threads.set i { t with rollback := true } } := by
    rw [step_enabled s i _ t ht he]
    simp [act, hge]
  rw [h1]
  have ht' : ({ word := s.word + 1, threads := s.threads.set i { t with rollback := true } } :
      Sys).threads[i]? = some { t with rollback := true } := by
    simp [hlt]
  rw [step_enabled _ i _ _ ht' (by simp [enabled])]
  have hback : ({ t with rollback := false } : Thread) = t := by
    cases t; simp_all
  simp only [act, List.set_set, Nat.add_sub_cancel]
  rw [hback, set_self _ _ _ ht]

/-- a thread in `rollback` can always perform (only) the compensating `fetch_sub`, which completes
its `borrow` call with `false`, clears the flag and gives back exactly the unit it had added -/
theorem rollback_step (s : Sys) (i : Nat) (t : Thread) (ht : s.threads[i]? = some t)
    (hrb : t.rollback = true) (hinv : Inv s) :
    enabled t .borrowUndo = true ∧ (s.step i .borrowUndo).2 = some false ∧
      (s.step i .borrowUndo).1.word + 1 = s.word ∧
      (s.step i .borrowUndo).1.threads[i]? = some { t with rollback := false } := by
  have he : enabled t .borrowUndo = true := by simp [enabled, hrb]
  have hlt : i < s.threads.length := (List.getElem?_eq_some_iff.mp ht).1
  have hr := rBit_le s i t ht
  simp [rBit, hrb] at hr
  have hpos : 1 ≤ s.word := by
    have := hinv.1
    omega
  rw [step_enabled s i _ t ht he]
  refine ⟨he, by simp [act], ?_, by simp [act, hlt]⟩
  simp only [act]
  omega

/-! ### the overflow bound -/

/-- number of units counted in the word besides the unique bit -/
def load (s : Sys) : Nat := sumShared s + numRollback s

theorem load_step (s : Sys) (i : Nat) (a : Act) : load (s.step i a).1 ≤ load s + 1 := by
  cases h : s.threads[i]? with
  | none => rw [step_out_of_range s i a h]; exact Nat.le_succ _
  | some t =>
    cases he : enabled t a with
    | false => rw [step_disabled s i a t h he]; exact Nat.le_succ _
    | true =>
      rw [step_enabled s i a t h he]
      have hS := sumShared_set s i t (act s.word t a).2.1 (act s.word t a).1 h
      have hR := numRollback_set s i t (act s.word t a).2.1 (act s.word t a).1 h
      have hs := shared_le s i t h
      have hr := rBit_le s i t h
      unfold load
      cases a with
      | borrowAdd =>
        by_cases hge : s.word ≥ UNIQUE
        · simp [act, hge, rBit] at hS hR hr ⊢; split at hR <;> omega
        · simp [act, hge, rBit] at hS hR hr ⊢; omega
      | borrowUndo => simp [act, rBit] at hS hR hr ⊢; split at hR <;> omega
      | borrowMut =>
        by_cases hz : s.word = 0
        · simp [act, hz, rBit] at hS hR hr ⊢; omega
        · simp [act, hz, rBit] at hS hR hr ⊢; omega
      | release =>
        have hen : t.rollback = false ∧ t.shared > 0 := by simpa [enabled] using he
        simp [act, rBit, hen.1] at hS hR ⊢; omega
      | releaseMut => simp [act, rBit] at hS hR hr ⊢; omega

theorem load_run : ∀ (steps : List (Nat × Act)) (s : Sys), load (run s steps) ≤ load s + steps.length
  | [], _ => by simp [run]
  | (i, a) :: rest, s => by
    have h1 := load_step s i a
    have h2 := load_run rest (s.step i a).1
    simp only [run, List.length_cons]
    omega

theorem load_init (n : Nat) : load (Sys.init n) = 0 := by
  have hs : sumShared (Sys.init n) = 0 := sum_map_replicate_zero _ _ rfl n
  have hr : numRollback (Sys.init n) = 0 := sum_map_replicate_zero _ _ rfl n
  simp [load, hs, hr]

/-- under the overflow bound the word fits the 64-bit `usize` of the real code -/
theorem word_lt_two_unique (s : Sys) (hinv : Inv s) (hb : Bounded s) : s.word < 2 * UNIQUE := by
  obtain ⟨m, hm, hw, _, _⟩ := invU_elim hinv
  unfold Bounded at hb
  omega

/-- under the overflow bound a shared attempt is refused only because of a unique holder -/
theorem uniq_of_word_ge (s : Sys) (hinv : Inv s) (hb : Bounded s) (hge : s.word ≥ UNIQUE) :
    numUniq s = 1 := nu_one_of_ge hinv.1 hinv.2.1 hb hge

/-- while a thread holds the unique borrow, no other thread holds anything -/
theorem uniq_excludes_other (s : Sys) (h : Inv s) (i j : Nat) (ti tj : Thread)
    (hi : s.threads[i]? = some ti) (hj : s.threads[j]? = some tj) (hne : i ≠ j)
    (hu : ti.uniq = true) : tj.uniq = false ∧ tj.shared = 0 := by
  obtain ⟨_, hle, hex⟩ := h
  have h2 := add_le_sum_map uBit s.threads i j ti tj hi hj hne
  have h1 := uBit_le s i ti hi
  have hs := shared_le s j tj hj
  unfold numUniq at hle hex
  unfold numUniq at h1
  simp only [uBit, hu, if_true] at h1 h2
  have hss := hex (by omega)
  constructor
  · cases htj : tj.uniq with
    | false => rfl
    | true => simp [htj] at h2; omega
  · omega

end Hecs.Borrow
