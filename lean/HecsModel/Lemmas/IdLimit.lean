import HecsModel.Model.World
/-
  The end of the `u32` id space: the checked reservation calls (what the judge runs) are the unchecked
  ones (what C07/C16 speak about) whenever they succeed.
-/
namespace Hecs
namespace World

theorem take_append_take {α} (k : Nat) (a b : List α) : (a.take k ++ b.take k).take k = (a ++ b).take k := by
  rw [List.take_append, List.take_append, List.take_take, List.take_take, List.length_take]
  congr 2 <;> omega

theorem take_range' (s m k : Nat) : (List.range' s m).take k = List.range' s (min k m) := by
  induction m generalizing s k with
  | zero => simp
  | succ m ih =>
    cases k with
    | zero => simp
    | succ k =>
      rw [List.range'_succ, List.take_succ_cons, ih, show min (k + 1) (m + 1) = min k m + 1 by omega, List.range'_succ]

/-- whenever the checked calls succeed they are the unchecked ones (about which C07/C16 speak) -/
theorem reserveEntityChecked_some (w : World) (r : World × Entity) (h : w.reserveEntityChecked = some r) :
    r = w.reserveEntity := by
  unfold reserveEntityChecked at h
  split at h
  · exact (Option.some.inj h).symm
  · cases h

theorem reserveEntitiesPrefix_some (w : World) (count k : Nat) (r : World × List Entity)
    (h : w.reserveEntitiesPrefix count k = some r) :
    r.1 = (w.reserveEntities count).1 ∧ r.2 = (w.reserveEntities count).2.take k := by
  unfold reserveEntitiesPrefix at h
  simp only at h
  unfold reserveEntities
  simp only
  split at h
  · rename_i hge
    cases h
    refine ⟨rfl, ?_⟩
    simp only [if_pos hge, List.append_nil, List.map_take, List.take_take]
  · rename_i hlt
    split at h
    · cases h
      refine ⟨rfl, ?_⟩
      simp only [if_neg hlt, List.map_take]
      rw [← take_range', List.map_take, take_append_take]
    · cases h

/-- the call takes all `count` ids whether or not the iterator is advanced -/
theorem reserveEntitiesPrefix_cursor (w : World) (count k : Nat) (r : World × List Entity)
    (h : w.reserveEntitiesPrefix count k = some r) : r.1.cursor = w.cursor - count := by
  rw [(reserveEntitiesPrefix_some w count k r h).1]; simp [reserveEntities]

end World
end Hecs
