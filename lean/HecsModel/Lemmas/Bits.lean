import HecsModel.Model.Bits
import HecsModel.Generated.Facts
/-
  C19 helper lemmas: the two halves of a handle survive packing; the generated (translated from
  entities.rs) expressions coincide with the hand model.
-/
namespace Hecs.Bits

theorem hi_part (id gen : BitVec 32) :
    ((gen.setWidth 64 <<< 32 ||| id.setWidth 64) >>> 32).setWidth 32 = gen := by
  ext i hi
  have h1 : 32 + i < 64 := by omega
  have h2 : ¬ (32 + i < 32) := by omega
  have h3 : i < 64 := by omega
  simp [h1, h2, h3, BitVec.getLsbD_eq_getElem hi]

theorem lo_part (id gen : BitVec 32) :
    (gen.setWidth 64 <<< 32 ||| id.setWidth 64).setWidth 32 = id := by
  ext i hi
  simp

theorem recombine (b : BitVec 64) :
    ((b >>> 32).setWidth 32).setWidth 64 <<< 32 ||| (b.setWidth 32).setWidth 64 = b := by
  ext i hi
  by_cases h : i < 32
  · simp [h, BitVec.getLsbD_eq_getElem hi]
  · have : 32 + (i - 32) = i := by omega
    have h4 : i - 32 < 32 := by omega
    simp [h, this, h4, BitVec.getLsbD_eq_getElem hi]

theorem hi_zero_iff (b : BitVec 64) : (b >>> 32).setWidth 32 = 0#32 ↔ b >>> 32 = 0#64 := by
  constructor
  · intro h
    ext i hi
    have := congrArg (fun v => v.getLsbD i) h
    by_cases h32 : i < 32
    · simpa [h32] using this
    · have h64 : 64 ≤ 32 + i := by omega
      simp [BitVec.getLsbD_of_ge b (32 + i) h64]
  · intro h
    simp [h]

end Hecs.Bits
