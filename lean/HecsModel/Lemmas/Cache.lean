import HecsModel.Model.Cache
import HecsModel.Lemmas.Ledger
/-
  C10.3: the memo tables are transparent.

  * `Ext w w'`: the archetype list only grows and type lists never change; every operation of the world
    model satisfies `Ext w (step w op).1` (no hypotheses);
  * `findArch` results are stable along `Ext`;
  * `CacheOk`: every table entry names the archetype `findArch` would find;
  * `cache_transparent`, `cacheOk_step`.
-/
namespace Hecs
namespace CacheLemmas
open World CanonLemmas

/-! ### archetypes are append-only with immutable type lists -/

structure Ext (w w' : World) : Prop where
  size : w.archs.size ≤ w'.archs.size
  types : ∀ j, j < w.archs.size → w'.typesOf j = w.typesOf j

theorem Ext.refl (w : World) : Ext w w := ⟨Nat.le_refl _, fun _ _ => rfl⟩

theorem Ext.trans {w1 w2 w3 : World} (h1 : Ext w1 w2) (h2 : Ext w2 w3) : Ext w1 w3 :=
  ⟨Nat.le_trans h1.size h2.size, fun j hj => by
    rw [h2.types j (Nat.lt_of_lt_of_le hj h1.size), h1.types j hj]⟩

theorem Ext.of_same {w w' : World} (hs : w'.archs.size = w.archs.size) (ht : ∀ b, w'.typesOf b = w.typesOf b) :
    Ext w w' := ⟨by omega, fun j _ => ht j⟩

theorem Ext.of_archs {w w' : World} (h : w'.archs = w.archs) : Ext w w' :=
  Ext.of_same (by rw [h]) (fun b => typesOf_of_archs h b)

theorem ext_modRows (w : World) (a : Nat) (g : Array Row → Array Row) : Ext w (w.modRows a g) :=
  Ext.of_same (by simp) (by simp)

theorem ext_removeRow (w : World) (a i : Nat) : Ext w (w.removeRow a i) :=
  Ext.of_same (by simp) (by simp)

theorem ext_place (w : World) (a id : Nat) (vals : List Comp) : Ext w (w.place a id vals) :=
  Ext.of_same (by simp) (by simp)

theorem ext_setRow (w : World) (a i : Nat) (r : Row) : Ext w (w.setRow a i r) := by
  rw [setRow_eq]; exact ext_modRows _ _ _

theorem ext_getArch (w : World) (ts : List Nat) : Ext w (w.getArch ts).1 :=
  ⟨getArch_size_le w ts, fun j hj => getArch_typesOf_old w ts j hj⟩

/-! ### flush -/

theorem ext_flushPending (ids : List Nat) (w : World) : Ext w (flushPending ids w) := by
  induction ids generalizing w with
  | nil => exact Ext.refl _
  | cons id ids ih =>
    show Ext w (flushPending ids (w.flushPendingOne id))
    rw [flushPendingOne_eq]
    exact (ext_place w 0 id []).trans (ih _)

theorem ext_flushFreshOne (w : World) : Ext w w.flushFreshOne := by
  rw [flushFreshOne_eq]
  exact (ext_modRows w 0 (fun rows => rows.push ⟨w.metas.size, []⟩)).trans (Ext.of_archs rfl)

theorem ext_flushFresh (n : Nat) (w : World) : Ext w (flushFresh n w) := by
  induction n generalizing w with
  | zero => exact Ext.refl _
  | succ n ih =>
    show Ext w (flushFresh n w.flushFreshOne)
    exact (ext_flushFreshOne w).trans (ih _)

theorem ext_flushTail (w : World) (c : Nat) : Ext w (flushTail w c) := by
  simp only [flushTail]
  exact (ext_flushPending _ w).trans (Ext.of_archs rfl)

theorem ext_flush (w : World) : Ext w w.flush := by
  rw [flush_eq]
  split
  · exact ext_flushTail _ _
  · refine Ext.trans ?_ (ext_flushTail _ _)
    exact (ext_flushFresh _ w).trans (Ext.of_archs rfl)

/-! ### the operations -/

theorem ext_alloc (w : World) : Ext w (w.alloc).1 := Ext.of_archs (alloc_archs w)

theorem ext_allocAt (w : World) (e : Entity) : Ext w (w.allocAt e).1 := Ext.of_archs (Ledger.allocAt_archs w e)

theorem ext_evict (w : World) (old : Option (Nat × Nat)) : Ext w (w.evict old).1 := by
  cases old with
  | none => exact Ext.refl _
  | some l => obtain ⟨a, i⟩ := l; rw [evict_some]; exact ext_removeRow _ _ _

theorem spawnInnerWith_eq (w1 : World) (a : Nat) (e : Entity) (b : List Comp) :
    w1.spawnInnerWith a e b = w1.place a e.id (canon b) := rfl

theorem spawnInner_eq_with (w : World) (e : Entity) (b : List Comp) :
    w.spawnInner e b
      = (w.getArch ((canon b).map (·.1))).1.spawnInnerWith (w.getArch ((canon b).map (·.1))).2 e b := rfl

theorem ext_spawnInnerWith (w1 : World) (a : Nat) (e : Entity) (b : List Comp) :
    Ext w1 (w1.spawnInnerWith a e b) := by
  rw [spawnInnerWith_eq]; exact ext_place _ _ _ _

theorem ext_spawnInner (w : World) (e : Entity) (b : List Comp) : Ext w (w.spawnInner e b) := by
  rw [spawnInner_eq_with]; exact (ext_getArch _ _).trans (ext_spawnInnerWith _ _ _ _)

theorem ext_spawn (w : World) (b : List Comp) : Ext w (w.spawn b).1 :=
  ((ext_flush w).trans (ext_alloc _)).trans (ext_spawnInner _ _ _)

theorem ext_spawnAt (w : World) (h : Entity) (b : List Comp) : Ext w (w.spawnAt h b).1 :=
  (((ext_flush w).trans (ext_allocAt _ h)).trans (ext_evict _ _)).trans (ext_spawnInner _ _ _)

theorem ext_reserve (w : World) (ts : List Nat) : Ext w (w.reserve ts).1 :=
  (ext_flush w).trans (ext_getArch _ _)

theorem ext_spawnBatchRows (a : Nat) (rows : List (List Comp)) (w : World) (acc : List Entity) :
    Ext w (spawnBatchRows a rows w acc).1 := by
  induction rows generalizing w acc with
  | nil => exact Ext.refl _
  | cons b bs ih =>
    have e1 : spawnBatchRows a (b :: bs) w acc
        = spawnBatchRows a bs ((w.alloc).1.place a (w.alloc).2.id (canon b)) ((w.alloc).2 :: acc) := rfl
    rw [e1]
    exact ((ext_alloc w).trans (ext_place _ _ _ _)).trans (ih _ _)

theorem ext_spawnBatch (w : World) (ts : List Nat) (rows : List (List Comp)) : Ext w (w.spawnBatch ts rows).1 :=
  (ext_reserve w ts).trans (ext_spawnBatchRows _ _ _ _)

theorem ext_insertBatch (w : World) (ts : List Nat) (rows : List (List Comp)) :
    Ext w (w.insertBatch ts rows).1 := by
  rw [insertBatch_eq]
  show Ext w ((w.getArch ts).1.modRows (w.getArch ts).2 (fun r => r ++ batchRows rows))
  exact (ext_getArch w ts).trans (ext_modRows _ _ _)

theorem ext_assignRows (a : Nat) (ids : List Nat) (k : Nat) (w : World) : Ext w (assignRows a ids k w) := by
  induction ids generalizing k w with
  | nil => exact Ext.refl _
  | cons id ids ih =>
    show Ext w (assignRows a ids (k + 1) ((w.setRowId a k id).setLoc id (some (a, k))))
    refine Ext.trans ?_ (ih _ _)
    exact (ext_modRows w a (fun rows => rows.modify k (fun r => { r with id := id }))).trans (Ext.of_archs rfl)

theorem ext_spawnColumnBatch (w : World) (ts : List Nat) (rows : List (List Comp)) :
    Ext w (w.spawnColumnBatch ts rows).1 := by
  unfold spawnColumnBatch
  simp only
  generalize hib : w.flush.insertBatch ts rows = ib
  have h1 : Ext w ib.1 := hib ▸ (ext_flush w).trans (ext_insertBatch w.flush ts rows)
  obtain ⟨w1, a, base⟩ := ib
  simp only at h1 ⊢
  refine h1.trans ?_
  refine Ext.trans (w2 := assignRows a _ base _) ?_ (Ext.of_archs rfl)
  refine Ext.trans ?_ (ext_assignRows _ _ _ _)
  exact Ext.of_archs rfl

theorem ext_allocAtAll (hs : List Entity) (w : World) (d : List Comp) : Ext w (allocAtAll hs w d).1 := by
  induction hs generalizing w d with
  | nil => exact Ext.refl _
  | cons e es ih =>
    have e1 : allocAtAll (e :: es) w d
        = allocAtAll es ((w.allocAt e).1.evict (w.allocAt e).2).1
            (d ++ ((w.allocAt e).1.evict (w.allocAt e).2).2) := rfl
    rw [e1]
    exact ((ext_allocAt w e).trans (ext_evict _ _)).trans (ih _ _)

theorem ext_spawnColumnBatchAt (w : World) (hs : List Entity) (ts : List Nat) (rows : List (List Comp)) :
    Ext w (w.spawnColumnBatchAt hs ts rows).1 := by
  unfold spawnColumnBatchAt
  split
  · exact Ext.refl _
  · simp only
    exact (((ext_flush w).trans (ext_allocAtAll _ _ _)).trans (ext_insertBatch _ _ _)).trans
      (ext_assignRows _ _ _ _)

theorem insertInnerWith_eq (w1 : World) (tgt : Nat) (e : Entity) (b : List Comp) (src : List Nat) (a i : Nat) :
    w1.insertInnerWith tgt e b src a i =
      let bt := b.map (·.1)
      let row := ((w1.rowAt a i)).getD ⟨e.id, []⟩
      let dropped := row.vals.filter (fun c => src.contains c.1 && bt.contains c.1)
      if tgt = a then
        (w1.setRow a i { row with vals := b.foldl (fun vs c => putComp c vs) row.vals }, dropped)
      else
        ((w1.place tgt e.id (canon (b ++ row.vals.filter (fun c => src.contains c.1 && !bt.contains c.1)))).removeRow a i,
          dropped) := rfl

theorem insertInner_eq_with (w : World) (e : Entity) (b : List Comp) (origin a i : Nat) :
    w.insertInner e b origin a i =
      (w.getArch (sortNat (w.typesOf origin ++ (b.map (·.1)).filter (fun t => !(w.typesOf origin).contains t)))).1.insertInnerWith
        (w.getArch (sortNat (w.typesOf origin ++ (b.map (·.1)).filter (fun t => !(w.typesOf origin).contains t)))).2
        e b (w.typesOf origin) a i := rfl

theorem ext_insertInnerWith (w1 : World) (tgt : Nat) (e : Entity) (b : List Comp) (src : List Nat) (a i : Nat) :
    Ext w1 (w1.insertInnerWith tgt e b src a i).1 := by
  rw [insertInnerWith_eq]
  simp only
  split
  · exact ext_setRow _ _ _ _
  · exact (ext_place _ _ _ _).trans (ext_removeRow _ _ _)

theorem ext_insertInner (w : World) (e : Entity) (b : List Comp) (origin a i : Nat) :
    Ext w (w.insertInner e b origin a i).1 := by
  rw [insertInner_eq_with]; exact (ext_getArch _ _).trans (ext_insertInnerWith _ _ _ _ _ _ _)

theorem ext_insert (w : World) (e : Entity) (b : List Comp) : Ext w (w.insert e b).1 := by
  unfold World.insert
  simp only
  split
  · exact (ext_flush w).trans (ext_insertInner _ _ _ _ _ _)
  · exact ext_flush w

theorem removeWith_eq (w1 : World) (tgt : Nat) (e : Entity) (ts : List Nat) (a i : Nat) (row : Row)
    (got : List Comp) :
    w1.removeWith tgt e ts a i row got =
      if tgt = a then (w1, { res := .vals got })
      else ((w1.place tgt e.id (row.vals.filter (fun c => !ts.contains c.1))).removeRow a i, { res := .vals got }) :=
  rfl

theorem ext_removeWith (w1 : World) (tgt : Nat) (e : Entity) (ts : List Nat) (a i : Nat) (row : Row)
    (got : List Comp) : Ext w1 (w1.removeWith tgt e ts a i row got).1 := by
  rw [removeWith_eq]
  split
  · exact Ext.refl _
  · exact (ext_place _ _ _ _).trans (ext_removeRow _ _ _)

/-- `remove` in terms of `removeWith` -/
theorem remove_eq_with (w : World) (e : Entity) (ts : List Nat) :
    w.remove e ts =
      match w.flush.getMut e with
      | none => (w.flush, { res := .nosuch })
      | some (a, i) =>
        match bundleGet (((w.flush.rowAt a i)).getD ⟨e.id, []⟩).vals ts with
        | none => (w.flush, { res := .missing })
        | some got =>
          (w.flush.getArch ((w.flush.typesOf a).filter (fun t => !ts.contains t))).1.removeWith
            (w.flush.getArch ((w.flush.typesOf a).filter (fun t => !ts.contains t))).2 e ts a i
            (((w.flush.rowAt a i)).getD ⟨e.id, []⟩) got := rfl

theorem ext_remove (w : World) (e : Entity) (ts : List Nat) : Ext w (w.remove e ts).1 := by
  rw [remove_eq_with]
  split
  · exact ext_flush w
  · split
    · exact ext_flush w
    · exact ((ext_flush w).trans (ext_getArch _ _)).trans (ext_removeWith _ _ _ _ _ _ _ _)

theorem ext_exchange (w : World) (e : Entity) (ts : List Nat) (b : List Comp) : Ext w (w.exchange e ts b).1 := by
  unfold World.exchange
  simp only
  split
  · split
    · exact ext_flush w
    · exact ((ext_flush w).trans (ext_getArch _ _)).trans (ext_insertInner _ _ _ _ _ _)
  · exact ext_flush w

theorem ext_despawn (w : World) (e : Entity) : Ext w (w.despawn e).1 := by
  unfold despawn
  simp only
  split
  · exact ext_flush w
  · rename_i w1 a i hfree
    exact ((ext_flush w).trans (Ext.of_archs (Ledger.free_archs hfree))).trans (ext_removeRow _ _ _)

theorem ext_take (w : World) (e : Entity) : Ext w (w.take e).1 := by
  unfold take
  simp only
  split
  · split
    · rename_i w2 l hfree
      exact ((ext_flush w).trans (ext_removeRow _ _ _)).trans (Ext.of_archs (Ledger.free_archs hfree))
    · exact (ext_flush w).trans (ext_removeRow _ _ _)
  · exact ext_flush w

theorem ext_clear (w : World) : Ext w (w.clear).1 := by
  apply Ext.of_same
  · simp [clear]
  · intro b; simp only [clear, typesOf, Array.getElem?_map]
    cases w.archs[b]? <;> simp

/-- every operation only appends archetypes and never changes a type list -/
theorem ext_step (w : World) (op : Op) : Ext w (step w op).1 := by
  cases op with
  | spawn b => exact ext_spawn w b
  | spawnAt h b => exact ext_spawnAt w h b
  | spawnBatch ts rows => exact ext_spawnBatch w ts rows
  | spawnColumnBatch ts rows => exact ext_spawnColumnBatch w ts rows
  | spawnColumnBatchAt hs ts rows => exact ext_spawnColumnBatchAt w hs ts rows
  | insert e b => exact ext_insert w e b
  | remove e ts => exact ext_remove w e ts
  | exchange e ts b => exact ext_exchange w e ts b
  | despawn e => exact ext_despawn w e
  | takeDrop e =>
    have := ext_take w e
    show Ext w (match w.take e with
      | (w', some d) => (w', ({ res := .ok, dropped := d } : Out))
      | (w', none) => (w', { res := .nosuch })).1
    generalize w.take e = t at *
    obtain ⟨w', _ | d⟩ := t <;> exact this
  | clear => exact ext_clear w
  | flush => exact ext_flush w
  | reserve ts => exact ext_reserve w ts
  | reserveEntity =>
    apply Ext.of_archs
    show (w.reserveEntity).1.archs = _
    unfold reserveEntity; simp only; split <;> rfl
  | reserveEntities n => exact Ext.of_archs rfl

/-! ### `findArch` is stable -/

theorem findArch_iff (w : World) (ts : List Nat) (a : Nat) :
    findArch w.archs ts = some a ↔
      a < w.archs.size ∧ w.typesOf a = ts ∧ ∀ j, j < a → w.typesOf j ≠ ts := by
  unfold findArch
  rw [Array.findIdx?_eq_some_iff_getElem]
  constructor
  · rintro ⟨h, hp, hlt⟩
    refine ⟨h, ?_, ?_⟩
    · rw [typesOf_of_get (get_of_lt h)]; simpa using hp
    · intro j hj
      have hj' : j < w.archs.size := by omega
      rw [typesOf_of_get (get_of_lt hj')]; simpa using hlt j hj
  · rintro ⟨h, hp, hlt⟩
    refine ⟨h, ?_, ?_⟩
    · rw [typesOf_of_get (get_of_lt h)] at hp; simpa using hp
    · intro j hj
      have hj' : j < w.archs.size := by omega
      have := hlt j hj
      rw [typesOf_of_get (get_of_lt hj')] at this; simpa using this

/-- the index `findArch` returns for a type list never changes once it exists -/
theorem findArch_ext {w w' : World} (h : Ext w w') {ts : List Nat} {a : Nat}
    (hf : findArch w.archs ts = some a) : findArch w'.archs ts = some a := by
  rw [findArch_iff] at hf ⊢
  obtain ⟨h1, h2, h3⟩ := hf
  have := h.size
  exact ⟨by omega, by rw [h.types a h1]; exact h2, fun j hj => by rw [h.types j (by omega)]; exact h3 j hj⟩

theorem ext_push (w : World) (x : Arch) : Ext w { w with archs := w.archs.push x } :=
  ⟨by simp, fun j hj => by simp [typesOf, Array.getElem?_push, Nat.ne_of_lt hj]⟩

/-- appending an archetype does not change the result of a successful search -/
theorem findArch_push (archs : Array Arch) (x : Arch) {ts : List Nat} {a : Nat}
    (hf : findArch archs ts = some a) : findArch (archs.push x) ts = some a :=
  findArch_ext (ext_push ⟨#[], #[], 0, 0, archs⟩ x) hf

/-- modifying rows does not change the result of a search -/
theorem findArch_modRows (w : World) (a : Nat) (g : Array Row → Array Row) {ts : List Nat} {i : Nat}
    (hf : findArch w.archs ts = some i) : findArch (w.modRows a g).archs ts = some i :=
  findArch_ext (ext_modRows w a g) hf

theorem getArch_hit {w : World} {ts : List Nat} {a : Nat} (h : findArch w.archs ts = some a) :
    w.getArch ts = (w, a) := by
  unfold getArch; rw [h]

/-- after `getArch`, searching for the same type list finds the returned index -/
theorem getArch_findArch (w : World) (ts : List Nat) :
    findArch (w.getArch ts).1.archs ts = some (w.getArch ts).2 := by
  cases hf : findArch w.archs ts with
  | some i => rw [getArch_hit hf]; exact hf
  | none =>
    rw [findArch_iff]
    refine ⟨getArch_lt w ts, getArch_typesOf_self w ts, ?_⟩
    have e2 : (w.getArch ts).2 = w.archs.size := by unfold getArch; rw [hf]
    intro j hj
    rw [e2] at hj
    rw [getArch_typesOf_old w ts j hj, typesOf_of_get (get_of_lt hj)]
    exact findArch_none hf j _ (get_of_lt hj)

theorem lookup_mem {α β} [BEq α] [LawfulBEq α] {l : List (α × β)} {k : α} {v : β}
    (h : l.lookup k = some v) : (k, v) ∈ l := by
  induction l with
  | nil => cases h
  | cons p ps ih =>
    obtain ⟨k', v'⟩ := p
    rw [List.lookup_cons] at h
    split at h
    · rename_i hk
      have : k = k' := by simpa using hk
      subst this
      simp only [Option.some.injEq] at h; subst h; simp
    · exact List.mem_cons_of_mem _ (ih h)

/-! ### soundness of the tables -/

/-- every table entry names the archetype the search would find -/
structure CacheOk (c : Cached) : Prop where
  bundle : ∀ k a, (k, a) ∈ c.bundleToArch → findArch c.w.archs (sortNat k) = some a
  insert : ∀ o k t, ((o, k), t) ∈ c.insertEdges → o < c.w.archs.size ∧
    findArch c.w.archs (sortNat (c.w.typesOf o ++ k.filter (fun t => !(c.w.typesOf o).contains t))) = some t
  remove : ∀ o k t, ((o, k), t) ∈ c.removeEdges → o < c.w.archs.size ∧
    findArch c.w.archs ((c.w.typesOf o).filter (fun t => !k.contains t)) = some t

theorem cacheOk_new : CacheOk Cached.new :=
  ⟨(by intro k a h; cases h), (by intro o k t h; cases h), (by intro o k t h; cases h)⟩

/-- the tables stay sound when the world only appends archetypes -/
theorem CacheOk.ext {c : Cached} (hok : CacheOk c) {w' : World} (h : Ext c.w w') :
    CacheOk { c with w := w' } := by
  refine ⟨?_, ?_, ?_⟩
  · intro k a hm; exact findArch_ext h (hok.bundle k a hm)
  · intro o k t hm
    obtain ⟨h1, h2⟩ := hok.insert o k t hm
    have := h.size
    refine ⟨by show o < w'.archs.size; omega, ?_⟩
    show findArch w'.archs (sortNat (w'.typesOf o ++ k.filter (fun t => !(w'.typesOf o).contains t))) = some t
    rw [h.types o h1]; exact findArch_ext h h2
  · intro o k t hm
    obtain ⟨h1, h2⟩ := hok.remove o k t hm
    have := h.size
    refine ⟨by show o < w'.archs.size; omega, ?_⟩
    show findArch w'.archs ((w'.typesOf o).filter (fun t => !k.contains t)) = some t
    rw [h.types o h1]; exact findArch_ext h h2

/-! ### the three lookups -/

theorem bundleArch_spec (c : Cached) (key : Option (List Nat)) (ts : List Nat) (hok : CacheOk c)
    (hkey : ∀ k, key = some k → sortNat k = ts) :
    (c.bundleArch key ts).1.w = (c.w.getArch ts).1 ∧ (c.bundleArch key ts).2 = (c.w.getArch ts).2 ∧
    CacheOk (c.bundleArch key ts).1 := by
  cases key with
  | none => exact ⟨rfl, rfl, hok.ext (ext_getArch _ _)⟩
  | some k =>
    have hk := hkey k rfl
    cases hl : c.bundleToArch.lookup k with
    | some a =>
      have hf := hok.bundle k a (lookup_mem hl)
      rw [hk] at hf
      simp only [Cached.bundleArch, hl, getArch_hit hf]
      exact ⟨by trivial, by trivial, hok⟩
    | none =>
      simp only [Cached.bundleArch, hl]
      refine ⟨by trivial, by trivial, ?_⟩
      have hok' := hok.ext (ext_getArch c.w ts)
      refine ⟨?_, hok'.insert, hok'.remove⟩
      intro k' a' hm
      rcases List.mem_cons.1 hm with e | hm
      · cases e
        show findArch (c.w.getArch ts).1.archs (sortNat k) = some (c.w.getArch ts).2
        rw [hk]; exact getArch_findArch _ _
      · exact hok'.bundle k' a' hm

theorem insertTarget_spec (c : Cached) (key : Option (List Nat)) (origin : Nat) (bt : List Nat)
    (hok : CacheOk c) (ho : origin < c.w.archs.size) (hkey : ∀ k, key = some k → k = bt) :
    (c.insertTarget key origin
        (sortNat (c.w.typesOf origin ++ bt.filter (fun t => !(c.w.typesOf origin).contains t)))).1.w
      = (c.w.getArch (sortNat (c.w.typesOf origin ++ bt.filter (fun t => !(c.w.typesOf origin).contains t)))).1 ∧
    (c.insertTarget key origin
        (sortNat (c.w.typesOf origin ++ bt.filter (fun t => !(c.w.typesOf origin).contains t)))).2
      = (c.w.getArch (sortNat (c.w.typesOf origin ++ bt.filter (fun t => !(c.w.typesOf origin).contains t)))).2 ∧
    CacheOk (c.insertTarget key origin
        (sortNat (c.w.typesOf origin ++ bt.filter (fun t => !(c.w.typesOf origin).contains t)))).1 := by
  generalize hinfo : sortNat (c.w.typesOf origin ++ bt.filter (fun t => !(c.w.typesOf origin).contains t)) = info
  cases key with
  | none => exact ⟨rfl, rfl, hok.ext (ext_getArch _ _)⟩
  | some k =>
    have hk := hkey k rfl
    subst hk
    cases hl : c.insertEdges.lookup (origin, k) with
    | some t =>
      have hf := (hok.insert origin k t (lookup_mem hl)).2
      rw [hinfo] at hf
      simp only [Cached.insertTarget, hl, getArch_hit hf]
      exact ⟨by trivial, by trivial, hok⟩
    | none =>
      simp only [Cached.insertTarget, hl]
      refine ⟨by trivial, by trivial, ?_⟩
      have hext := ext_getArch c.w info
      have hok' := hok.ext hext
      refine ⟨hok'.bundle, ?_, hok'.remove⟩
      intro o' k' t' hm
      rcases List.mem_cons.1 hm with e | hm
      · cases e
        refine ⟨Nat.lt_of_lt_of_le ho hext.size, ?_⟩
        show findArch (c.w.getArch info).1.archs
          (sortNat ((c.w.getArch info).1.typesOf origin ++
            k.filter (fun t => !((c.w.getArch info).1.typesOf origin).contains t))) = some (c.w.getArch info).2
        rw [hext.types origin ho, hinfo]; exact getArch_findArch _ _
      · exact hok'.insert o' k' t' hm

theorem removeTarget_spec (c : Cached) (old : Nat) (k : List Nat) (hok : CacheOk c)
    (ho : old < c.w.archs.size) :
    (c.removeTarget old k).1.w = (c.w.getArch ((c.w.typesOf old).filter (fun t => !k.contains t))).1 ∧
    (c.removeTarget old k).2 = (c.w.getArch ((c.w.typesOf old).filter (fun t => !k.contains t))).2 ∧
    CacheOk (c.removeTarget old k).1 := by
  cases hl : c.removeEdges.lookup (old, k) with
  | some t =>
    have hf := (hok.remove old k t (lookup_mem hl)).2
    simp only [Cached.removeTarget, hl, getArch_hit hf]
    exact ⟨by trivial, by trivial, hok⟩
  | none =>
    simp only [Cached.removeTarget, hl]
    refine ⟨by trivial, by trivial, ?_⟩
    have hext := ext_getArch c.w ((c.w.typesOf old).filter (fun t => !k.contains t))
    have hok' := hok.ext hext
    refine ⟨hok'.bundle, hok'.insert, ?_⟩
    intro o' k' t' hm
    rcases List.mem_cons.1 hm with e | hm
    · cases e
      refine ⟨Nat.lt_of_lt_of_le ho hext.size, ?_⟩
      show findArch (c.w.getArch ((c.w.typesOf old).filter (fun t => !k.contains t))).1.archs
        (((c.w.getArch ((c.w.typesOf old).filter (fun t => !k.contains t))).1.typesOf old).filter
          (fun t => !k.contains t)) = some (c.w.getArch ((c.w.typesOf old).filter (fun t => !k.contains t))).2
      rw [hext.types old ho]; exact getArch_findArch _ _
    · exact hok'.remove o' k' t' hm

/-! ### the cached operations -/

theorem spawnInner_spec (c : Cached) (key : Option (List Nat)) (e : Entity) (b : List Comp) (hok : CacheOk c)
    (hkey : ∀ k, key = some k → k = b.map (·.1)) :
    (c.spawnInner key e b).w = c.w.spawnInner e b ∧ CacheOk (c.spawnInner key e b) := by
  obtain ⟨h1, h2, h3⟩ := bundleArch_spec c key ((canon b).map (·.1)) hok
    (by intro k hk; rw [hkey k hk, canon_map])
  constructor
  · show (c.bundleArch key ((canon b).map (·.1))).1.w.spawnInnerWith
      (c.bundleArch key ((canon b).map (·.1))).2 e b = _
    rw [h1, h2, spawnInner_eq_with]
  · exact h3.ext (ext_spawnInnerWith _ _ _ _)

theorem spawn_spec (c : Cached) (key : Option (List Nat)) (b : List Comp) (hok : CacheOk c)
    (hkey : ∀ k, key = some k → k = b.map (·.1)) :
    (c.spawn key b).1.w = (c.w.spawn b).1 ∧ (c.spawn key b).2 = (c.w.spawn b).2 ∧ CacheOk (c.spawn key b).1 := by
  have hok1 : CacheOk ({ c with w := (c.w.flush.alloc).1 } : Cached) :=
    hok.ext ((ext_flush _).trans (ext_alloc _))
  obtain ⟨h1, h2⟩ := spawnInner_spec _ key (c.w.flush.alloc).2 b hok1 hkey
  exact ⟨h1, rfl, h2⟩

theorem spawnAt_spec (c : Cached) (key : Option (List Nat)) (h : Entity) (b : List Comp) (hok : CacheOk c)
    (hkey : ∀ k, key = some k → k = b.map (·.1)) :
    (c.spawnAt key h b).1.w = (c.w.spawnAt h b).1 ∧ (c.spawnAt key h b).2 = (c.w.spawnAt h b).2 ∧
    CacheOk (c.spawnAt key h b).1 := by
  have hok1 : CacheOk ({ c with w := ((c.w.flush.allocAt h).1.evict (c.w.flush.allocAt h).2).1 } : Cached) :=
    hok.ext (((ext_flush _).trans (ext_allocAt _ _)).trans (ext_evict _ _))
  obtain ⟨h1, h2⟩ := spawnInner_spec _ key h b hok1 hkey
  exact ⟨h1, rfl, h2⟩

theorem reserve_spec (c : Cached) (ts : List Nat) (hok : CacheOk c) :
    (c.reserve ts).1.w = (c.w.reserve ts).1 ∧ (c.reserve ts).2 = (c.w.reserve ts).2 ∧
    CacheOk (c.reserve ts).1 := by
  have hok0 : CacheOk ({ c with w := c.w.flush } : Cached) := hok.ext (ext_flush _)
  exact bundleArch_spec _ (some ts) (sortNat ts) hok0 (by intro k hk; cases hk; rfl)

theorem spawnBatch_spec (c : Cached) (ts : List Nat) (rows : List (List Comp)) (hok : CacheOk c) :
    (c.spawnBatch ts rows).1.w = (c.w.spawnBatch ts rows).1 ∧
    (c.spawnBatch ts rows).2 = (c.w.spawnBatch ts rows).2 ∧ CacheOk (c.spawnBatch ts rows).1 := by
  obtain ⟨h1, h2, h3⟩ := reserve_spec c ts hok
  have e1 : (c.spawnBatch ts rows).1.w = (spawnBatchRows (c.reserve ts).2 rows (c.reserve ts).1.w []).1 := rfl
  have e2 : (c.spawnBatch ts rows).2
      = { res := .ents (spawnBatchRows (c.reserve ts).2 rows (c.reserve ts).1.w []).2 } := rfl
  refine ⟨?_, ?_, ?_⟩
  · rw [e1, h1, h2]; rfl
  · rw [e2, h1, h2]; rfl
  · exact h3.ext (ext_spawnBatchRows _ _ _ _)

theorem insertInner_spec (c : Cached) (key : Option (List Nat)) (e : Entity) (b : List Comp)
    (origin a i : Nat) (hok : CacheOk c) (ho : origin < c.w.archs.size)
    (hkey : ∀ k, key = some k → k = b.map (·.1)) :
    (c.insertInner key e b origin a i).1.w = (c.w.insertInner e b origin a i).1 ∧
    (c.insertInner key e b origin a i).2 = (c.w.insertInner e b origin a i).2 ∧
    CacheOk (c.insertInner key e b origin a i).1 := by
  obtain ⟨h1, h2, h3⟩ := insertTarget_spec c key origin (b.map (·.1)) hok ho hkey
  unfold Cached.insertInner
  simp only
  rw [insertInner_eq_with, h1, h2]
  exact ⟨rfl, rfl, h3.ext (h1 ▸ h2 ▸ ext_insertInnerWith _ _ _ _ _ _ _)⟩

theorem insert_spec (c : Cached) (key : Option (List Nat)) (e : Entity) (b : List Comp) (hok : CacheOk c)
    (hi : c.w.Inv) (hkey : ∀ k, key = some k → k = b.map (·.1)) :
    (c.insert key e b).1.w = (c.w.insert e b).1 ∧ (c.insert key e b).2 = (c.w.insert e b).2 ∧
    CacheOk (c.insert key e b).1 := by
  have hf := flush_flushed' c.w ((inv_iff_good _).1 hi)
  have hok0 : CacheOk ({ c with w := c.w.flush } : Cached) := hok.ext (ext_flush _)
  unfold Cached.insert World.insert
  simp only
  split
  · rename_i a i hget
    have ha : a < c.w.flush.archs.size := by
      obtain ⟨r0, hr0, _⟩ := hf.good.bij.loc_row _ _ _ (locOf_of_get hget)
      exact lt_of_row hr0
    obtain ⟨h1, h2, h3⟩ := insertInner_spec ({ c with w := c.w.flush }) key e b a a i hok0 ha hkey
    simp only [hget]
    refine ⟨h1, ?_, h3⟩
    rw [h2]
  · rename_i hne
    split
    · rename_i a i hget; exact absurd hget (hne a i)
    · exact ⟨by trivial, by trivial, hok0⟩

theorem remove_spec (c : Cached) (e : Entity) (ts : List Nat) (hok : CacheOk c) (hi : c.w.Inv) :
    (c.remove e ts).1.w = (c.w.remove e ts).1 ∧ (c.remove e ts).2 = (c.w.remove e ts).2 ∧
    CacheOk (c.remove e ts).1 := by
  have hf := flush_flushed' c.w ((inv_iff_good _).1 hi)
  have hok0 : CacheOk ({ c with w := c.w.flush } : Cached) := hok.ext (ext_flush _)
  rw [remove_eq_with]
  unfold Cached.remove
  simp only
  split
  · rename_i hget
    simp only [hget]
    exact ⟨by trivial, by trivial, hok0⟩
  · rename_i a i hget
    have ha : a < c.w.flush.archs.size := by
      obtain ⟨r0, hr0, _⟩ := hf.good.bij.loc_row _ _ _ (locOf_of_getMut hget)
      exact lt_of_row hr0
    simp only [hget]
    split
    · rename_i hgot
      simp only [hgot]
      exact ⟨by trivial, by trivial, hok0⟩
    · rename_i got hgot
      simp only [hgot]
      obtain ⟨h1, h2, h3⟩ := removeTarget_spec ({ c with w := c.w.flush }) a ts hok0 ha
      simp only at h1 h2
      rw [h1, h2]
      exact ⟨rfl, rfl, h3.ext (h1 ▸ h2 ▸ ext_removeWith _ _ _ _ _ _ _ _)⟩

theorem exchange_spec (c : Cached) (key : Option (List Nat)) (e : Entity) (ts : List Nat) (b : List Comp)
    (hok : CacheOk c) (hi : c.w.Inv) (hkey : ∀ k, key = some k → k = b.map (·.1)) :
    (c.exchange key e ts b).1.w = (c.w.exchange e ts b).1 ∧ (c.exchange key e ts b).2 = (c.w.exchange e ts b).2 ∧
    CacheOk (c.exchange key e ts b).1 := by
  have hf := flush_flushed' c.w ((inv_iff_good _).1 hi)
  have hok0 : CacheOk ({ c with w := c.w.flush } : Cached) := hok.ext (ext_flush _)
  unfold Cached.exchange World.exchange
  simp only
  split
  · rename_i a i hget
    have ha : a < c.w.flush.archs.size := by
      obtain ⟨r0, hr0, _⟩ := hf.good.bij.loc_row _ _ _ (locOf_of_get hget)
      exact lt_of_row hr0
    simp only [hget]
    split
    · rename_i hgot
      simp only [hgot]
      exact ⟨by trivial, by trivial, hok0⟩
    · rename_i got hgot
      simp only [hgot]
      obtain ⟨h1, h2, h3⟩ := removeTarget_spec ({ c with w := c.w.flush }) a ts hok0 ha
      simp only at h1 h2
      have hmid : (({ c with w := c.w.flush } : Cached).removeTarget a ts).2
          < (({ c with w := c.w.flush } : Cached).removeTarget a ts).1.w.archs.size := by
        rw [h1, h2]; exact getArch_lt _ _
      obtain ⟨j1, j2, j3⟩ := insertInner_spec _ key e b _ a i h3 hmid hkey
      rw [← h1, ← h2]
      exact ⟨j1, by rw [j2], j3⟩
  · rename_i hne
    split
    · rename_i a i hget; exact absurd hget (hne a i)
    · exact ⟨by trivial, by trivial, hok0⟩

/-! ### C10.3 -/

/-- one cached step: same world, same output, tables still sound -/
theorem cache_step (c : Cached) (op : Op) (key : Option (List Nat)) (hok : CacheOk c) (hi : c.w.Inv)
    (hk : op.KeyOk key) :
    (cachedStep c op key).1.w = (step c.w op).1 ∧ (cachedStep c op key).2 = (step c.w op).2 ∧
    CacheOk (cachedStep c op key).1 := by
  cases op with
  | spawn b => exact spawn_spec c key b hok (fun k hk' => by subst hk'; exact hk)
  | spawnAt h b => exact spawnAt_spec c key h b hok (fun k hk' => by subst hk'; exact hk)
  | spawnBatch ts rows => exact spawnBatch_spec c ts rows hok
  | spawnColumnBatch ts rows => exact ⟨rfl, rfl, hok.ext (ext_step _ _)⟩
  | spawnColumnBatchAt hs ts rows => exact ⟨rfl, rfl, hok.ext (ext_step _ _)⟩
  | insert e b => exact insert_spec c key e b hok hi (fun k hk' => by subst hk'; exact hk)
  | remove e ts => exact remove_spec c e ts hok hi
  | exchange e ts b => exact exchange_spec c key e ts b hok hi (fun k hk' => by subst hk'; exact hk)
  | despawn e => exact ⟨rfl, rfl, hok.ext (ext_step _ _)⟩
  | takeDrop e => exact ⟨rfl, rfl, hok.ext (ext_step _ _)⟩
  | clear => exact ⟨rfl, rfl, hok.ext (ext_step _ _)⟩
  | flush => exact ⟨rfl, rfl, hok.ext (ext_step _ _)⟩
  | reserve ts =>
    obtain ⟨h1, _, h3⟩ := reserve_spec c ts hok
    exact ⟨h1, rfl, h3⟩
  | reserveEntity => exact ⟨rfl, rfl, hok.ext (ext_step _ _)⟩
  | reserveEntities n => exact ⟨rfl, rfl, hok.ext (ext_step _ _)⟩

/-- C10.3: the result never depends on which transitions the world has performed or cached before -/
theorem cache_transparent (c : Cached) (op : Op) (key : Option (List Nat)) (hok : CacheOk c) (hi : c.w.Inv)
    (hk : op.KeyOk key) :
    (cachedStep c op key).1.w = (step c.w op).1 ∧ (cachedStep c op key).2 = (step c.w op).2 :=
  ⟨(cache_step c op key hok hi hk).1, (cache_step c op key hok hi hk).2.1⟩

theorem cacheOk_step (c : Cached) (op : Op) (key : Option (List Nat)) (hok : CacheOk c) (hi : c.w.Inv)
    (hk : op.KeyOk key) : CacheOk (cachedStep c op key).1 :=
  (cache_step c op key hok hi hk).2.2

/-- whole histories: a world with memo tables computes the same world as one without -/
theorem cachedRun_spec (ops : List (Op × Option (List Nat)))
    (hops : ∀ p, p ∈ ops → p.1.WF ∧ p.1.KeyOk p.2) :
    (cachedRun ops).w = run (ops.map (·.1)) ∧ CacheOk (cachedRun ops) := by
  suffices h : ∀ (c : Cached), CacheOk c → c.w.Inv →
      (ops.foldl (fun c p => (cachedStep c p.1 p.2).1) c).w
        = (ops.map (·.1)).foldl (fun w op => (step w op).1) c.w ∧
      CacheOk (ops.foldl (fun c p => (cachedStep c p.1 p.2).1) c) from
    h Cached.new cacheOk_new inv_new
  induction ops with
  | nil => intro c hok _; exact ⟨rfl, hok⟩
  | cons p ps ih =>
    intro c hok hi
    obtain ⟨hwf, hk⟩ := hops p (by simp)
    obtain ⟨h1, _, h3⟩ := cache_step c p.1 p.2 hok hi hk
    have hi' : (cachedStep c p.1 p.2).1.w.Inv := by rw [h1]; exact inv_step c.w p.1 hwf hi
    have := ih (fun q hq => hops q (List.mem_cons_of_mem _ hq)) _ h3 hi'
    simp only [List.foldl_cons, List.map_cons]
    rw [← h1]; exact this

end CacheLemmas
end Hecs
