import HecsModel.Model.Tracker
import HecsModel.Props.C01Effects
import HecsModel.Props.C08
/-
  C18 (ChangeTracker), part 1: the observation `comp w e c` (value of component `c` of handle `e`,
  through `World.lookup`, hence flush-invariant), the bridge between `liveRows`/queries and `lookup`,
  and what the three tracker queries yield.
-/
namespace Hecs.TrackerLemmas
open Hecs Hecs.World Hecs.Tracker

/-- the value of component `c` of the handle `e` (`none`: no such entity, or no such component) -/
def comp (w : World) (e : Entity) (c : Nat) : Option Nat := (w.lookup e).bind (lookupComp c)

/-- the handle exists (live or reserved) -/
def ex (w : World) (e : Entity) : Bool := (w.lookup e).isSome

theorem comp_eq_some {w : World} {e : Entity} {c v : Nat} :
    comp w e c = some v ↔ ∃ cs, w.lookup e = some cs ∧ lookupComp c cs = some v := by
  unfold comp
  cases w.lookup e <;> simp

theorem comp_of_lookup {w : World} {e : Entity} {cs : List Comp} (h : w.lookup e = some cs) (c : Nat) :
    comp w e c = lookupComp c cs := by
  simp [comp, h]

theorem comp_of_lookup_none {w : World} {e : Entity} (h : w.lookup e = none) (c : Nat) :
    comp w e c = none := by
  simp [comp, h]

theorem comp_flush (w : World) (hw : w.Inv) (e : Entity) (c : Nat) : comp w.flush e c = comp w e c := by
  unfold comp; rw [World.lookup_flush w hw e]

theorem ex_flush (w : World) (hw : w.Inv) (e : Entity) : ex w.flush e = ex w e := by
  unfold ex; rw [World.lookup_flush w hw e]

theorem ex_of_comp {w : World} {e : Entity} {c v : Nat} (h : comp w e c = some v) : ex w e = true := by
  obtain ⟨cs, h1, _⟩ := comp_eq_some.1 h
  simp [ex, h1]

/-! ### live rows = live handles with their `lookup` -/

theorem isLive_of_lookup_ne_nil {w : World} {e : Entity} {cs : List Comp} (h : w.lookup e = some cs)
    (hne : cs ≠ []) : w.isLive e = true := by
  unfold World.lookup at h
  unfold World.isLive
  cases hg : w.get e with
  | none => simp [hg] at h
  | some o =>
    cases o with
    | none => simp [hg] at h; exact absurd h hne
    | some l => rfl

theorem isLive_of_comp {w : World} {e : Entity} {c v : Nat} (h : comp w e c = some v) : w.isLive e = true := by
  obtain ⟨cs, h1, h2⟩ := comp_eq_some.1 h
  apply isLive_of_lookup_ne_nil h1
  rintro rfl
  simp [lookupComp] at h2

theorem mem_liveRows_iff (w : World) (hc : w.Core) (e : Entity) (vals : List Comp) :
    (e, vals) ∈ w.liveRows ↔ w.isLive e = true ∧ w.lookup e = some vals := by
  constructor
  · intro h
    simp only [World.liveRows, List.mem_flatMap, List.mem_map, Prod.mk.injEq] at h
    obtain ⟨ar, har, r, hr, he, hv⟩ := h
    obtain ⟨a, ha⟩ := World.mem_archs_toList har
    obtain ⟨i, hi⟩ := World.mem_rows_toList hr
    have hrow := World.rowAt_eq_archs ha hi
    have hloc := hc.row_loc a i r hrow
    have hget : w.get e = some (some (a, i)) := by
      rw [World.get_located_iff]; subst he; exact ⟨hloc, rfl⟩
    constructor
    · simp [World.isLive, hget]
    · simp [World.lookup, hget, hrow, hv]
  · rintro ⟨hl, hlk⟩
    unfold World.isLive at hl
    cases hg : w.get e with
    | none => simp [hg] at hl
    | some o =>
      cases o with
      | none => simp [hg] at hl
      | some l =>
        obtain ⟨a, i⟩ := l
        obtain ⟨hloc, hgen⟩ := (World.get_located_iff w e a i).1 hg
        obtain ⟨r, hr, hid⟩ := hc.loc_row _ _ _ hloc
        simp only [World.lookup, hg, hr, Option.map_some, Option.some.injEq] at hlk
        obtain ⟨ar, ha, hi⟩ := World.rowAt_some hr
        simp only [World.liveRows, List.mem_flatMap, List.mem_map, Prod.mk.injEq]
        refine ⟨ar, World.getElem?_mem_archs ha, r, World.getElem?_mem_rows hi, ?_, hlk⟩
        cases e
        simp only [World.entityOf] at *
        subst hid
        rw [hgen]

theorem isLive_ex (w : World) (hc : w.Core) (e : Entity) (h : w.isLive e = true) : ex w e = true := by
  unfold World.isLive at h
  cases hg : w.get e with
  | none => simp [hg] at h
  | some o =>
    cases o with
    | none => simp [hg] at h
    | some l =>
      obtain ⟨a, i⟩ := l
      obtain ⟨hloc, _⟩ := (World.get_located_iff w e a i).1 hg
      obtain ⟨r, hr, _⟩ := hc.loc_row _ _ _ hloc
      simp [ex, World.lookup, hg, hr]

/-- the live rows, read through `comp` -/
theorem comp_eq_some_iff_liveRows (w : World) (hc : w.Core) (e : Entity) (c v : Nat) :
    comp w e c = some v ↔ ∃ vals, (e, vals) ∈ w.liveRows ∧ lookupComp c vals = some v := by
  constructor
  · intro h
    obtain ⟨cs, h1, h2⟩ := comp_eq_some.1 h
    exact ⟨cs, (mem_liveRows_iff w hc e cs).2 ⟨isLive_of_comp h, h1⟩, h2⟩
  · rintro ⟨vals, hm, h2⟩
    exact comp_eq_some.2 ⟨vals, ((mem_liveRows_iff w hc e vals).1 hm).2, h2⟩

theorem comp_of_mem_liveRows (w : World) (hc : w.Core) {e : Entity} {vals : List Comp}
    (h : (e, vals) ∈ w.liveRows) (c : Nat) : comp w e c = lookupComp c vals :=
  comp_of_lookup ((mem_liveRows_iff w hc e vals).1 h).2 c

/-- membership in the specification's `snapshot` -/
theorem mem_snapshot_iff (w : World) (hc : w.Core) (c : Nat) (e : Entity) (v : Nat) :
    (e, v) ∈ snapshot w.liveRows c ↔ comp w e c = some v := by
  rw [comp_eq_some_iff_liveRows w hc]
  simp only [snapshot, List.mem_filterMap, Option.map_eq_some_iff, Prod.mk.injEq]
  constructor
  · rintro ⟨⟨e', vals⟩, hm, v', h1, rfl, rfl⟩
    exact ⟨vals, hm, h1⟩
  · rintro ⟨vals, hm, h1⟩
    exact ⟨(e, vals), hm, v, h1, rfl, rfl⟩

theorem mem_liveRows_fst_iff (w : World) (hc : w.Core) (e : Entity) :
    e ∈ w.liveRows.map (·.1) ↔ w.isLive e = true := by
  simp only [List.mem_map]
  constructor
  · rintro ⟨⟨e', vals⟩, hm, rfl⟩
    exact ((mem_liveRows_iff w hc e' vals).1 hm).1
  · intro h
    have := isLive_ex w hc e h
    unfold ex at this
    obtain ⟨cs, hcs⟩ := Option.isSome_iff_exists.1 this
    exact ⟨(e, cs), (mem_liveRows_iff w hc e cs).2 ⟨h, hcs⟩, rfl⟩

/-! ### `lookupComp` and membership of the type list -/

theorem contains_types_iff (c : Nat) (vals : List Comp) :
    (vals.map (·.1)).contains c = (lookupComp c vals).isSome := by
  rw [Bool.eq_iff_iff, lookupComp_isSome]
  simp

/-! ### the three tracker queries -/

theorem mem_added_query (w : World) (hc : w.Core) (t p : Nat) (e : Entity) (v : Nat) :
    (e, v) ∈ (w.queryIter (.without (.read t) (.read p))).map (fun x => (x.1, valOf x.2)) ↔
      comp w e t = some v ∧ comp w e p = none := by
  simp only [List.mem_map, Prod.mk.injEq]
  constructor
  · rintro ⟨⟨e', it⟩, hm, rfl, rfl⟩
    obtain ⟨vals, hl, hs, rfl⟩ := (Props.C08.mem_queryIter_iff w hc _ e' it).1 hm
    simp only [Q.sat, contains_types_iff, Bool.and_eq_true, Bool.not_eq_true',
      Option.isSome_eq_false_iff, Option.isNone_iff_eq_none] at hs
    rw [comp_of_mem_liveRows w hc hl, comp_of_mem_liveRows w hc hl]
    obtain ⟨v', hv'⟩ := Option.isSome_iff_exists.1 hs.1
    refine ⟨?_, hs.2⟩
    simp [specItem, valOf, hv']
  · rintro ⟨h1, h2⟩
    obtain ⟨vals, hl, hv⟩ := (comp_eq_some_iff_liveRows w hc e t v).1 h1
    rw [comp_of_mem_liveRows w hc hl] at h2
    refine ⟨(e, specItem (.without (.read t) (.read p)) vals), ?_, rfl, ?_⟩
    · rw [Props.C08.mem_queryIter_iff w hc]
      refine ⟨vals, hl, ?_, rfl⟩
      simp only [Q.sat, contains_types_iff, hv, h2]; rfl
    · simp [specItem, valOf, hv]

theorem mem_changed_query (w : World) (hc : w.Core) (t p : Nat) (e : Entity) (it : Item) :
    (e, it) ∈ w.queryIter (.pair (.read t) (.pair (.write p) .unit)) ↔
      ∃ n o, comp w e t = some n ∧ comp w e p = some o ∧
        it = .pair (.val t n) (.pair (.val p o) .unit) := by
  rw [Props.C08.mem_queryIter_iff w hc]
  constructor
  · rintro ⟨vals, hl, hs, rfl⟩
    simp only [Q.sat, contains_types_iff, Bool.and_eq_true, Bool.and_true] at hs
    obtain ⟨n, hn⟩ := Option.isSome_iff_exists.1 hs.1
    obtain ⟨o, ho⟩ := Option.isSome_iff_exists.1 hs.2
    refine ⟨n, o, ?_, ?_, ?_⟩
    · rw [comp_of_mem_liveRows w hc hl, hn]
    · rw [comp_of_mem_liveRows w hc hl, ho]
    · simp [specItem, hn, ho]
  · rintro ⟨n, o, h1, h2, rfl⟩
    obtain ⟨vals, hl, hv⟩ := (comp_eq_some_iff_liveRows w hc e t n).1 h1
    rw [comp_of_mem_liveRows w hc hl] at h2
    refine ⟨vals, hl, ?_, ?_⟩
    · simp only [Q.sat, contains_types_iff, hv, h2]; rfl
    · simp [specItem, hv, h2]

theorem mem_removed_query (w : World) (hc : w.Core) (t p : Nat) (e : Entity) :
    e ∈ (w.queryIter (.without (.with_ .unit (.read p)) (.read t))).map (·.1) ↔
      (comp w e p).isSome = true ∧ comp w e t = none := by
  simp only [List.mem_map]
  constructor
  · rintro ⟨⟨e', it⟩, hm, rfl⟩
    obtain ⟨vals, hl, hs, rfl⟩ := (Props.C08.mem_queryIter_iff w hc _ e' it).1 hm
    simp only [Q.sat, contains_types_iff, Bool.and_eq_true, Bool.not_eq_true', Bool.true_and,
      Option.isSome_eq_false_iff, Option.isNone_iff_eq_none] at hs
    rw [comp_of_mem_liveRows w hc hl, comp_of_mem_liveRows w hc hl]
    exact hs
  · rintro ⟨h1, h2⟩
    obtain ⟨o, ho⟩ := Option.isSome_iff_exists.1 h1
    obtain ⟨vals, hl, hv⟩ := (comp_eq_some_iff_liveRows w hc e p o).1 ho
    rw [comp_of_mem_liveRows w hc hl] at h2
    refine ⟨(e, specItem (.without (.with_ .unit (.read p)) (.read t)) vals), ?_, rfl⟩
    rw [Props.C08.mem_queryIter_iff w hc]
    refine ⟨vals, hl, ?_, rfl⟩
    simp only [Q.sat, contains_types_iff, hv, h2]; rfl

end Hecs.TrackerLemmas
