import HecsModel.Lemmas.GuardsConflict
import HecsModel.Lemmas.Query
/-
  C05 helper lemmas, part 3: every acquiring operation of the guard model is `acquireCols` of the
  `held` set of the guard being created / activated, and every `Drop` is `releaseCols` of the `held`
  set of the guard; bookkeeping of the guard list.
-/
namespace Hecs.GuardLemmas
open Hecs Hecs.Guards

/-! ### operations as column lists -/

theorem acquireList_eq (ws : Words) (a : Nat) (l : List (Nat × Bool)) :
    acquireList ws a l = acquireCols ws (l.map (fun x => ((a, x.1), x.2))) := by
  induction l generalizing ws with
  | nil => rfl
  | cons x l ih =>
    obtain ⟨t, u⟩ := x
    simp only [acquireList, List.map_cons, acquireCols]
    cases acquire ws (a, t) u with
    | none => rfl
    | some ws' => exact ih ws'

theorem releaseList_eq (ws : Words) (a : Nat) (l : List (Nat × Bool)) :
    releaseList ws a l = releaseCols ws (l.map (fun x => ((a, x.1), x.2))) := by
  simp [releaseList, releaseCols, List.foldl_map]

/-- the columns `start_borrow::<Q>` walks over -/
def borrowCols (q : Q) (archs : List (Nat × GArch)) : List H :=
  archs.flatMap (fun p =>
    if p.2.len = 0 || !q.sat p.2.types then []
    else (q.borrowList p.2.types).map (fun x => ((p.1, x.1), x.2)))

theorem startBorrow_eq (q : Q) (archs : List (Nat × GArch)) (ws : Words) :
    startBorrow q archs ws = acquireCols ws (borrowCols q archs) := by
  induction archs generalizing ws with
  | nil => rfl
  | cons p rest ih =>
    obtain ⟨a, ar⟩ := p
    simp only [startBorrow, borrowCols, List.flatMap_cons, Q.prepares_eq_sat]
    by_cases hc : (decide (ar.len = 0) || !q.sat ar.types) = true
    · simp only [hc, if_true, List.nil_append]
      exact ih ws
    · simp only [hc, if_false, Bool.false_eq_true]
      rw [acquireCols_append, acquireList_eq]
      generalize acquireCols ws ((q.borrowList ar.types).map (fun x => ((a, x.1), x.2))) = r
      obtain ⟨ws', b⟩ := r
      cases b
      · simp
      · simp only [if_true]
        exact ih ws'

theorem releaseBorrow_eq (q : Q) (archs : List (Nat × GArch)) (ws : Words) :
    releaseBorrow q archs ws = releaseCols ws (borrowCols q archs) := by
  induction archs generalizing ws with
  | nil => rfl
  | cons p rest ih =>
    obtain ⟨a, ar⟩ := p
    simp only [releaseBorrow, borrowCols, List.flatMap_cons, List.foldl_cons, Q.prepares_eq_sat,
      releaseCols_append]
    have ih' := ih
    simp only [releaseBorrow, borrowCols, Q.prepares_eq_sat] at ih'
    by_cases hc : (decide (ar.len = 0) || !q.sat ar.types) = true
    · simp only [hc, if_true]
      rw [ih']
      rfl
    · simp only [hc, if_false, Bool.false_eq_true]
      rw [ih', releaseList_eq]

/-- the columns a `PreparedQueryBorrow` over the archetypes `idxs` walks over -/
def prepCols (s : St) (q : Q) (idxs : List Nat) : List H :=
  idxs.flatMap (fun a =>
    if (s.arch a).len = 0 then []
    else (q.borrowList (s.arch a).types).map (fun x => ((a, x.1), x.2)))

theorem prepFold_false (s : St) (q : Q) (idxs : List Nat) (ws : Words) :
    idxs.foldl (fun (acc : Words × Bool) (a : Nat) =>
      if !acc.2 || (s.arch a).len = 0 then acc else acquireList acc.1 a (q.borrowList (s.arch a).types))
      (ws, false) = (ws, false) := by
  induction idxs with
  | nil => rfl
  | cons a rest ih => simpa using ih

theorem prepFold_eq (s : St) (q : Q) (idxs : List Nat) (ws : Words) :
    idxs.foldl (fun (acc : Words × Bool) (a : Nat) =>
      if !acc.2 || (s.arch a).len = 0 then acc else acquireList acc.1 a (q.borrowList (s.arch a).types))
      (ws, true) = acquireCols ws (prepCols s q idxs) := by
  induction idxs generalizing ws with
  | nil => rfl
  | cons a rest ih =>
    simp only [List.foldl_cons, prepCols, List.flatMap_cons]
    by_cases hc : (s.arch a).len = 0
    · simp only [hc, decide_true, Bool.or_true, if_true, List.nil_append]
      exact ih ws
    · simp only [hc, decide_false, Bool.or_false, Bool.not_true, Bool.false_eq_true, if_false]
      rw [acquireCols_append, acquireList_eq]
      generalize acquireCols ws ((q.borrowList (s.arch a).types).map (fun x => ((a, x.1), x.2))) = r
      obtain ⟨ws', b⟩ := r
      cases b
      · simp only [Bool.false_eq_true, if_false]
        exact prepFold_false s q rest ws'
      · simp only [if_true]
        exact ih ws'

theorem prepRelease_eq (s : St) (q : Q) (idxs : List Nat) (ws : Words) :
    idxs.foldl (fun ws a => if (s.arch a).len = 0 then ws
      else releaseList ws a (q.borrowList (s.arch a).types)) ws = releaseCols ws (prepCols s q idxs) := by
  induction idxs generalizing ws with
  | nil => rfl
  | cons a rest ih =>
    simp only [List.foldl_cons, prepCols, List.flatMap_cons, releaseCols_append]
    have ih' := ih
    simp only [prepCols] at ih'
    by_cases hc : (s.arch a).len = 0
    · simp only [hc, if_true]
      rw [ih']; rfl
    · simp only [hc, if_false]
      rw [ih', releaseList_eq]

/-! ### `held` -/

theorem held_view (s : St) (q : Q) : held s (.view q) = borrowCols q s.indexed := rfl
theorem held_query_true (s : St) (q : Q) : held s (.query q true) = borrowCols q s.indexed := rfl
theorem held_prepared (s : St) (q : Q) (idxs : List Nat) : held s (.prepared q idxs) = prepCols s q idxs := rfl

/-- `held` depends on the archetypes only -/
theorem held_congr {s s' : St} (h : s'.archs = s.archs) (g : Guard) : held s' g = held s g := by
  have hi : s'.indexed = s.indexed := by simp [St.indexed, h]
  have ha : ∀ a, s'.arch a = s.arch a := by intro a; simp [St.arch, h]
  unfold held
  split <;> simp only [hi, ha]

/-- every `Drop` releases exactly the `held` set of the guard -/
theorem dropGuard_eq (s : St) (g : Guard) : dropGuard s g = releaseCols s.words (held s g) := by
  cases g with
  | query q b =>
    cases b
    · rfl
    · simp only [dropGuard, held_query_true, releaseBorrow_eq]
  | view q => simp only [dropGuard, held_view, releaseBorrow_eq]
  | prepared q idxs => simp only [dropGuard, held_prepared, prepRelease_eq]
  | one q a b =>
    cases b
    · rfl
    · simp only [dropGuard, held, releaseList_eq]
  | ref a t => rfl
  | refMut a t => rfl
  | col a t => rfl
  | colMut a t => rfl

/-! ### the guard list -/

/-- what a list of guards holds -/
def heldOf (s : St) (gs : List (String × Guard)) : List H := gs.flatMap (fun g => held s g.2)

/-- everything the live guards hold -/
def heldAll (s : St) : List H := s.guards.flatMap (fun g => held s g.2)

/-- guard names are distinct -/
def NamesNodup (s : St) : Prop := (s.guards.map (·.1)).Nodup

theorem heldAll_congr {s s' : St} (h : s'.archs = s.archs) : heldAll s' = heldOf s s'.guards := by
  unfold heldAll heldOf
  congr 1
  funext g
  exact held_congr h g.2

theorem heldAll_setGuard (s : St) (n : String) (g : Guard) :
    heldAll (s.setGuard n g) = held s g ++ heldAll (s.delGuard n) := by
  rw [heldAll_congr (s := s) (s' := s.setGuard n g) rfl, heldAll_congr (s := s) (s' := s.delGuard n) rfl]
  rfl

theorem heldAll_words (s : St) (ws : Words) : heldAll { s with words := ws } = heldAll s :=
  heldAll_congr (s := s) rfl

theorem delGuard_words (s : St) (ws : Words) (n : String) :
    heldAll ({ s with words := ws }.delGuard n) = heldAll (s.delGuard n) :=
  (heldAll_congr (s := s) (s' := { s with words := ws }.delGuard n) rfl).trans
    (heldAll_congr (s := s) (s' := s.delGuard n) rfl).symm

theorem guards_perm_of_find {l : List (String × Guard)} {n : String} {p : String × Guard}
    (hn : (l.map (·.1)).Nodup) (hf : l.find? (·.1 == n) = some p) :
    l.Perm (p :: l.filter (·.1 != n)) := by
  induction l with
  | nil => cases hf
  | cons x l ih =>
    rw [List.map_cons, List.nodup_cons] at hn
    by_cases hx : x.1 = n
    · have h1 : (x.1 == n) = true := by simpa using hx
      rw [List.find?_cons, h1] at hf
      injection hf with hf
      subst hf
      have h2 : (x.1 != n) = false := by simp [hx]
      rw [List.filter_cons, h2]
      have : l.filter (·.1 != n) = l := by
        rw [List.filter_eq_self]
        intro y hy
        have : y.1 ≠ n := by
          intro e
          exact hn.1 (by rw [hx, ← e]; exact List.mem_map_of_mem hy)
        simpa using this
      simp [this]
    · have h1 : (x.1 == n) = false := by simpa using hx
      have h2 : (x.1 != n) = true := by simp [hx]
      rw [List.find?_cons, h1] at hf
      rw [List.filter_cons, h2]
      simp only [if_true]
      exact ((ih hn.2 hf).cons x).trans (List.Perm.swap p x _)

theorem guard_mem {s : St} {n : String} {g : Guard} (h : s.guard n = some g) : (n, g) ∈ s.guards := by
  unfold St.guard at h
  cases hf : s.guards.find? (·.1 == n) with
  | none => rw [hf] at h; cases h
  | some p =>
    rw [hf] at h
    simp only [Option.map_some, Option.some.injEq] at h
    have h1 := List.find?_some hf
    have h2 := List.mem_of_find?_eq_some hf
    have : p = (n, g) := by
      obtain ⟨a, b⟩ := p
      simp only [beq_iff_eq] at h1
      simp only at h
      rw [h1, h]
    rwa [this] at h2

/-- a live guard's holdings are part of `heldAll`, the rest is what the other guards hold -/
theorem heldAll_perm {s : St} {n : String} {g : Guard} (hn : NamesNodup s) (h : s.guard n = some g) :
    (heldAll s).Perm (held s g ++ heldAll (s.delGuard n)) := by
  unfold St.guard at h
  cases hf : s.guards.find? (·.1 == n) with
  | none => rw [hf] at h; cases h
  | some p =>
    rw [hf] at h
    simp only [Option.map_some, Option.some.injEq] at h
    have := (guards_perm_of_find hn hf).flatMap_right (fun g => held s g.2)
    rw [List.flatMap_cons, h] at this
    rw [heldAll_congr (s := s) (s' := s.delGuard n) rfl]
    exact this

theorem delGuard_of_none {s : St} {n : String} (h : s.guard n = none) : s.delGuard n = s := by
  unfold St.guard at h
  simp only [Option.map_eq_none_iff, List.find?_eq_none] at h
  unfold St.delGuard
  have : s.guards.filter (·.1 != n) = s.guards := by
    rw [List.filter_eq_self]
    intro y hy
    have := h y hy
    simpa using this
  rw [this]

theorem namesNodup_setGuard {s : St} (n : String) (g : Guard) (h : NamesNodup s) :
    NamesNodup (s.setGuard n g) := by
  unfold NamesNodup St.setGuard
  simp only [List.map_cons, List.nodup_cons]
  constructor
  · intro hm
    obtain ⟨y, hy, hyn⟩ := List.mem_map.1 hm
    have := (List.mem_filter.1 hy).2
    simp only [bne_iff_ne, ne_eq] at this
    exact this hyn
  · exact List.Pairwise.sublist (List.Sublist.map _ List.filter_sublist) h

theorem namesNodup_delGuard {s : St} (n : String) (h : NamesNodup s) : NamesNodup (s.delGuard n) :=
  List.Pairwise.sublist (List.Sublist.map _ List.filter_sublist) h

theorem namesNodup_words {s : St} (ws : Words) (h : NamesNodup s) : NamesNodup { s with words := ws } := h

end Hecs.GuardLemmas
