import HecsModel.Lemmas.WorldEffectsBatch
/-
  The frame property for all operations at once.
-/
namespace Hecs

/-- the ids of the handles_eff an operation names -/
def Op.targetIds : Op → List Nat
  | .spawnAt h _ => [h.id]
  | .spawnColumnBatchAt hs _ _ => hs.map (·.id)
  | .insert e _ => [e.id]
  | .remove e _ => [e.id]
  | .exchange e _ _ => [e.id]
  | .despawn e => [e.id]
  | .takeDrop e => [e.id]
  | _ => []

/-- the handles_eff an operation returned -/
def Res.handles_eff : Res → List Entity
  | .ent e => [e]
  | .ents es => es
  | _ => []

namespace World

theorem reserve_lookup (w : World) (ts : List Nat) (h : w.Good) (hts : ts.Nodup) (e : Entity) :
    (w.reserve ts).1.lookup e = w.flush.lookup e := by
  have hf := flush_flushed' w h
  obtain ⟨g1, g2, g3, g4, _, _⟩ := getArch_spec w.flush (sortNat ts) hf.good.arch (sortNat_sorted ts hts)
  exact lookup_congr hf.cursor (hf.same g1 g4).cursor (g1.genAt _) (g1.valsOf _)

theorem step_takeDrop_fst_eff (w : World) (e : Entity) : (step w (.takeDrop e)).1 = (w.take e).1 := by
  show (match w.take e with
      | (w', some d) => (w', ({ res := .ok, dropped := d } : Out))
      | (w', none) => (w', { res := .nosuch })).1 = _
  generalize w.take e = t
  obtain ⟨w', _ | d⟩ := t <;> rfl

theorem ne_of_id_ne {e e' : Entity} (h : e.id ≠ e'.id) : e ≠ e' := fun hh => h (hh ▸ rfl)

theorem step_frame (w : World) (op : Op) (hop : op.WF) (h : w.Good) (hnc : op ≠ .clear)
    (e : Entity) (h1 : e.id ∉ op.targetIds) (h2 : e ∉ (step w op).2.res.handles_eff) :
    (step w op).1.lookup e = w.flush.lookup e := by
  cases op with
  | spawn b =>
    obtain ⟨e', s1, _, _, _, s5⟩ := spawn_spec w b h hop
    simp only [step] at h2 ⊢
    rw [s1] at h2
    exact s5 e (by simpa [Res.handles_eff] using h2)
  | spawnAt h' b =>
    simp only [Op.targetIds, List.mem_singleton] at h1
    exact (spawnAt_spec w h' b h hop).2.2.2.1 e h1
  | spawnBatch ts rows =>
    obtain ⟨es, s1, _, _, _, _, s6⟩ := spawnBatch_spec w ts rows h hop.1 hop.2
    simp only [step] at h2 ⊢
    rw [s1] at h2
    exact s6 e h2
  | spawnColumnBatch ts rows =>
    obtain ⟨es, s1, _, _, _, _, s6⟩ := spawnColumnBatch_spec w ts rows h hop.1 hop.2
    simp only [step] at h2 ⊢
    rw [s1] at h2
    exact s6 e h2
  | spawnColumnBatchAt hs ts rows =>
    simp only [step]
    by_cases hbad : hs.length ≠ rows.length ∨ ¬ (hs.map (·.id)).Nodup
    · rw [spawnColumnBatchAt_panic w hs ts rows hbad]
      exact (lookup_flush' w h e).symm
    · simp only [not_or, Decidable.not_not] at hbad
      exact (spawnColumnBatchAt_spec w hs ts rows h hop.1 hop.2 hbad.1 hbad.2).2.2.2.2 e h1
  | insert e' b =>
    simp only [Op.targetIds, List.mem_singleton] at h1
    have hs := insert_spec w e' b h hop
    simp only [step]
    cases hl : w.flush.lookup e' with
    | none => rw [hs.2 hl]
    | some old => obtain ⟨_, _, new, _, _, h5⟩ := hs.1 old hl; exact h5 e (ne_of_id_ne h1)
  | remove e' ts =>
    simp only [Op.targetIds, List.mem_singleton] at h1
    have hs := remove_spec w e' ts h
    simp only [step]
    cases hl : w.flush.lookup e' with
    | none => rw [hs.2.2 hl]
    | some old =>
      cases hg : bundleGet old ts with
      | none => rw [hs.2.1 old hl hg]
      | some got => exact (hs.1 old got hl hg).2.2.2 e (ne_of_id_ne h1)
  | exchange e' ts b =>
    simp only [Op.targetIds, List.mem_singleton] at h1
    have hs := exchange_spec w e' ts b h hop
    simp only [step]
    cases hl : w.flush.lookup e' with
    | none => rw [hs.2.2 hl]
    | some old =>
      cases hg : bundleGet old ts with
      | none => rw [hs.2.1 old hl hg]
      | some got => obtain ⟨_, _, new, _, _, h5⟩ := hs.1 old got hl hg; exact h5 e (ne_of_id_ne h1)
  | despawn e' =>
    simp only [Op.targetIds, List.mem_singleton] at h1
    have hs := despawn_spec w e' h
    simp only [step]
    cases hl : w.flush.lookup e' with
    | none => rw [hs.2 hl]
    | some cs => exact (hs.1 cs hl).2.2.2 e (ne_of_id_ne h1)
  | takeDrop e' =>
    simp only [Op.targetIds, List.mem_singleton] at h1
    have hs := take_spec w e' h
    rw [step_takeDrop_fst_eff]
    cases hl : w.flush.lookup e' with
    | none => rw [hs.2 hl]
    | some cs => exact (hs.1 cs hl).2.2 e (ne_of_id_ne h1)
  | clear => exact (hnc rfl).elim
  | flush => rfl
  | reserve ts => exact reserve_lookup w ts h hop e
  | reserveEntity =>
    simp only [step, Res.handles_eff, List.mem_singleton] at h2 ⊢
    rw [(reserveEntity_spec w h).2.2.2.2 e h2, lookup_flush' w h]
  | reserveEntities n =>
    simp only [step, Res.handles_eff] at h2 ⊢
    rw [(reserveEntities_spec w n h).2 e h2, lookup_flush' w h]

end World
end Hecs
