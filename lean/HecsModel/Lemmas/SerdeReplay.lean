import HecsModel.Lemmas.SerdeReject
import HecsModel.Lemmas.WorldEffectsFrame
/-
  C14/C15: what an accepted input does to the world.  Deserialization is a left fold of `spawnAt`
  (row format) or `spawnColumnBatchAt` (column format) over the decoded entries; the effect and frame
  theorems of C01 turn the fold into a closed description of `lookup`.
-/
namespace Hecs.SerdeLemmas
open Hecs Hecs.Serde

/-! ### decoding, separated from replay -/

/-- one decoded row entry: the handle and the bundle built by the context -/
def RowEntry (H : List Nat) (kv : Tree × Tree) (p : Entity × List Comp) : Prop :=
  ∃ k comps, kv = (.num k, .map comps) ∧ entityOfBits k = some p.1 ∧ deEntityMap H comps [] = .ok p.2

/-- pointwise relation of two lists -/
inductive All₂ {α β : Type} (R : α → β → Prop) : List α → List β → Prop
  | nil : All₂ R [] []
  | cons {a b l₁ l₂} : R a b → All₂ R l₁ l₂ → All₂ R (a :: l₁) (b :: l₂)

/-- replaying decoded row entries -/
def replayRows (L : List (Entity × List Comp)) (w : World) : World :=
  L.foldl (fun w p => (w.spawnAt p.1 p.2).1) w

theorem deRowEntries_ok_iff (H : List Nat) (kvs : List (Tree × Tree)) (w w' : World) :
    deRowEntries H kvs w = .ok w' ↔
      ∃ L, All₂ (RowEntry H) kvs L ∧ w' = replayRows L w := by
  fun_induction deRowEntries H kvs w with
  | case1 w =>
    constructor
    · intro h; cases h; exact ⟨[], .nil, rfl⟩
    · rintro ⟨L, hL, rfl⟩; cases hL; rfl
  | case2 k comps rest w hk =>
    constructor
    · intro h; cases h
    · rintro ⟨L, hL, -⟩
      cases hL with
      | cons h1 _ =>
        obtain ⟨k', c', he, h2, -⟩ := h1
        cases he; rw [hk] at h2; cases h2
  | case3 k comps rest w e he m hm =>
    constructor
    · intro h; cases h
    · rintro ⟨L, hL, -⟩
      cases hL with
      | cons h1 _ =>
        obtain ⟨k', c', he', -, h3⟩ := h1
        cases he'; rw [hm] at h3; cases h3
  | case4 k comps rest w e he b hb ih =>
    rw [ih]
    constructor
    · rintro ⟨L, hL, rfl⟩
      exact ⟨(e, b) :: L, .cons ⟨k, comps, rfl, he, hb⟩ hL, rfl⟩
    · rintro ⟨L, hL, rfl⟩
      cases hL with
      | cons h1 h2 =>
        rename_i p L'
        obtain ⟨k', c', he', h3, h4⟩ := h1
        cases he'
        rw [he] at h3; rw [hb] at h4
        cases h3; cases h4
        exact ⟨L', h2, rfl⟩
  | case5 kvs w hne1 hne2 =>
    constructor
    · intro h; cases h
    · rintro ⟨L, hL, -⟩
      cases hL with
      | nil => exact (hne1 rfl).elim
      | cons h1 _ =>
        obtain ⟨k', c', he', -, -⟩ := h1
        exact (hne2 _ _ _ (by rw [he'])).elim

theorem RowEntry.nodup {H : List Nat} {kv : Tree × Tree} {p : Entity × List Comp} (h : RowEntry H kv p) :
    (p.2.map (·.1)).Nodup := by
  obtain ⟨k, comps, -, -, h3⟩ := h
  exact deEntityMap_nodup H comps [] p.2 (by simp) h3

/-! ### replay of `spawnAt` -/

/-- the last entry naming the id -/
def lastEntry (id : Nat) : List (Entity × List Comp) → Option (Entity × List Comp)
  | [] => none
  | p :: L =>
    match lastEntry id L with
    | some q => some q
    | none => if p.1.id = id then some p else none

theorem new_lookup (e : Entity) : World.new.lookup e = none := by
  simp [World.lookup, World.get, World.new]

theorem replayRows_inv (L : List (Entity × List Comp)) (w : World) (hw : w.Inv)
    (hL : ∀ p ∈ L, (p.2.map (·.1)).Nodup) : (replayRows L w).Inv := by
  induction L generalizing w with
  | nil => exact hw
  | cons p L ih =>
    exact ih _ (World.inv_step w (.spawnAt p.1 p.2) (hL p (by simp)) hw)
      (fun q hq => hL q (List.mem_cons_of_mem _ hq))

/-- the world after a replay: a handle maps to the canonical bundle of the last entry naming its id
if that entry names exactly this handle, to nothing if the entry names another generation, and is
untouched if no entry names its id -/
theorem replayRows_lookup (L : List (Entity × List Comp)) (w : World) (hw : w.Inv)
    (hL : ∀ p ∈ L, (p.2.map (·.1)).Nodup) (e : Entity) :
    (replayRows L w).lookup e =
      match lastEntry e.id L with
      | some p => if p.1 = e then some (canon p.2) else none
      | none => w.lookup e := by
  induction L generalizing w with
  | nil => rfl
  | cons p L ih =>
    have hp := hL p (by simp)
    have hw1 : (w.spawnAt p.1 p.2).1.Inv := World.inv_step w (.spawnAt p.1 p.2) hp hw
    have := ih _ hw1 (fun q hq => hL q (List.mem_cons_of_mem _ hq))
    show (replayRows L (w.spawnAt p.1 p.2).1).lookup e = _
    rw [this]
    simp only [lastEntry]
    cases hlast : lastEntry e.id L with
    | some q => rfl
    | none =>
      obtain ⟨-, s2, s3, s4, -, -⟩ := World.spawnAt_spec w p.1 p.2 ((World.inv_iff_good w).1 hw) hp
      by_cases hid : p.1.id = e.id
      · simp only [if_pos hid]
        by_cases hpe : p.1 = e
        · simp only [if_pos hpe]; rw [← hpe]; exact s2
        · simp only [if_neg hpe]; exact s3 e hid.symm (fun h => hpe h.symm)
      · simp only [if_neg hid]
        rw [s4 e (fun h => hid h.symm)]; exact World.lookup_flush w hw e

theorem lastEntry_none {id : Nat} {L : List (Entity × List Comp)} :
    lastEntry id L = none ↔ id ∉ L.map (·.1.id) := by
  induction L with
  | nil => simp [lastEntry]
  | cons p L ih =>
    simp only [lastEntry]
    cases h : lastEntry id L with
    | some q =>
      have : ¬ id ∉ L.map (·.1.id) := fun hn => by rw [ih.2 hn] at h; cases h
      simp only [List.map_cons, List.mem_cons, not_or]
      constructor
      · intro h'; cases h'
      · intro h'; exact absurd h'.2 this
    | none =>
      have := ih.1 h
      simp only [List.map_cons, List.mem_cons, not_or]
      by_cases hp : p.1.id = id
      · simp [hp]
      · simp only [if_neg hp, true_iff]; exact ⟨fun h => hp h.symm, this⟩

theorem lastEntry_some {id : Nat} {L : List (Entity × List Comp)} {q : Entity × List Comp}
    (h : lastEntry id L = some q) : q ∈ L ∧ q.1.id = id := by
  induction L with
  | nil => cases h
  | cons p L ih =>
    simp only [lastEntry] at h
    cases h' : lastEntry id L with
    | some q' =>
      rw [h'] at h; cases h
      exact ⟨List.mem_cons_of_mem _ (ih h').1, (ih h').2⟩
    | none =>
      rw [h'] at h
      simp only at h
      split at h
      · cases h; exact ⟨by simp, by assumption⟩
      · cases h

theorem lastEntry_of_nodup {L : List (Entity × List Comp)} (hnd : (L.map (·.1.id)).Nodup)
    {p : Entity × List Comp} (hp : p ∈ L) : lastEntry p.1.id L = some p := by
  cases h : lastEntry p.1.id L with
  | none => exact absurd (List.mem_map_of_mem (f := (·.1.id)) hp) (lastEntry_none.1 h)
  | some q =>
    obtain ⟨hq, hid⟩ := lastEntry_some h
    rw [List.nodup_iff_pairwise_ne, List.pairwise_map] at hnd
    congr 1
    apply Classical.byContradiction; intro hne
    obtain ⟨i, hi, rfl⟩ := List.getElem_of_mem hq
    obtain ⟨j, hj, rfl⟩ := List.getElem_of_mem hp
    rw [List.pairwise_iff_getElem] at hnd
    rcases Nat.lt_trichotomy i j with hij | hij | hij
    · exact hnd i j hi hj hij hid
    · subst hij; exact hne rfl
    · exact hnd j i hj hi hij hid.symm

/-- entries with pairwise distinct ids: every entry's handle maps to its canonical bundle, every other
handle with a listed id to nothing, everything else is untouched -/
theorem replayRows_lookup_nodup (L : List (Entity × List Comp)) (w : World) (hw : w.Inv)
    (hL : ∀ p ∈ L, (p.2.map (·.1)).Nodup) (hnd : (L.map (·.1.id)).Nodup) :
    (∀ p ∈ L, (replayRows L w).lookup p.1 = some (canon p.2)) ∧
    (∀ e, e.id ∈ L.map (·.1.id) → e ∉ L.map (·.1) → (replayRows L w).lookup e = none) ∧
    (∀ e, e.id ∉ L.map (·.1.id) → (replayRows L w).lookup e = w.lookup e) := by
  refine ⟨?_, ?_, ?_⟩
  · intro p hp
    rw [replayRows_lookup L w hw hL, lastEntry_of_nodup hnd hp]; simp
  · intro e he hne
    rw [replayRows_lookup L w hw hL]
    cases h : lastEntry e.id L with
    | none => exact absurd he (lastEntry_none.1 h)
    | some q =>
      have hq := (lastEntry_some h).1
      have : q.1 ≠ e := fun heq => hne (heq ▸ List.mem_map_of_mem (f := (·.1)) hq)
      simp [this]
  · intro e he
    rw [replayRows_lookup L w hw hL, lastEntry_none.2 he]

/-- an accepted key is the bit pattern of the handle it decodes to -/
theorem bitsOf_of_entityOfBits {k : Nat} {e : Entity} (h : entityOfBits k = some e) : k = bitsOf e := by
  obtain ⟨-, -, rfl⟩ := entityOfBits_eq_some k e h
  simp only [bitsOf]; omega

/-- C15/C14: the world an accepted row input produces -/
theorem deRow_ok_lookup (H : List Nat) (kvs : List (Tree × Tree)) (w : World)
    (h : deRow H (.map kvs) = .ok w) :
    ∃ L, All₂ (RowEntry H) kvs L ∧ w.Inv ∧ ∀ e, w.lookup e =
      match lastEntry e.id L with
      | some p => if p.1 = e then some (canon p.2) else none
      | none => none := by
  obtain ⟨L, hL, rfl⟩ := (deRowEntries_ok_iff H kvs World.new w).1 h
  have hn : ∀ p ∈ L, (p.2.map (·.1)).Nodup := by
    clear h
    induction hL with
    | nil => simp
    | cons h1 _ ih =>
      intro p hp
      rcases List.mem_cons.1 hp with rfl | hp
      · exact h1.nodup
      · exact ih p hp
  refine ⟨L, hL, replayRows_inv L _ World.inv_new hn, fun e => ?_⟩
  rw [replayRows_lookup L _ World.inv_new hn e]
  cases lastEntry e.id L with
  | some p => rfl
  | none => exact new_lookup e

/-- the same when no two keys share an id -/
theorem deRow_ok_lookup_nodup (H : List Nat) (kvs : List (Tree × Tree)) (w : World)
    (h : deRow H (.map kvs) = .ok w) :
    ∃ L, All₂ (RowEntry H) kvs L ∧ w.Inv ∧ ((L.map (·.1.id)).Nodup →
      (∀ p ∈ L, w.lookup p.1 = some (canon p.2)) ∧ (∀ e, e ∉ L.map (·.1) → w.lookup e = none)) := by
  obtain ⟨L, hL, hi, hl⟩ := deRow_ok_lookup H kvs w h
  refine ⟨L, hL, hi, fun hnd => ⟨?_, ?_⟩⟩
  · intro p hp
    rw [hl, lastEntry_of_nodup hnd hp]; simp
  · intro e he
    rw [hl]
    cases hlast : lastEntry e.id L with
    | none => rfl
    | some q =>
      have hq := (lastEntry_some hlast).1
      have : q.1 ≠ e := fun heq => he (heq ▸ List.mem_map_of_mem (f := (·.1)) hq)
      simp [this]

/-! ### replay of `spawnColumnBatchAt` -/

structure Block where
  hs : List Entity
  ts : List Nat
  rows : List (List Comp)

def Block.Ok (b : Block) : Prop :=
  strictSorted b.ts = true ∧ (∀ row ∈ b.rows, row.map (·.1) = b.ts) ∧ b.hs.length = b.rows.length ∧
    (b.hs.map (·.id)).Nodup

def replayBlocks (B : List Block) (w : World) : World :=
  B.foldl (fun w b => (w.spawnColumnBatchAt b.hs b.ts b.rows).1) w

theorem replayBlocks_inv (B : List Block) (w : World) (hw : w.Inv) (hB : ∀ b ∈ B, b.Ok) :
    (replayBlocks B w).Inv := by
  induction B generalizing w with
  | nil => exact hw
  | cons b B ih =>
    have hb := hB b (by simp)
    exact ih _ (World.inv_step w (.spawnColumnBatchAt b.hs b.ts b.rows) ⟨hb.1, hb.2.1⟩ hw)
      (fun q hq => hB q (List.mem_cons_of_mem _ hq))

/-- blocks whose entity ids are pairwise distinct, also across blocks -/
theorem replayBlocks_lookup_nodup (B : List Block) (w : World) (hw : w.Inv) (hB : ∀ b ∈ B, b.Ok)
    (hnd : (B.flatMap (fun b => b.hs.map (·.id))).Nodup) :
    (∀ b ∈ B, ∀ p ∈ b.hs.zip b.rows, (replayBlocks B w).lookup p.1 = some p.2) ∧
    (∀ e, e.id ∈ B.flatMap (fun b => b.hs.map (·.id)) → e ∉ B.flatMap (·.hs) →
      (replayBlocks B w).lookup e = none) ∧
    (∀ e, e.id ∉ B.flatMap (fun b => b.hs.map (·.id)) → (replayBlocks B w).lookup e = w.lookup e) := by
  induction B generalizing w with
  | nil => simp [replayBlocks]
  | cons b B ih =>
    have hb := hB b (by simp)
    have hw1 : (w.spawnColumnBatchAt b.hs b.ts b.rows).1.Inv :=
      World.inv_step w (.spawnColumnBatchAt b.hs b.ts b.rows) ⟨hb.1, hb.2.1⟩ hw
    rw [List.flatMap_cons, List.nodup_append] at hnd
    obtain ⟨i1, i2, i3⟩ := ih _ hw1 (fun q hq => hB q (List.mem_cons_of_mem _ hq)) hnd.2.1
    obtain ⟨-, -, s3, s4, s5⟩ := World.spawnColumnBatchAt_spec w b.hs b.ts b.rows
      ((World.inv_iff_good w).1 hw) hb.1 hb.2.1 hb.2.2.1 hb.2.2.2
    have step : replayBlocks (b :: B) w = replayBlocks B (w.spawnColumnBatchAt b.hs b.ts b.rows).1 := rfl
    rw [step]
    refine ⟨?_, ?_, ?_⟩
    · intro b' hb' p hp
      rcases List.mem_cons.1 hb' with rfl | hb'
      · have hmem : p.1.id ∈ b'.hs.map (·.id) :=
          List.mem_map_of_mem (f := (·.id)) (List.of_mem_zip hp).1
        rw [i3 p.1 (fun hin => hnd.2.2 _ hmem _ hin rfl)]
        exact s3 p hp
      · exact i1 b' hb' p hp
    · intro e he hne
      simp only [List.flatMap_cons, List.mem_append, not_or] at he hne
      rcases he with he | he
      · rw [i3 e (fun hin => hnd.2.2 _ he _ hin rfl)]
        exact s4 e he hne.1
      · exact i2 e he hne.2
    · intro e he
      simp only [List.flatMap_cons, List.mem_append, not_or] at he
      rw [i3 e he.2, s5 e he.1]; exact World.lookup_flush w hw e

end Hecs.SerdeLemmas
