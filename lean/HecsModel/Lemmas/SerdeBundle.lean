import HecsModel.Lemmas.SerdeTotal
/-
  C15: the bundle the documented row context builds from an entity's component map — the last value
  given for each component id wins (`EntityBuilder::add` replaces), zero-sized types ignore the value.
-/
namespace Hecs.SerdeLemmas
open Hecs Hecs.Serde

/-- the value the context ends up with for type `t`: the last one listed, normalised -/
def lastVal (t : Nat) : List (Tree × Tree) → Option Nat
  | [] => none
  | (.num t', .num v) :: rest =>
    match lastVal t rest with
    | some x => some x
    | none => if t' = t then some (normVal t v) else none
  | _ :: rest => lastVal t rest

theorem lookupComp_append (t : Nat) (l1 l2 : List Comp) :
    lookupComp t (l1 ++ l2) = (lookupComp t l1).or (lookupComp t l2) := by
  induction l1 with
  | nil => simp [lookupComp]
  | cons c l1 ih =>
    simp only [List.cons_append, lookupComp]
    split
    · simp
    · exact ih

theorem lookupComp_none_of_not_any (t : Nat) (l : List Comp) (h : l.any (·.1 == t) = false) :
    lookupComp t l = none := by
  induction l with
  | nil => rfl
  | cons c l ih =>
    simp only [List.any_cons, Bool.or_eq_false_iff, beq_eq_false_iff_ne] at h
    simp only [lookupComp, if_neg h.1]
    exact ih h.2

theorem lookupComp_replace_same (t x : Nat) (l : List Comp) (h : l.any (·.1 == t) = true) :
    lookupComp t (l.map (fun c => if c.1 == t then (t, x) else c)) = some x := by
  induction l with
  | nil => simp at h
  | cons c l ih =>
    simp only [List.map_cons, lookupComp]
    by_cases hc : c.1 = t
    · simp [hc]
    · have hb : (c.1 == t) = false := by simpa using hc
      simp only [hb, Bool.false_eq_true, if_false, if_neg hc]
      apply ih
      simpa [hb] using h

theorem lookupComp_replace_other (t t' x : Nat) (l : List Comp) (hne : t' ≠ t) :
    lookupComp t (l.map (fun c => if c.1 == t' then (t', x) else c)) = lookupComp t l := by
  induction l with
  | nil => rfl
  | cons c l ih =>
    simp only [List.map_cons, lookupComp]
    by_cases hc : c.1 = t'
    · have hct : ¬ c.1 = t := fun h => hne (hc ▸ h)
      have hb : (c.1 == t') = true := by simpa using hc
      simp only [hb, if_true, if_neg hne, if_neg hct, ih]
    · have hb : (c.1 == t') = false := by simpa using hc
      simp only [hb, Bool.false_eq_true, if_false, ih]

/-- the bundle built from an accepted component map -/
theorem deEntityMap_lookup (H : List Nat) (comps : List (Tree × Tree)) (acc b : List Comp)
    (h : deEntityMap H comps acc = .ok b) (t : Nat) :
    lookupComp t b = (lastVal t comps).or (lookupComp t acc) := by
  fun_induction deEntityMap H comps acc with
  | case1 acc => cases h; simp [lastVal]
  | case2 t' v rest acc hc ih =>
    rw [ih h]
    simp only [lastVal]
    by_cases htt : t' = t
    · subst htt
      have : lookupComp t' (if acc.any (·.1 == t') then acc.map (fun c => if c.1 == t' then (t', normVal t' v) else c)
          else acc ++ [(t', normVal t' v)]) = some (normVal t' v) := by
        split
        · rename_i hany; exact lookupComp_replace_same t' _ acc hany
        · rename_i hany
          rw [lookupComp_append, lookupComp_none_of_not_any t' acc (Bool.eq_false_iff.2 hany)]
          simp [lookupComp]
      rw [this]
      cases lastVal t' rest <;> simp
    · have : lookupComp t (if acc.any (·.1 == t') then acc.map (fun c => if c.1 == t' then (t', normVal t' v) else c)
          else acc ++ [(t', normVal t' v)]) = lookupComp t acc := by
        split
        · exact lookupComp_replace_other t t' _ acc htt
        · rw [lookupComp_append]; simp [lookupComp, htt]
      rw [this]
      cases lastVal t rest <;> simp [htt]
  | case3 => cases h
  | case4 => cases h

/-- every entry of an accepted component map is a (handled id, number) pair -/
theorem deEntityMap_entries (H : List Nat) (comps : List (Tree × Tree)) (acc b : List Comp)
    (h : deEntityMap H comps acc = .ok b) :
    ∀ kv ∈ comps, ∃ t v, kv = (Tree.num t, Tree.num v) ∧ t ∈ H := by
  fun_induction deEntityMap H comps acc with
  | case1 acc => simp
  | case2 t' v rest acc hc ih =>
    intro kv hkv
    rcases List.mem_cons.1 hkv with rfl | hkv
    · exact ⟨t', v, rfl, by simpa using hc⟩
    · exact ih h kv hkv
  | case3 => cases h
  | case4 => cases h

end Hecs.SerdeLemmas
