import HecsModel.Model.Prepared
/-
  Helper lemmas for C17 (prepared queries never go stale).

  Part 1: the archetype array is append-only and type lists are immutable (`AExt`), for every
          primitive and every operation of the world model — unconditionally.
  Part 2: bridging `List.range n |>.filter/flatMap/map` over indices with `flatMap/map` over the
          archetype list, giving `prepareFor … = fresh query`.
-/
namespace Hecs
namespace PreparedLemmas
open World

/-! ## Part 1: append-only archetypes -/

/-- `B` extends `A`: every archetype of `A` is still there, at the same index, with the same type list -/
def AExt (A B : Array Arch) : Prop :=
  A.size ≤ B.size ∧ ∀ (a : Nat) (ar : Arch), A[a]? = some ar → ∃ ar' : Arch, B[a]? = some ar' ∧ ar'.types = ar.types

theorem AExt.refl (A : Array Arch) : AExt A A :=
  ⟨Nat.le_refl _, fun _ ar h => ⟨ar, h, rfl⟩⟩

theorem AExt.trans {A B C : Array Arch} (h1 : AExt A B) (h2 : AExt B C) : AExt A C := by
  refine ⟨Nat.le_trans h1.1 h2.1, fun a ar h => ?_⟩
  obtain ⟨ar1, hb, ht1⟩ := h1.2 a ar h
  obtain ⟨ar2, hc, ht2⟩ := h2.2 a ar1 hb
  exact ⟨ar2, hc, ht2.trans ht1⟩

/-- composition, outermost step first (elaborates better against a concrete target) -/
theorem AExt.comp {A B C : Array Arch} (h2 : AExt B C) (h1 : AExt A B) : AExt A C := AExt.trans h1 h2

theorem AExt.of_eq {A B : Array Arch} (h : B = A) : AExt A B := h ▸ AExt.refl A

theorem AExt.modify (A : Array Arch) (a : Nat) (f : Arch → Arch) (hf : ∀ ar, (f ar).types = ar.types) :
    AExt A (A.modify a f) := by
  refine ⟨by simp, fun b ar h => ?_⟩
  rw [Array.getElem?_modify]
  by_cases hab : a = b
  · subst hab
    simp only [if_true, h, Option.map_some]
    exact ⟨f ar, rfl, hf ar⟩
  · simp only [hab, if_false]
    exact ⟨ar, h, rfl⟩

theorem AExt.push (A : Array Arch) (x : Arch) : AExt A (A.push x) := by
  refine ⟨by simp, fun b ar h => ?_⟩
  have hb : b < A.size := by
    apply Classical.byContradiction; intro hn
    rw [Array.getElem?_eq_none (by omega)] at h; cases h
  refine ⟨ar, ?_, rfl⟩
  rw [Array.getElem?_push]
  have : ¬ b = A.size := by omega
  simp only [this, if_false]; exact h

theorem AExt.map (A : Array Arch) (f : Arch → Arch) (hf : ∀ ar, (f ar).types = ar.types) :
    AExt A (A.map f) := by
  refine ⟨by simp, fun b ar h => ?_⟩
  refine ⟨f ar, ?_, hf ar⟩
  rw [Array.getElem?_map, h]; rfl

/-- the world-level relation -/
abbrev Ext (w w' : World) : Prop := AExt w.archs w'.archs

theorem Ext.rfl' (w : World) : Ext w w := AExt.refl _

/-! ### primitives -/

theorem ext_alloc (w : World) : Ext w (w.alloc).1 := by
  unfold alloc; split <;> exact AExt.refl _

theorem ext_free {w w' : World} {e : Entity} {l} (h : w.free e = some (w', l)) : Ext w w' := by
  unfold free at h
  split at h
  · cases h
  · split at h
    · cases h
    · split at h
      · cases h
      · simp only [Option.some.injEq, Prod.mk.injEq] at h
        obtain ⟨h, _⟩ := h; subst h; exact AExt.refl _

theorem ext_allocAt (w : World) (e : Entity) : Ext w (w.allocAt e).1 := by
  unfold allocAt
  split
  · exact AExt.refl _
  · split <;> exact AExt.refl _

theorem ext_reserveEntity (w : World) : Ext w (w.reserveEntity).1 := by
  unfold reserveEntity
  simp only
  split <;> exact AExt.refl _

theorem ext_reserveEntities (w : World) (n : Nat) : Ext w (w.reserveEntities n).1 := AExt.refl _

theorem ext_getArch (w : World) (ts : List Nat) : Ext w (w.getArch ts).1 := by
  unfold getArch
  split
  · exact AExt.refl _
  · exact AExt.push _ _

theorem ext_pushRow (w : World) (a : Nat) (r : Row) : Ext w (w.pushRow a r).1 := by
  show AExt w.archs (w.archs.modify a _)
  exact AExt.modify _ _ _ (fun _ => rfl)

theorem ext_setRow (w : World) (a i : Nat) (r : Row) : Ext w (w.setRow a i r) := by
  show AExt w.archs (w.archs.modify a _)
  exact AExt.modify _ _ _ (fun _ => rfl)

theorem ext_setRowId (w : World) (a i id : Nat) : Ext w (w.setRowId a i id) := by
  show AExt w.archs (w.archs.modify a _)
  exact AExt.modify _ _ _ (fun _ => rfl)

theorem ext_setLoc (w : World) (id : Nat) (l) : Ext w (w.setLoc id l) := AExt.refl _
theorem ext_setGen (w : World) (id g : Nat) : Ext w (w.setGen id g) := AExt.refl _
theorem ext_setLocIndex (w : World) (id i : Nat) : Ext w (w.setLocIndex id i) := AExt.refl _

theorem ext_removeRow (w : World) (a i : Nat) : Ext w (w.removeRow a i) := by
  unfold removeRow
  simp only
  split
  · show AExt w.archs (w.archs.modify a _)
    exact AExt.modify _ _ _ (fun _ => rfl)
  · show AExt w.archs (w.archs.modify a _)
    exact AExt.modify _ _ _ (fun _ => rfl)

/-! ### flush -/

theorem ext_flushFreshOne (w : World) : Ext w w.flushFreshOne :=
  ext_pushRow w 0 ⟨w.metas.size, []⟩

theorem ext_flushFresh (n : Nat) (w : World) : Ext w (flushFresh n w) := by
  induction n generalizing w with
  | zero => exact AExt.refl _
  | succ n ih => exact AExt.trans (ext_flushFreshOne w) (ih _)

theorem ext_flushPendingOne (w : World) (id : Nat) : Ext w (w.flushPendingOne id) :=
  ext_pushRow w 0 ⟨id, []⟩

theorem ext_flushPending (ids : List Nat) (w : World) : Ext w (flushPending ids w) := by
  induction ids generalizing w with
  | nil => exact AExt.refl _
  | cons id ids ih => exact AExt.trans (ext_flushPendingOne w id) (ih _)

theorem ext_flushPending_from {A : Array Arch} (ids : List Nat) (w0 : World) (h : AExt A w0.archs) :
    AExt A (flushPending ids w0).archs := AExt.trans h (ext_flushPending ids w0)

theorem ext_flush (w : World) : Ext w w.flush := by
  unfold flush
  by_cases h : w.cursor ≥ 0
  · simp only [h, if_true]
    exact ext_flushPending _ w
  · simp only [h, if_false]
    exact ext_flushPending_from _ _ (ext_flushFresh _ w)

/-! ### spawn family -/

theorem ext_spawnInner (w : World) (e : Entity) (b : List Comp) : Ext w (w.spawnInner e b) :=
  AExt.trans (ext_getArch w ((canon b).map (·.1))) (ext_pushRow _ _ _)

theorem ext_spawn (w : World) (b : List Comp) : Ext w (w.spawn b).1 :=
  AExt.trans (ext_flush w) (AExt.trans (ext_alloc _) (ext_spawnInner _ _ _))

theorem ext_evict (w : World) (old : Option (Nat × Nat)) : Ext w (w.evict old).1 := by
  unfold evict
  split
  · exact AExt.refl _
  · exact ext_removeRow _ _ _

theorem ext_spawnAt (w : World) (h : Entity) (b : List Comp) : Ext w (w.spawnAt h b).1 :=
  AExt.trans (ext_flush w) (AExt.trans (ext_allocAt _ h) (AExt.trans (ext_evict _ _) (ext_spawnInner _ _ _)))

theorem ext_reserve (w : World) (ts : List Nat) : Ext w (w.reserve ts).1 :=
  AExt.trans (ext_flush w) (ext_getArch _ _)

theorem ext_spawnBatchRows (a : Nat) (bs : List (List Comp)) (w : World) (acc : List Entity) :
    Ext w (spawnBatchRows a bs w acc).1 := by
  induction bs generalizing w acc with
  | nil => exact AExt.refl _
  | cons b bs ih =>
    simp only [spawnBatchRows]
    exact AExt.comp (ih _ _) (AExt.trans (ext_alloc w) (ext_pushRow _ a _))

theorem ext_spawnBatch (w : World) (ts : List Nat) (rows : List (List Comp)) :
    Ext w (w.spawnBatch ts rows).1 :=
  AExt.trans (ext_reserve w ts) (ext_spawnBatchRows _ _ _ _)

theorem ext_insertBatch (w : World) (ts : List Nat) (rows : List (List Comp)) :
    Ext w (w.insertBatch ts rows).1 := by
  unfold insertBatch
  split
  · show AExt w.archs (w.archs.modify _ _)
    exact AExt.modify _ _ _ (fun _ => rfl)
  · exact AExt.push _ _

theorem ext_assignRows (a : Nat) (ids : List Nat) (i : Nat) (w : World) :
    Ext w (assignRows a ids i w) := by
  induction ids generalizing i w with
  | nil => exact AExt.refl _
  | cons id ids ih =>
    simp only [assignRows]
    exact AExt.comp (ih _ _) (ext_setRowId w a i id)

theorem ext_assignRows_from {A : Array Arch} (a : Nat) (ids : List Nat) (i : Nat) (w0 : World)
    (h : AExt A w0.archs) : AExt A (assignRows a ids i w0).archs :=
  AExt.trans h (ext_assignRows a ids i w0)

theorem ext_spawnColumnBatch (w : World) (ts : List Nat) (rows : List (List Comp)) :
    Ext w (w.spawnColumnBatch ts rows).1 :=
  ext_assignRows_from _ _ _ _ (AExt.trans (ext_flush w) (ext_insertBatch _ ts rows))

theorem ext_allocAtAll (hs : List Entity) (w : World) (d : List Comp) :
    Ext w (allocAtAll hs w d).1 := by
  induction hs generalizing w d with
  | nil => exact AExt.refl _
  | cons h hs ih =>
    simp only [allocAtAll]
    exact AExt.comp (ih _ _) (AExt.comp (ext_evict _ _) (ext_allocAt w h))

theorem ext_spawnColumnBatchAt (w : World) (hs : List Entity) (ts : List Nat) (rows : List (List Comp)) :
    Ext w (w.spawnColumnBatchAt hs ts rows).1 := by
  unfold spawnColumnBatchAt
  split
  · exact AExt.refl _
  · exact AExt.trans (ext_flush w) (AExt.trans (ext_allocAtAll hs _ [])
      (AExt.trans (ext_insertBatch _ ts rows) (ext_assignRows _ _ _ _)))

/-! ### despawn / take / clear -/

theorem ext_despawn (w : World) (e : Entity) : Ext w (w.despawn e).1 := by
  unfold despawn
  simp only
  split
  · exact ext_flush w
  · next w1 a i h => exact AExt.trans (ext_flush w) (AExt.trans (ext_free h) (ext_removeRow _ _ _))

theorem ext_take (w : World) (e : Entity) : Ext w (w.take e).1 := by
  unfold take
  simp only
  split
  · next a i _ =>
    split
    · next w2 _ h => exact AExt.trans (ext_flush w) (AExt.trans (ext_removeRow _ a i) (ext_free h))
    · exact AExt.trans (ext_flush w) (ext_removeRow _ a i)
  · exact ext_flush w

theorem ext_clear (w : World) : Ext w (w.clear).1 :=
  AExt.map _ _ (fun _ => rfl)

/-! ### insert / remove / exchange -/

theorem ext_insertInner (w : World) (e : Entity) (b : List Comp) (origin a i : Nat) :
    Ext w (w.insertInner e b origin a i).1 := by
  unfold insertInner
  simp only
  split
  · exact AExt.trans (ext_getArch w _) (ext_setRow _ _ _ _)
  · exact AExt.comp (ext_removeRow _ _ _) (AExt.comp (ext_pushRow _ _ _) (ext_getArch w _))

theorem ext_insert (w : World) (e : Entity) (b : List Comp) : Ext w (w.insert e b).1 := by
  unfold World.insert
  simp only
  split
  · exact AExt.trans (ext_flush w) (ext_insertInner _ _ _ _ _ _)
  · exact ext_flush w

theorem ext_remove (w : World) (e : Entity) (ts : List Nat) : Ext w (w.remove e ts).1 := by
  unfold World.remove
  simp only
  split
  · exact ext_flush w
  · split
    · exact ext_flush w
    · split
      · exact AExt.trans (ext_flush w) (ext_getArch _ _)
      · exact AExt.comp (ext_removeRow _ _ _) (AExt.comp (ext_pushRow _ _ _)
          (AExt.comp (ext_getArch _ _) (ext_flush w)))

theorem ext_exchange (w : World) (e : Entity) (ts : List Nat) (b : List Comp) :
    Ext w (w.exchange e ts b).1 := by
  unfold exchange
  simp only
  split
  · split
    · exact ext_flush w
    · exact AExt.trans (ext_flush w) (AExt.trans (ext_getArch _ _) (ext_insertInner _ _ _ _ _ _))
  · exact ext_flush w

/-! ### every operation -/

theorem ext_step (w : World) (op : Op) : Ext w (step w op).1 := by
  cases op with
  | spawn b => exact ext_spawn w b
  | spawnAt h b => exact ext_spawnAt w h b
  | spawnBatch ts rows => exact ext_spawnBatch w ts rows
  | spawnColumnBatch ts rows => exact ext_spawnColumnBatch w ts rows
  | spawnColumnBatchAt hs ts rows => exact ext_spawnColumnBatchAt w hs ts rows
  | insert e b => exact ext_insert w e b
  | remove e ts => exact ext_remove w e ts
  | exchange e ts b => exact ext_exchange w e ts b
  | despawn e => exact ext_despawn w e
  | takeDrop e =>
    have h := ext_take w e
    show AExt w.archs (match w.take e with
      | (w', some d) => (w', ({ res := .ok, dropped := d } : Out))
      | (w', none) => (w', { res := .nosuch })).1.archs
    split
    · next w' d heq => rw [heq] at h; exact h
    · next w' heq => rw [heq] at h; exact h
  | clear => exact ext_clear w
  | flush => exact ext_flush w
  | reserve ts => exact ext_reserve w ts
  | reserveEntity => exact ext_reserveEntity w
  | reserveEntities n => exact ext_reserveEntities w n

theorem ext_run (ops : List Op) (w : World) : Ext w (ops.foldl (fun w op => (step w op).1) w) := by
  induction ops generalizing w with
  | nil => exact AExt.refl _
  | cons op ops ih => exact AExt.trans (ext_step w op) (ih _)

/-! ### same archetype count ⇒ same type lists -/

theorem AExt.types_eq {A B : Array Arch} (h : AExt A B) (hs : B.size = A.size) :
    B.toList.map (·.types) = A.toList.map (·.types) := by
  apply List.ext_getElem?
  intro i
  simp only [List.getElem?_map, Array.getElem?_toList]
  cases hA : A[i]? with
  | none =>
    have hi : A.size ≤ i := by
      apply Classical.byContradiction; intro hn
      have : i < A.size := by omega
      simp [this] at hA
    have : B[i]? = none := Array.getElem?_eq_none (by omega)
    simp [this]
  | some ar =>
    obtain ⟨ar', hb, ht⟩ := h.2 i ar hA
    simp [hb, ht]

theorem typesOf_eq_of_types_eq {w w' : World}
    (h : w'.archs.toList.map (·.types) = w.archs.toList.map (·.types)) (i : Nat) :
    w'.typesOf i = w.typesOf i := by
  have := congrArg (fun l => l[i]?) h
  simp only [List.getElem?_map, Array.getElem?_toList] at this
  unfold typesOf
  rw [this]

/-! ## Part 2: a fresh preparation is the plain query -/

theorem range_filter_flatMap {α β} (xs : List α) (P : Nat → Bool) (F : Nat → List β)
    (p : α → Bool) (g : α → List β)
    (h : ∀ i x, xs[i]? = some x → P i = p x ∧ F i = g x) :
    ((List.range xs.length).filter P).flatMap F = xs.flatMap (fun x => if p x then g x else []) := by
  induction xs generalizing P F with
  | nil => simp
  | cons x xs ih =>
    have h0 := h 0 x rfl
    have hs : ∀ i y, xs[i]? = some y → (P ∘ Nat.succ) i = p y ∧ (F ∘ Nat.succ) i = g y :=
      fun i y hy => h (i+1) y (by simpa using hy)
    have ih' := ih (P ∘ Nat.succ) (F ∘ Nat.succ) hs
    rw [List.length_cons, List.range_succ_eq_map, List.filter_cons, List.filter_map, List.flatMap_cons,
      ← ih']
    cases hp : p x <;> simp [h0.1, h0.2, hp, List.flatMap_map, Function.comp_def]

theorem range_filter_map_sum {α} (xs : List α) (P : Nat → Bool) (S : Nat → Nat)
    (p : α → Bool) (s : α → Nat)
    (h : ∀ i x, xs[i]? = some x → P i = p x ∧ S i = s x) :
    (((List.range xs.length).filter P).map S).sum = (xs.map (fun x => if p x then s x else 0)).sum := by
  induction xs generalizing P S with
  | nil => simp
  | cons x xs ih =>
    have h0 := h 0 x rfl
    have hs : ∀ i y, xs[i]? = some y → (P ∘ Nat.succ) i = p y ∧ (S ∘ Nat.succ) i = s y :=
      fun i y hy => h (i+1) y (by simpa using hy)
    have ih' := ih (P ∘ Nat.succ) (S ∘ Nat.succ) hs
    rw [List.length_cons, List.range_succ_eq_map, List.filter_cons, List.filter_map, List.map_cons,
      List.sum_cons, ← ih']
    cases hp : p x <;> simp [h0.1, h0.2, hp, Function.comp_def]

theorem typesOf_get {w : World} {a : Nat} {ar : Arch} (h : w.archs[a]? = some ar) : w.typesOf a = ar.types := by
  simp [typesOf, h]

theorem rowsOf_get {w : World} {a : Nat} {ar : Arch} (h : w.archs[a]? = some ar) : w.rowsOf a = ar.rows := by
  simp [rowsOf, h]

theorem fresh_iter (wid : Nat) (w : World) (q : Q) :
    (Prepared.prepareFor wid w q).iter w q = w.queryIter q := by
  unfold Prepared.iter Prepared.prepareFor queryIter
  simp only
  rw [← Array.length_toList]
  apply range_filter_flatMap
  intro i ar hi
  have hi' : w.archs[i]? = some ar := by simpa using hi
  simp [typesOf_get hi', hi']

theorem fresh_len (wid : Nat) (w : World) (q : Q) :
    (Prepared.prepareFor wid w q).len w = w.preparedLen q := by
  unfold Prepared.len Prepared.prepareFor preparedLen
  simp only
  rw [← Array.length_toList]
  apply range_filter_map_sum
  intro i ar hi
  have hi' : w.archs[i]? = some ar := by simpa using hi
  simp [typesOf_get hi', rowsOf_get hi']

theorem fresh_contains (wid : Nat) (w : World) (q : Q) (a : Nat) (ar : Arch) (h : w.archs[a]? = some ar) :
    (Prepared.prepareFor wid w q).idxs.contains a = q.prepares ar.types := by
  have ha : a < w.archs.size := by
    apply Classical.byContradiction; intro hn
    rw [Array.getElem?_eq_none (by omega)] at h; cases h
  unfold Prepared.prepareFor
  simp only
  rw [Bool.eq_iff_iff]
  simp [List.mem_filter, ha, typesOf_get h]

theorem fresh_viewGet (wid : Nat) (w : World) (q : Q) (e : Entity) :
    (Prepared.prepareFor wid w q).viewGet w q e = w.viewGet q e := by
  unfold Prepared.viewGet World.viewGet
  cases hm : w.metas[e.id]? with
  | none => rfl
  | some m =>
    simp only
    by_cases hg : (m.gen != e.gen) = true
    · simp only [hg, if_true]
    · simp only [hg]
      cases hl : m.loc with
      | none => rfl
      | some l =>
        obtain ⟨a, i⟩ := l
        simp only
        cases h : w.archs[a]? with
        | none => simp
        | some ar => simp only [fresh_contains wid w q a ar h]


/-- the cached index list only depends on the archetype count and the type lists -/
theorem prepareFor_idxs_congr (wid : Nat) (w w' : World) (q : Q)
    (h : w'.archs.toList.map (·.types) = w.archs.toList.map (·.types)) :
    (Prepared.prepareFor wid w' q).idxs = (Prepared.prepareFor wid w q).idxs := by
  have hs : w'.archs.size = w.archs.size := by
    have := congrArg List.length h
    simpa using this
  have hf : (fun i => q.prepares (w'.typesOf i)) = (fun i => q.prepares (w.typesOf i)) := by
    funext i; rw [typesOf_eq_of_types_eq h i]
  unfold Prepared.prepareFor
  simp only [hs, hf]

end PreparedLemmas

/-! ## Validity of the cache -/

namespace Prepared

/-- single-world validity: whenever the memo matches `(wid, w)`, the cached list is what a fresh
preparation of `w` would give -/
def ValidFor (p : Prepared) (q : Q) (wid : Nat) (w : World) : Prop :=
  p.memo = (wid, w.archs.size) → p.idxs = (prepareFor wid w q).idxs

/-- validity against a family of worlds indexed by world id -/
def Valid (p : Prepared) (q : Q) (worlds : Nat → Option World) : Prop :=
  ∀ wid w, worlds wid = some w → p.memo = (wid, w.archs.size) → p.idxs = (prepareFor wid w q).idxs

/-- a memo naming world `wid` was taken in the past of `w`: its archetype count is not larger than
the current one -/
def NotFuture (p : Prepared) (wid : Nat) (w : World) : Prop :=
  p.memo.1 = wid → p.memo.2 ≤ w.archs.size

instance (p : Prepared) (q : Q) (wid : Nat) (w : World) : Decidable (p.ValidFor q wid w) := by
  unfold ValidFor; exact inferInstance

instance (p : Prepared) (wid : Nat) (w : World) : Decidable (p.NotFuture wid w) := by
  unfold NotFuture; exact inferInstance

end Prepared
end Hecs
