import HecsModel.Lemmas.WorldInvBatch
/-
  C01: every operation preserves the representation invariant; `flush` leaves nothing reserved.
-/
namespace Hecs

/-- The in-contract calls.  Bundles name each component type at most once (hecs panics otherwise:
"attempted to allocate entity with duplicate components"); the column-batch type list is in
canonical order and every column-batch row has exactly the batch's types (guaranteed by
`ColumnBatchType`/`ColumnBatchBuilder`); every `spawn_batch` row is a bundle of the static type. -/
def Op.WF : Op → Prop
  | .spawn b => (b.map (·.1)).Nodup
  | .spawnAt _ b => (b.map (·.1)).Nodup
  | .spawnBatch ts rows => ts.Nodup ∧ ∀ row, row ∈ rows → (canon row).map (·.1) = sortNat ts
  | .spawnColumnBatch ts rows => strictSorted ts = true ∧ ∀ row, row ∈ rows → row.map (·.1) = ts
  | .spawnColumnBatchAt _ ts rows => strictSorted ts = true ∧ ∀ row, row ∈ rows → row.map (·.1) = ts
  | .insert _ b => (b.map (·.1)).Nodup
  | .exchange _ _ b => (b.map (·.1)).Nodup
  | .reserve ts => ts.Nodup
  | .remove _ _ => True
  | .despawn _ => True
  | .takeDrop _ => True
  | .clear => True
  | .flush => True
  | .reserveEntity => True
  | .reserveEntities _ => True

instance : DecidablePred Op.WF := fun op => by
  cases op <;> unfold Op.WF <;> infer_instance

namespace World

theorem Flushed.inv {w : World} (h : w.Flushed) : w.Inv := (inv_iff_good w).2 h.good

theorem inv_step (w : World) (op : Op) (hop : op.WF) : w.Inv → (step w op).1.Inv := by
  intro hi
  have h := (inv_iff_good w).1 hi
  cases op with
  | spawn b => exact (spawn_flushed w b h hop).inv
  | spawnAt e b => exact (spawnAt_flushed w e b h hop).inv
  | spawnBatch ts rows => exact (spawnBatch_flushed w ts rows h hop.1 hop.2).inv
  | spawnColumnBatch ts rows => exact (spawnColumnBatch_flushed w ts rows h hop.1 hop.2).inv
  | spawnColumnBatchAt hs ts rows =>
    exact (inv_iff_good _).2 (spawnColumnBatchAt_good w hs ts rows h hop.1 hop.2)
  | insert e b => exact (insert_flushed w e b h hop).inv
  | remove e ts => exact (remove_flushed w e ts h).inv
  | exchange e ts b => exact (exchange_flushed w e ts b h hop).inv
  | despawn e => exact (despawn_flushed w e h).inv
  | takeDrop e =>
    have := (take_flushed w e h).inv
    show (match w.take e with
      | (w', some d) => (w', ({ res := .ok, dropped := d } : Out))
      | (w', none) => (w', { res := .nosuch })).1.Inv
    generalize w.take e = t at *
    obtain ⟨w', _ | d⟩ := t <;> exact this
  | clear => exact (clear_flushed w h).inv
  | flush => exact (flush_flushed' w h).inv
  | reserve ts => exact (reserve_flushed w ts h hop).inv
  | reserveEntity => exact (inv_iff_good _).2 (reserveEntity_good w h)
  | reserveEntities n => exact (inv_iff_good _).2 (reserveEntities_good w n h)

theorem inv_foldl (ops : List Op) (hops : ∀ op, op ∈ ops → op.WF) (w : World) (h : w.Inv) :
    (ops.foldl (fun w op => (step w op).1) w).Inv := by
  induction ops generalizing w with
  | nil => exact h
  | cons op ops ih =>
    exact ih (fun o ho => hops o (List.mem_cons_of_mem _ ho)) _ (inv_step w op (hops op (by simp)) h)

theorem inv_run (ops : List Op) (hops : ∀ op, op ∈ ops → op.WF) : (run ops).Inv :=
  inv_foldl ops hops World.new inv_new

/-- after `flush` nothing is reserved -/
theorem flush_flushed (w : World) : w.Inv → (w.flush).cursor = (w.flush).pending.size := by
  intro hi
  exact (flush_flushed' w ((inv_iff_good w).1 hi)).cursor

end World
end Hecs
