import HecsModel.Lemmas.GuardsAct
import HecsModel.Lemmas.GuardsQuery
/-
  C05 helper lemmas, part 7: what a view / borrowed query holds, column by column, and when two
  queries overlap — "two borrows conflict only if some non-empty archetype satisfies both and they
  touch a common component type with at least one unique access".
-/
namespace Hecs.GuardLemmas
open Hecs Hecs.Guards

theorem mem_indexed_iff (s : St) (a : Nat) (ar : GArch) : (a, ar) ∈ s.indexed ↔ s.archs[a]? = some ar := by
  unfold St.indexed
  rw [List.mem_map]
  constructor
  · rintro ⟨⟨ar', a'⟩, hm, he⟩
    rw [List.mem_zipIdx_iff_getElem?] at hm
    simp only [Prod.mk.injEq] at he
    obtain ⟨rfl, rfl⟩ := he
    exact hm
  · intro h
    exact ⟨(ar, a), List.mem_zipIdx_iff_getElem?.2 h, rfl⟩

/-- a view (or a borrowed query) holds column `(a, t)` in mode `u` iff archetype `a` exists, is
non-empty, satisfies the query, and the query's fetch borrows `t` in mode `u` there -/
theorem mem_held_view_iff (s : St) (q : Q) (a t : Nat) (u : Bool) :
    ((a, t), u) ∈ held s (.view q) ↔
      ∃ ar, s.archs[a]? = some ar ∧ ar.len ≠ 0 ∧ q.sat ar.types = true ∧ (t, u) ∈ q.borrowList ar.types := by
  simp only [held, List.mem_flatMap]
  constructor
  · rintro ⟨⟨a', ar⟩, hm, hx⟩
    rw [mem_indexed_iff] at hm
    by_cases hc : (decide (ar.len = 0) || !q.sat ar.types) = true
    · simp [hc] at hx
    · simp only [hc, if_false, Bool.false_eq_true, List.mem_map, Prod.mk.injEq] at hx
      obtain ⟨⟨t', u'⟩, hb, ⟨rfl, rfl⟩, rfl⟩ := hx
      simp only [Bool.or_eq_true, decide_eq_true_eq, Bool.not_eq_eq_eq_not, Bool.not_true, not_or,
        Bool.not_eq_false] at hc
      exact ⟨ar, hm, hc.1, hc.2, hb⟩
  · rintro ⟨ar, hm, hl, hs, hb⟩
    refine ⟨(a, ar), (mem_indexed_iff s a ar).2 hm, ?_⟩
    have hc : (decide (ar.len = 0) || !q.sat ar.types) = false := by simp [hl, hs]
    simp only [hc, Bool.false_eq_true, if_false, List.mem_map]
    exact ⟨(t, u), hb, rfl⟩

/-- two views (borrowed queries) overlap iff some non-empty archetype satisfies both and both
fetches borrow a common component type there, at least one of them uniquely -/
theorem views_conflict_iff (s : St) (q₁ q₂ : Q) :
    (∃ x ∈ held s (.view q₁), ∃ y ∈ held s (.view q₂), conflicts x y = true) ↔
      ∃ (a : Nat) (ar : GArch), s.archs[a]? = some ar ∧ ar.len ≠ 0 ∧ q₁.sat ar.types = true ∧ q₂.sat ar.types = true ∧
        ∃ t u₁ u₂, (t, u₁) ∈ q₁.borrowList ar.types ∧ (t, u₂) ∈ q₂.borrowList ar.types ∧
          (u₁ || u₂) = true := by
  constructor
  · rintro ⟨⟨⟨a, t⟩, u₁⟩, hx, ⟨⟨a', t'⟩, u₂⟩, hy, hc⟩
    simp only [conflicts, Bool.and_eq_true, beq_iff_eq, Prod.mk.injEq] at hc
    obtain ⟨⟨rfl, rfl⟩, hu⟩ := hc
    obtain ⟨ar, hm, hl, hs₁, hb₁⟩ := (mem_held_view_iff s q₁ a t u₁).1 hx
    obtain ⟨ar', hm', _, hs₂, hb₂⟩ := (mem_held_view_iff s q₂ a t u₂).1 hy
    rw [hm] at hm'
    injection hm' with hm'
    subst hm'
    exact ⟨a, ar, hm, hl, hs₁, hs₂, t, u₁, u₂, hb₁, hb₂, hu⟩
  · rintro ⟨a, ar, hm, hl, hs₁, hs₂, t, u₁, u₂, hb₁, hb₂, hu⟩
    refine ⟨((a, t), u₁), (mem_held_view_iff s q₁ a t u₁).2 ⟨ar, hm, hl, hs₁, hb₁⟩,
      ((a, t), u₂), (mem_held_view_iff s q₂ a t u₂).2 ⟨ar, hm, hl, hs₂, hb₂⟩, ?_⟩
    simp [conflicts, hu]

/-- in particular an overlap needs a component type mentioned by both queries -/
theorem views_conflict_common_type (s : St) (q₁ q₂ : Q)
    (h : ∃ x ∈ held s (.view q₁), ∃ y ∈ held s (.view q₂), conflicts x y = true) :
    ∃ t u₁ u₂, (t, u₁) ∈ q₁.borrows ∧ (t, u₂) ∈ q₂.borrows ∧ (u₁ || u₂) = true := by
  obtain ⟨_, ar, _, _, _, _, t, u₁, u₂, hb₁, hb₂, hu⟩ := (views_conflict_iff s q₁ q₂).1 h
  exact ⟨t, u₁, u₂, borrowList_subset q₁ _ _ hb₁, borrowList_subset q₂ _ _ hb₂, hu⟩

/-! ### existential forms of step preservation, and a few consequences -/

theorem newGuard_preserves_ex {s : St} {leak : List H} (n : String) (g : Guard)
    (h : WInv s leak) (hf : s.guard n = none) :
    ∃ leak', WInv (newGuard s n g).1 leak' ∧
      ((newGuard s n g).2 ≠ .panic → leak' = leak) ∧
      ((newGuard s n g).2 = .panic → leak' = acqPre s.words (wantNew s g) ++ leak) ∧
      (∀ x ∈ leak, x ∈ leak') := by
  refine ⟨_, (newGuard_spec h hf g).1, fun hp => by simp [hp], fun hp => by simp [hp], fun x hx => ?_⟩
  split
  · exact List.mem_append_right _ hx
  · exact hx

theorem act_preserves_ex {s : St} {leak : List H} (n : String) (a : Act)
    (h : WInv s leak) (hf : ∀ into, a = .clone into → s.guard into = none) :
    ∃ leak', WInv (act s n a).1 leak' ∧
      ((act s n a).2 ≠ .panic → leak' = leak) ∧
      ((act s n a).2 = .panic → leak' = acqPre s.words (wantAct s n a) ++ leak) ∧
      (∀ x ∈ leak, x ∈ leak') := by
  refine ⟨_, act_spec h n a hf, fun hp => by simp [hp], fun hp => by simp [hp], fun x hx => ?_⟩
  split
  · exact List.mem_append_right _ hx
  · exact hx

theorem newGuard_overlap_panics' {s : St} {leak : List H} (n : String) (g : Guard)
    (h : WInv s leak) (hf : s.guard n = none) (hne : ∀ q a b, g ≠ .one q a b)
    (hc : wouldConflict (heldAll s ++ leak) (wantNew s g) = true) : (newGuard s n g).2 = .panic := by
  apply Classical.byContradiction
  intro hp
  have := h.granted_noconflict _ (((newGuard_spec h hf g).2 hne).1 hp)
  rw [hc] at this; cases this

theorem clone_grant_iff' {s : St} {leak : List H} (n into : String) (ar t : Nat)
    (h : WInv s leak) (hg : s.guard n = some (.ref ar t) ∨ s.guard n = some (.col ar t))
    (hf : s.guard into = none) (hb : Bound s leak [((ar, t), false)]) :
    (act s n (.clone into)).2 ≠ .panic ↔
      wouldConflict (heldAll s ++ leak) [((ar, t), false)] = false := by
  rcases hg with hg | hg
  · exact (clone_ref_granted_iff h hg hf).trans (h.grant_iff _ hb)
  · exact (clone_col_granted_iff h hg hf).trans (h.grant_iff _ hb)

theorem clone_granted' {s : St} {leak : List H} (n into : String) (ar t : Nat)
    (h : WInv s leak) (hg : s.guard n = some (.ref ar t) ∨ s.guard n = some (.col ar t))
    (hf : s.guard into = none) (hb : Bound s leak [((ar, t), false)]) :
    (act s n (.clone into)).2 ≠ .panic := by
  rw [clone_grant_iff' n into ar t h hg hf hb, wouldConflict_cons, wouldConflict_nil,
    Bool.or_false, any_conflicts_shared]
  have hmem : ((ar, t), false) ∈ heldAll s ++ leak := by
    apply List.mem_append_left
    rcases hg with hg | hg
    · exact List.mem_flatMap.2 ⟨_, guard_mem hg, by simp [held]⟩
    · exact List.mem_flatMap.2 ⟨_, guard_mem hg, by simp [held]⟩
  have hex := h.excl (ar, t)
  have hs : 0 < nS (heldAll s ++ leak) (ar, t) := by
    apply Nat.pos_of_ne_zero
    rw [Ne, nS_eq_zero_iff]
    intro hall
    exact hall _ hmem ⟨rfl, rfl⟩
  have := hex.2
  omega

theorem unique_conflict_iff' (hs : List H) (c : Col) :
    hs.any (conflicts (c, true)) = false ↔ ∀ h ∈ hs, h.1 ≠ c := by
  rw [any_conflicts_unique, nU_eq_zero_iff, nS_eq_zero_iff]
  constructor
  · intro ⟨h1, h2⟩ x hx e
    cases hx2 : x.2
    · exact h2 x hx ⟨e, hx2⟩
    · exact h1 x hx ⟨e, hx2⟩
  · exact fun h => ⟨fun x hx e => h x hx e.1, fun x hx e => h x hx e.1⟩

/-- `QueryOne::get` may be called once -/
theorem get_twice_panics' {s : St} {n : String} {q : Q} {ar : Nat}
    (hg : s.guard n = some (.one q ar true)) : act s n .get = (s, .panic) := by
  simp only [act, hg]

theorem newGuard_one_panic_iff' (s : St) (n : String) (q : Q) (a : Nat) (b : Bool) :
    (newGuard s n (.one q a b)).2 = .panic ↔ q.assertBorrowOk = false := by
  simp only [newGuard]
  cases q.assertBorrowOk <;> simp

theorem wantNew_ref' (s : St) (a t : Nat) (hc : (s.arch a).types.contains t = true) :
    wantNew s (.ref a t) = held s (.ref a t) ∧ wantNew s (.refMut a t) = held s (.refMut a t) ∧
    wantNew s (.col a t) = held s (.col a t) ∧ wantNew s (.colMut a t) = held s (.colMut a t) := by
  simp [wantNew, hc, held, -List.contains_eq_mem]

/-! ### the list-level specifications, packaged -/

theorem acquireList_spec' (ws : Words) (hs : List H) (a : Nat) (l : List (Nat × Bool))
    (hC : Counts ws hs) (hE : Excl hs) :
    let lm := l.map (fun x => ((a, x.1), x.2))
    let pre := acqPre ws lm
    pre <+: lm ∧ ((acquireList ws a l).2 = true ↔ pre = lm) ∧
    Counts (acquireList ws a l).1 (pre ++ hs) ∧ Excl (pre ++ hs) ∧
    ((acquireList ws a l).2 = true → wouldConflict hs lm = false) ∧
    (hs.length + l.length < Borrow.UNIQUE →
      ((acquireList ws a l).2 = true ↔ wouldConflict hs lm = false) ∧ pre = grantPre hs lm) := by
  intro lm pre
  rw [acquireList_eq]
  exact ⟨acqPre_prefix ws lm, acquireCols_ok_iff ws lm, (acquireCols_CE lm ⟨hC, hE⟩).counts,
    (acquireCols_CE lm ⟨hC, hE⟩).excl, acquireCols_ok_noconflict lm ⟨hC, hE⟩,
    fun hb => ⟨acquireCols_ok_iff_noconflict lm ⟨hC, hE⟩ (by simpa [lm] using hb),
      acqPre_eq_grantPre lm ⟨hC, hE⟩ (by simpa [lm] using hb)⟩⟩

theorem startBorrow_spec' (s : St) (ws : Words) (hs : List H) (q : Q)
    (hC : Counts ws hs) (hE : Excl hs) :
    let want := held s (.view q)
    let pre := acqPre ws want
    want = held s (.query q true) ∧
    pre <+: want ∧ ((startBorrow q s.indexed ws).2 = true ↔ pre = want) ∧
    Counts (startBorrow q s.indexed ws).1 (pre ++ hs) ∧ Excl (pre ++ hs) ∧
    ((startBorrow q s.indexed ws).2 = true → wouldConflict hs want = false) ∧
    (hs.length + want.length < Borrow.UNIQUE →
      ((startBorrow q s.indexed ws).2 = true ↔ wouldConflict hs want = false) ∧ pre = grantPre hs want) := by
  intro want pre
  rw [startBorrow_eq]
  exact ⟨rfl, acqPre_prefix ws want, acquireCols_ok_iff ws want, (acquireCols_CE want ⟨hC, hE⟩).counts,
    (acquireCols_CE want ⟨hC, hE⟩).excl, acquireCols_ok_noconflict want ⟨hC, hE⟩,
    fun hb => ⟨acquireCols_ok_iff_noconflict want ⟨hC, hE⟩ hb, acqPre_eq_grantPre want ⟨hC, hE⟩ hb⟩⟩

/-! ### a concrete world for non-vacuity checks -/

/-- two archetypes: `[0,1]` with one entity, `[0]` with two -/
def sEx : St := { archs := [⟨[0, 1], 1⟩, ⟨[0], 2⟩] }

/-- `(&mut T0, &T1)` -/
def qEx : Q := .pair (.write 0) (.pair (.read 1) .unit)

/-- run a script from a state, collecting the outcomes -/
def runEx (s : St) : List Cmd → St × List Outcome
  | [] => (s, [])
  | c :: rest => let r := c.run s; let r' := runEx r.1 rest; (r'.1, r.2 :: r'.2)

/-- the F15 script: after it, the invariant holds with exactly the leaked column as residue -/
theorem leakEx_winv :
    WInv (runEx sEx [.new "m" (.refMut 0 1), .new "o" (.one qEx 0 false), .act "o" .get,
      .act "m" .drop, .act "o" .drop]).1 [((0, 0), true)] := by
  have h0 : WInv sEx [] := WInv.init _
  have h1 := Cmd.run_spec h0 (.new "m" (.refMut 0 1)) (by show St.guard _ _ = none; decide) (by decide)
  have h2 := Cmd.run_spec h1 (.new "o" (.one qEx 0 false)) (by show St.guard _ _ = none; decide) (by decide)
  have h3 := act_spec h2 "o" .get (by intro into e; cases e)
  have e3 : ((act ((Cmd.new "o" (.one qEx 0 false)).run ((Cmd.new "m" (.refMut 0 1)).run sEx).1).1 "o" .get).2
      = .panic) = True := by decide
  simp only [e3, if_true] at h3
  have e4 : acqPre ((Cmd.new "o" (.one qEx 0 false)).run ((Cmd.new "m" (.refMut 0 1)).run sEx).1).1.words
      (wantAct ((Cmd.new "o" (.one qEx 0 false)).run ((Cmd.new "m" (.refMut 0 1)).run sEx).1).1 "o" .get)
      = [((0, 0), true)] := by decide
  rw [e4] at h3
  have h4 := Cmd.run_spec h3 (.act "m" .drop) trivial (by decide)
  have h5 := Cmd.run_spec h4 (.act "o" .drop) trivial (by decide)
  exact h5

end Hecs.GuardLemmas
