import HecsModel.Lemmas.WorldInvOps
/-
  insert / remove / exchange: archetype moves and in-place overwrites.
-/
namespace Hecs
namespace World

theorem place_free_live (w : World) (a id vals Q) (hl : w.locOf id ≠ none) (h : w.Free Q) :
    (w.place a id vals).Free Q := by
  have hid : id < w.metas.size := by
    apply Classical.byContradiction; intro hn; exact hl (locOf_ge w id (by omega))
  refine ⟨h.nodup, ?_⟩
  intro id'; rw [place_locOf _ _ _ _ _ hid, place_metas_size]
  have := h.iff id'
  by_cases hi : id' = id
  · subst hi; simp [hl] at this ⊢; exact this
  · simp [hi]; exact this

/-- move the row of `id` from `(a, i)` to the end of archetype `tgt` -/
theorem move_flushed (w : World) (id a i tgt : Nat) (vals : List Comp) (hf : w.Flushed)
    (hloc : w.locOf id = some (a, i)) (hne : tgt ≠ a) (ht : tgt < w.archs.size)
    (hv : vals.map (·.1) = w.typesOf tgt) : ((w.place tgt id vals).removeRow a i).Flushed := by
  have hg := hf.good
  have hex := place_bijEx w tgt id vals a i ht hloc (fun e => hne e.symm) hg.bij
  have hrow : 0 < ((w.place tgt id vals).rowsOf a).size := by have := hex.row; omega
  have hrc := removeRow_rowCount (w.place tgt id vals) a i hrow
  rw [place_rowCount _ _ _ _ ht] at hrc
  refine ⟨⟨removeRow_bij _ a i hex, removeRow_archOK _ a i (place_archOK w tgt id vals ht hv hg.arch), ?_, ?_, ?_, ?_⟩, ?_⟩
  · rw [removeRow_pending, place_pending]
    exact removeRow_free _ a i _ (place_free_live w tgt id vals _ (by rw [hloc]; simp) hg.free)
  · rw [removeRow_pending, removeRow_cursor, place_pending, place_cursor]; exact hg.cursor_le
  · rw [removeRow_len, place_len, hg.len_rows]; omega
  · rw [removeRow_pending, removeRow_metas_size, place_pending, place_metas_size]
    have := hg.count; omega
  · rw [removeRow_pending, removeRow_cursor, place_pending, place_cursor]; exact hf.cursor

/-! ### setRow -/

theorem setRow_eq (w : World) (a i r) : w.setRow a i r = w.modRows a (fun rows => rows.set! i r) := rfl

theorem setRow_get (w : World) (a i : Nat) (r : Row) (b j : Nat) :
    ((w.setRow a i r).rowsOf b)[j]? =
      if b = a ∧ j = i ∧ i < (w.rowsOf a).size then some r else (w.rowsOf b)[j]? := by
  rw [setRow_eq, modRows_rowsOf]
  by_cases hb : b = a
  · subst hb
    by_cases ha : b < w.archs.size
    · simp only [ha, and_self, if_true, true_and]
      rw [Array.set!_eq_setIfInBounds, Array.getElem?_setIfInBounds]
      grind
    · have := rowsOf_ge w b (by omega)
      simp [ha, this]
  · simp [hb]

theorem setRow_flushed (w : World) (a i : Nat) (r r0 : Row) (hf : w.Flushed)
    (h0 : (w.rowsOf a)[i]? = some r0) (hid : r.id = r0.id) (hv : r.vals.map (·.1) = r0.vals.map (·.1)) :
    (w.setRow a i r).Flushed := by
  have hg := hf.good
  have ha := lt_of_row h0
  have hi : i < (w.rowsOf a).size := by grind
  have hrc : (w.setRow a i r).rowCount = w.rowCount := by
    have := modRows_rowCount w a (fun rows => rows.set! i r) ha
    rw [setRow_eq]; simp at this ⊢; omega
  refine ⟨⟨⟨?_, ?_⟩, ⟨?_, ?_, ?_, ?_⟩, ?_, hg.cursor_le, ?_, ?_⟩, hf.cursor⟩
  · intro id b j hh
    rw [setRow_get]
    have := hg.bij.loc_row id b j hh
    have h1 := hg.bij.row_loc a i r0 h0
    show ∃ r', _
    by_cases hc : b = a ∧ j = i ∧ i < (w.rowsOf a).size
    · rw [if_pos hc]; obtain ⟨rfl, rfl, _⟩ := hc
      refine ⟨r, rfl, ?_⟩
      grind
    · rw [if_neg hc]; exact this
  · intro b j r'; rw [setRow_get]
    show _ → w.locOf r'.id = _
    have h1 := hg.bij.row_loc a i r0 h0
    have h2 := hg.bij.row_loc b j r'
    grind
  · rw [setRow_eq]; simpa using hg.arch.arch0
  · rw [setRow_eq]; simpa using hg.arch.sorted
  · rw [setRow_eq]; simpa using hg.arch.inj
  · intro b j r'; rw [setRow_get]
    have h2 := hg.arch.row_types b j r'
    have h3 := hg.arch.row_types a i r0 h0
    have : (w.setRow a i r).typesOf b = w.typesOf b := by rw [setRow_eq]; simp
    rw [this]
    grind
  · exact ⟨hg.free.nodup, hg.free.iff⟩
  · rw [hrc]; exact hg.len_rows
  · rw [hrc]; exact hg.count

/-! ### insertInner -/

theorem putComp_map (c : Comp) (vals : List Comp) : (putComp c vals).map (·.1) = vals.map (·.1) := by
  induction vals with
  | nil => rfl
  | cons d ds ih =>
    have e : putComp c (d :: ds) = (if d.1 = c.1 then c else d) :: putComp c ds := rfl
    rw [e, List.map_cons, List.map_cons, ih]
    congr 1
    split
    · rename_i h; exact h.symm
    · rfl

theorem foldl_putComp_map (b vals : List Comp) :
    (b.foldl (fun vs c => putComp c vs) vals).map (·.1) = vals.map (·.1) := by
  induction b generalizing vals with
  | nil => rfl
  | cons c cs ih => simp only [List.foldl_cons]; rw [ih, putComp_map]

theorem insertInner_eq (w : World) (e : Entity) (b : List Comp) (origin a i : Nat) :
    w.insertInner e b origin a i =
      let src := w.typesOf origin
      let bt := b.map (·.1)
      let info := sortNat (src ++ bt.filter (fun t => !src.contains t))
      let w1 := (w.getArch info).1
      let tgt := (w.getArch info).2
      let row := ((w1.rowAt a i)).getD ⟨e.id, []⟩
      let dropped := row.vals.filter (fun c => src.contains c.1 && bt.contains c.1)
      if tgt = a then
        (w1.setRow a i { row with vals := b.foldl (fun vs c => putComp c vs) row.vals }, dropped)
      else
        ((w1.place tgt e.id (canon (b ++ row.vals.filter (fun c => src.contains c.1 && !bt.contains c.1)))).removeRow a i,
          dropped) := rfl

theorem insert_types (src ta bt : List Nat) (vals : List Comp) (hv : vals.map (·.1) = ta)
    (hsrc : strictSorted src = true) (hta : strictSorted ta = true) (hbt : bt.Nodup)
    (hsub : ∀ x, x ∈ src → x ∈ ta) (b : List Comp) (hb : b.map (·.1) = bt) :
    (canon (b ++ vals.filter (fun c => src.contains c.1 && !bt.contains c.1))).map (·.1)
      = sortNat (src ++ bt.filter (fun t => !src.contains t)) := by
  rw [canon_map]
  have hkept : (vals.filter (fun c => src.contains c.1 && !bt.contains c.1)).map (·.1)
      = ta.filter (fun t => src.contains t && !bt.contains t) := by
    rw [← hv, List.filter_map]; rfl
  rw [List.map_append, hkept, hb]
  have hnsrc := strictSorted_nodup src hsrc
  have hnta := strictSorted_nodup ta hta
  apply strictSorted_ext
  · apply sortNat_sorted
    rw [List.nodup_append]
    refine ⟨hbt, hnta.filter _, ?_⟩
    intro x hx y hy
    simp only [List.mem_filter, Bool.and_eq_true, Bool.not_eq_eq_eq_not,
      Bool.not_true, List.contains_eq_mem, decide_eq_false_iff_not, decide_eq_true_eq] at hy
    grind
  · apply sortNat_sorted
    rw [List.nodup_append]
    refine ⟨hnsrc, hbt.filter _, ?_⟩
    intro x hx y hy
    simp only [List.mem_filter, Bool.not_eq_eq_eq_not,
      Bool.not_true, List.contains_eq_mem, decide_eq_false_iff_not] at hy
    grind
  · intro x
    simp only [mem_sortNat, List.mem_append, List.mem_filter, Bool.and_eq_true,
      Bool.not_eq_eq_eq_not, Bool.not_true, List.contains_eq_mem, decide_eq_false_iff_not, decide_eq_true_eq]
    have := hsub x
    grind

theorem Flushed.same {w w' : World} (hs : Same w' w) (ha : w'.ArchOK) (h : w.Flushed) : w'.Flushed :=
  (h.allocd.same hs ha).flushed

theorem insertInner_flushed (w : World) (e : Entity) (b : List Comp) (origin a i : Nat) (hf : w.Flushed)
    (hloc : w.locOf e.id = some (a, i)) (hsub : ∀ x, x ∈ w.typesOf origin → x ∈ w.typesOf a)
    (hso : strictSorted (w.typesOf origin) = true) (hb : (b.map (·.1)).Nodup) :
    (w.insertInner e b origin a i).1.Flushed := by
  rw [insertInner_eq]
  simp only
  have hnsrc := strictSorted_nodup _ hso
  have hinfo : strictSorted (sortNat (w.typesOf origin ++
      (b.map (·.1)).filter (fun t => !(w.typesOf origin).contains t))) = true := by
    apply sortNat_sorted
    rw [List.nodup_append]
    refine ⟨hnsrc, hb.filter _, ?_⟩
    intro x hx y hy
    simp only [List.mem_filter, Bool.not_eq_eq_eq_not,
      Bool.not_true, List.contains_eq_mem, decide_eq_false_iff_not] at hy
    grind
  obtain ⟨g1, g2, g3, g4, g5, g6⟩ := getArch_spec w _ hf.good.arch hinfo
  generalize w.getArch (sortNat (w.typesOf origin ++
      (b.map (·.1)).filter (fun t => !(w.typesOf origin).contains t))) = ga at *
  obtain ⟨w1, tgt⟩ := ga
  simp only at g1 g2 g3 g4 g5 g6 ⊢
  have hf1 : w1.Flushed := hf.same g1 g4
  have hloc1 : w1.locOf e.id = some (a, i) := by rw [g1.locOf]; exact hloc
  obtain ⟨r0, hr0, hr0id⟩ := hf1.good.bij.loc_row _ _ _ hloc1
  have hrow : w1.rowAt a i = some r0 := by rw [rowAt_eq]; exact hr0
  rw [hrow]; simp only [Option.getD_some]
  have ha : a < w.archs.size := by rw [g1.rows] at hr0; exact lt_of_row hr0
  split
  · apply setRow_flushed w1 a i _ r0 hf1 hr0
    · rfl
    · exact foldl_putComp_map b r0.vals
  · rename_i hne
    apply move_flushed w1 e.id a i tgt _ hf1 hloc1 hne g2
    rw [g3]
    have hta : r0.vals.map (·.1) = w.typesOf a := by
      rw [← g6 a ha]; exact hf1.good.arch.row_types a i r0 hr0
    exact insert_types (w.typesOf origin) (w.typesOf a) (b.map (·.1)) r0.vals hta hso
      (hf.good.arch.sorted a ha) hb hsub b rfl

/-! ### insert, remove, exchange -/

theorem locOf_of_get {w : World} {e : Entity} {l} (h : w.get e = some (some l)) : w.locOf e.id = some l := by
  obtain ⟨m, hm, _, hl⟩ := get_some_some h
  rw [locOf_of_meta hm, hl]

theorem locOf_of_getMut {w : World} {e : Entity} {l} (h : w.getMut e = some l) : w.locOf e.id = some l := by
  unfold getMut at h
  split at h
  · cases h
  · rename_i m hm
    split at h
    · rw [locOf_of_meta hm, h]
    · cases h

theorem insert_flushed (w : World) (e : Entity) (b : List Comp) (h : w.Good) (hb : (b.map (·.1)).Nodup) :
    (w.insert e b).1.Flushed := by
  have hf := flush_flushed' w h
  unfold insert
  simp only
  split
  · rename_i a i hget
    have hloc := locOf_of_get hget
    obtain ⟨r0, hr0, _⟩ := hf.good.bij.loc_row _ _ _ hloc
    exact insertInner_flushed w.flush e b a a i hf hloc (fun _ hx => hx)
      (hf.good.arch.sorted a (lt_of_row hr0)) hb
  · exact hf

theorem remove_flushed (w : World) (e : Entity) (ts : List Nat) (h : w.Good) : (w.remove e ts).1.Flushed := by
  have hf := flush_flushed' w h
  unfold remove
  simp only
  split
  · exact hf
  · rename_i a i hget
    have hloc := locOf_of_getMut hget
    obtain ⟨r0, hr0, hr0id⟩ := hf.good.bij.loc_row _ _ _ hloc
    have ha := lt_of_row hr0
    have hrow : w.flush.rowAt a i = some r0 := by rw [rowAt_eq]; exact hr0
    rw [hrow]; simp only [Option.getD_some]
    split
    · exact hf
    · have hs : strictSorted ((w.flush.typesOf a).filter (fun t => !ts.contains t)) = true :=
        strictSorted_filter _ _ (hf.good.arch.sorted a ha)
      obtain ⟨g1, g2, g3, g4, g5, g6⟩ := getArch_spec w.flush _ hf.good.arch hs
      generalize w.flush.getArch ((w.flush.typesOf a).filter (fun t => !ts.contains t)) = ga at *
      obtain ⟨w1, tgt⟩ := ga
      simp only at g1 g2 g3 g4 g5 g6 ⊢
      have hf1 : w1.Flushed := hf.same g1 g4
      split
      · exact hf1
      · rename_i hne
        have hloc1 : w1.locOf e.id = some (a, i) := by rw [g1.locOf]; exact hloc
        apply move_flushed w1 e.id a i tgt _ hf1 hloc1 hne g2
        rw [g3, ← hf.good.arch.row_types a i r0 hr0, List.filter_map]; rfl

theorem exchange_flushed (w : World) (e : Entity) (ts : List Nat) (b : List Comp) (h : w.Good)
    (hb : (b.map (·.1)).Nodup) : (w.exchange e ts b).1.Flushed := by
  have hf := flush_flushed' w h
  unfold exchange
  simp only
  split
  · rename_i a i hget
    have hloc := locOf_of_get hget
    obtain ⟨r0, hr0, hr0id⟩ := hf.good.bij.loc_row _ _ _ hloc
    have ha := lt_of_row hr0
    split
    · exact hf
    · have hs : strictSorted ((w.flush.typesOf a).filter (fun t => !ts.contains t)) = true :=
        strictSorted_filter _ _ (hf.good.arch.sorted a ha)
      obtain ⟨g1, g2, g3, g4, g5, g6⟩ := getArch_spec w.flush _ hf.good.arch hs
      generalize w.flush.getArch ((w.flush.typesOf a).filter (fun t => !ts.contains t)) = ga at *
      obtain ⟨w1, mid⟩ := ga
      simp only at g1 g2 g3 g4 g5 g6 ⊢
      have hf1 : w1.Flushed := hf.same g1 g4
      have hloc1 : w1.locOf e.id = some (a, i) := by rw [g1.locOf]; exact hloc
      apply insertInner_flushed w1 e b mid a i hf1 hloc1 ?_ ?_ hb
      · intro x; rw [g3, g6 a ha]; intro hx; exact (List.mem_filter.1 hx).1
      · rw [g3]; exact hs
  · exact hf

end World
end Hecs
