import HecsModel.Model.Serde
import HecsModel.Lemmas.Query
import HecsModel.Lemmas.Canon
/-
  C14, the serializers: closed forms of `serRow`/`serCol`, the filtered variants, announced lengths.
-/
namespace Hecs.SerdeLemmas
open Hecs Hecs.Serde Hecs.CanonLemmas

/-- the components a context handling `H` keeps -/
def restrict (H : List Nat) (cs : List Comp) : List Comp := cs.filter (fun c => H.contains c.1)

/-- the handled components of an entity, in the context's order -/
def pairsH (H : List Nat) (cs : List Comp) : List Comp :=
  H.filterMap (fun t => (lookupComp t cs).map (fun v => (t, v)))

def encComps (b : List Comp) : Tree := .map (b.map (fun c => (Tree.num c.1, Tree.num c.2)))

/-- one entry of the row format -/
def rowEntry (H : List Nat) (p : Entity × List Comp) : Tree × Tree :=
  (.num (bitsOf p.1), encComps (pairsH H p.2))

theorem filterMap_ite {α β : Type} (p : α → Bool) (f : α → β) (l : List α) :
    l.filterMap (fun a => if p a = true then some (f a) else none) = (l.filter p).map f := by
  induction l with
  | nil => rfl
  | cons a l ih =>
    simp only [List.filterMap_cons, List.filter_cons]
    cases h : p a <;> simp [ih]

theorem rowsInOrder_eq (w : World) : rowsInOrder w = w.liveRows := rfl

theorem serRow_entry_eq (H : List Nat) (p : Entity × List Comp) :
    (Tree.num (bitsOf p.1),
      Tree.map (H.filterMap (fun t => (lookupComp t p.2).map (fun v => (Tree.num t, Tree.num v))))) =
    rowEntry H p := by
  simp only [rowEntry, encComps, pairsH, List.map_filterMap, Option.map_map]
  rfl

/-- `row::serialize`: one entry per live entity, in storage order -/
theorem serRow_none (w : World) (H : List Nat) : serRow w H none = .map (w.liveRows.map (rowEntry H)) := by
  simp only [serRow, satisfiesOpt, if_true, rowsInOrder_eq, serRow_entry_eq]
  congr 1
  have := filterMap_ite (fun _ => true) (rowEntry H) w.liveRows
  simp only [if_true] at this
  rw [this, List.filter_eq_self.2 (fun _ _ => rfl)]

/-- `row::serialize_satisfying::<Q>`: exactly the entries of the entities satisfying `q` -/
theorem serRow_some (w : World) (H : List Nat) (q : Q) :
    serRow w H (some q) =
      .map ((w.liveRows.filter (fun p => q.sat (p.2.map (·.1)))).map (rowEntry H)) := by
  simp only [serRow, satisfiesOpt, rowsInOrder_eq, serRow_entry_eq, Q.access_isSome_eq_sat]
  congr 1
  exact filterMap_ite (fun p => q.sat (p.2.map (·.1))) (rowEntry H) w.liveRows

/-! ### what an entry lists -/

theorem lookupComp_eq_some_iff {t v : Nat} {l : List Comp} (hn : (l.map (·.1)).Nodup) :
    lookupComp t l = some v ↔ (t, v) ∈ l := by
  constructor
  · exact lookupComp_some
  · intro h
    have : (lookupComp t l).isSome := (lookupComp_isSome_iff t l).2 (List.mem_map_of_mem (f := (·.1)) h)
    cases h' : lookupComp t l with
    | none => rw [h'] at this; cases this
    | some v' =>
      have := eq_of_key_eq hn (lookupComp_some h') h rfl
      simp only [Prod.mk.injEq, true_and] at this
      rw [this]

theorem mem_pairsH {H : List Nat} {cs : List Comp} (hn : (cs.map (·.1)).Nodup) (c : Comp) :
    c ∈ pairsH H cs ↔ c.1 ∈ H ∧ c ∈ cs := by
  obtain ⟨t, v⟩ := c
  simp only [pairsH, List.mem_filterMap, Option.map_eq_some_iff, Prod.mk.injEq]
  constructor
  · rintro ⟨t', ht', v', hv', rfl, rfl⟩
    exact ⟨ht', (lookupComp_eq_some_iff hn).1 hv'⟩
  · rintro ⟨ht, hc⟩
    exact ⟨t, ht, v, (lookupComp_eq_some_iff hn).2 hc, rfl, rfl⟩

/-- the listed types are the handled types the entity has, in the context's order -/
theorem pairsH_keys (H : List Nat) (cs : List Comp) :
    (pairsH H cs).map (·.1) = H.filter (fun t => (cs.map (·.1)).contains t) := by
  induction H with
  | nil => rfl
  | cons t H ih =>
    simp only [pairsH, List.filterMap_cons, List.filter_cons] at ih ⊢
    cases h : lookupComp t cs with
    | none =>
      have : ¬ t ∈ cs.map (·.1) := fun hm => by
        have := (lookupComp_isSome_iff t cs).2 hm; rw [h] at this; cases this
      simp only [Option.map_none, List.contains_iff_mem, this, ih]
      simp
    | some v =>
      have : t ∈ cs.map (·.1) := (lookupComp_isSome_iff t cs).1 (by rw [h]; rfl)
      simp only [Option.map_some, List.contains_iff_mem, this, List.map_cons, ih]
      simp

theorem pairsH_nodup {H : List Nat} (hH : H.Nodup) (cs : List Comp) : ((pairsH H cs).map (·.1)).Nodup := by
  rw [pairsH_keys]; exact hH.filter _

/-- the listed components are, up to order, the handled components of the entity -/
theorem pairsH_perm {H : List Nat} (hH : H.Nodup) {cs : List Comp} (hn : (cs.map (·.1)).Nodup) :
    (pairsH H cs).Perm (restrict H cs) := by
  unfold restrict
  rw [List.perm_ext_iff_of_nodup (nodup_of_keys (pairsH_nodup hH cs))
    (nodup_of_keys (keys_filter _ hn))]
  intro c
  rw [mem_pairsH hn, List.mem_filter]
  simp [and_comm]

theorem canon_pairsH {H : List Nat} (hH : H.Nodup) {cs : List Comp} (hn : (cs.map (·.1)).Nodup) :
    canon (pairsH H cs) = canon (restrict H cs) :=
  canon_perm (pairsH_perm hH hn) (pairsH_nodup hH cs)

/-! ### column format -/

/-- the block written for one archetype -/
def colBlock (w : World) (H : List Nat) (ar : Arch) : Tree :=
  let hs := H.filter (fun t => ar.types.contains t)
  .seq [
    .num ar.rows.size,
    .num hs.length,
    .seq (hs.map Tree.num),
    .seq (.seq (ar.rows.toList.map (fun r => Tree.num (bitsOf (w.entityOf r.id)))) ::
          hs.map (fun t => .seq (ar.rows.toList.map (fun r => Tree.num ((lookupComp t r.vals).getD 0)))))]

theorem serCol_none (w : World) (H : List Nat) :
    serCol w H none = .seq ((w.archs.toList.filter (fun ar => ar.rows.size ≠ 0)).map (colBlock w H)) := by
  rw [← filterMap_ite]
  simp only [serCol, satisfiesOpt, Bool.not_true, Bool.false_eq_true, if_false]
  congr 2
  funext ar
  by_cases h : ar.rows.size = 0 <;> simp [h, colBlock]

/-- `column::serialize_satisfying::<Q>`: exactly the non-empty archetypes satisfying `q` -/
theorem serCol_some (w : World) (H : List Nat) (q : Q) :
    serCol w H (some q) =
      .seq ((w.archs.toList.filter (fun ar => ar.rows.size ≠ 0 && q.sat ar.types)).map (colBlock w H)) := by
  rw [← filterMap_ite]
  simp only [serCol, satisfiesOpt, Q.access_isSome_eq_sat]
  congr 2
  funext ar
  by_cases h : ar.rows.size = 0 <;> cases hq : q.sat ar.types <;> simp [h, colBlock]

/-- the announced lengths of a block are the real ones -/
theorem colBlock_lengths (w : World) (H : List Nat) (ar : Arch) :
    ∃ n k ids ents cols, colBlock w H ar = .seq [.num n, .num k, .seq ids, .seq (.seq ents :: cols)] ∧
      ents.length = n ∧ (∀ c ∈ cols, ∃ xs, c = Tree.seq xs ∧ xs.length = n) ∧
      ids.length = k ∧ cols.length = k ∧ (Tree.seq ents :: cols).length = k + 1 := by
  refine ⟨_, _, _, _, _, rfl, by simp, ?_, by simp, by simp, by simp⟩
  intro c hc
  simp only [List.mem_map] at hc
  obtain ⟨t, -, rfl⟩ := hc
  exact ⟨_, rfl, by simp⟩

end Hecs.SerdeLemmas
