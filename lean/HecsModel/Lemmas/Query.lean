import HecsModel.Model.Query
import HecsModel.Lemmas.WorldInv
/-
  Helper lemmas for C08 (queries): `access`/`prepares`/`sat` agree, items are determined by the
  row's own values, lengths, chunking, random access, aliasing check.
-/
namespace Hecs

/-- item computed from the meaning of the query (`sat`) and the entity's own values only
(same definition as `Hecs.QueryJudge.specItem`) -/
def specItem : Q → List Comp → Item
  | .read t, vals => .val t ((lookupComp t vals).getD 0)
  | .write t, vals => .val t ((lookupComp t vals).getD 0)
  | .opt q, vals => if q.sat (vals.map (·.1)) then .some (specItem q vals) else .none
  | .or l r, vals =>
    match l.sat (vals.map (·.1)), r.sat (vals.map (·.1)) with
    | true, true => .both (specItem l vals) (specItem r vals)
    | true, false => .left (specItem l vals)
    | false, true => .right (specItem r vals)
    | false, false => .none
  | .with_ q _, vals => specItem q vals
  | .without q _, vals => specItem q vals
  | .satisfies q, vals => .bool (q.sat (vals.map (·.1)))
  | .unit, _ => .unit
  | .pair q rest, vals => .pair (specItem q vals) (specItem rest vals)

namespace Q

theorem optMax_isSome (a b : Option Access) : (optMax a b).isSome = (a.isSome || b.isSome) := by
  cases a <;> cases b <;> simp [optMax]

theorem access_isSome_eq_sat (q : Q) (ts : List Nat) : (q.access ts).isSome = q.sat ts := by
  induction q with
  | read t => simp only [access, sat]; split <;> simp_all
  | write t => simp only [access, sat]; split <;> simp_all
  | opt q ih => simp [access, sat]
  | or l r ihl ihr => simp [access, sat, optMax_isSome, ihl, ihr]
  | with_ q r ihq ihr =>
    simp only [access, sat, ihr]
    cases h : sat r ts <;> simp [ihq]
  | without q r ihq ihr =>
    simp only [access, sat, ihr]
    cases h : sat r ts <;> simp [ihq]
  | satisfies q ih => simp [access, sat]
  | unit => simp [access, sat]
  | pair q rest ihq ihr =>
    simp only [access, sat, ← ihq, ← ihr]
    cases h1 : q.access ts <;> cases h2 : rest.access ts <;> simp

theorem prepares_eq_sat (q : Q) (ts : List Nat) : q.prepares ts = q.sat ts := by
  induction q with
  | read t => rfl
  | write t => rfl
  | opt q ih => rfl
  | or l r ihl ihr => simp [prepares, sat, ihl, ihr]
  | with_ q r ihq ihr => simp [prepares, sat, access_isSome_eq_sat, ihq, Bool.and_comm]
  | without q r ihq ihr => simp [prepares, sat, access_isSome_eq_sat, ihq, Bool.and_comm]
  | satisfies q ih => rfl
  | unit => rfl
  | pair q rest ihq ihr => simp [prepares, sat, ihq, ihr]

theorem item_eq_specItem (q : Q) (ts : List Nat) (vals : List Comp) (h : vals.map (·.1) = ts) :
    q.item ts vals = specItem q vals := by
  subst h
  induction q with
  | read t => rfl
  | write t => rfl
  | opt q ih => simp [item, specItem, prepares_eq_sat, ih]
  | or l r ihl ihr =>
    simp only [item, specItem, prepares_eq_sat, ihl, ihr]
    cases l.sat (vals.map (·.1)) <;> cases r.sat (vals.map (·.1)) <;> rfl
  | with_ q r ihq ihr => simpa [item, specItem] using ihq
  | without q r ihq ihr => simpa [item, specItem] using ihq
  | satisfies q ih => simp [item, specItem, prepares_eq_sat]
  | unit => rfl
  | pair q rest ihq ihr => simp [item, specItem, ihq, ihr]

end Q

/-! ### generic list facts -/

theorem flatMap_congr' {α β} {l : List α} {f g : α → List β} (h : ∀ a ∈ l, f a = g a) :
    l.flatMap f = l.flatMap g := by
  induction l with
  | nil => rfl
  | cons a l ih =>
    simp only [List.flatMap_cons]
    rw [h a (by simp), ih (fun b hb => h b (by simp [hb]))]

theorem flatten_flatMap' {α β} (l : List α) (f : α → List (List β)) :
    (l.flatMap f).flatten = l.flatMap (fun a => (f a).flatten) := by
  induction l with
  | nil => rfl
  | cons a l ih => simp [List.flatMap_cons, ih]

namespace World

/-- every live row with its handle and its own values, in storage order -/
def liveRows (w : World) : List (Entity × List Comp) :=
  w.archs.toList.flatMap (fun ar => ar.rows.toList.map (fun r => (w.entityOf r.id, r.vals)))

/-! ### lengths -/

theorem preparedLen_eq_length (w : World) (q : Q) : w.preparedLen q = (w.queryIter q).length := by
  simp only [preparedLen, queryIter, List.length_flatMap]
  congr 1
  apply List.map_congr_left
  intro ar _
  split <;> simp

theorem queryLen_eq_preparedLen (w : World) (q : Q) : w.queryLen q = w.preparedLen q := by
  simp only [queryLen, preparedLen, Q.access_isSome_eq_sat, Q.prepares_eq_sat]

theorem queryLen_eq_length (w : World) (q : Q) : w.queryLen q = (w.queryIter q).length := by
  rw [queryLen_eq_preparedLen, preparedLen_eq_length]

/-! ### iteration = filter of the live rows by `sat`, items from the row's own values -/

theorem rows_spec (w : World) (q : Q) (ts : List Nat) (rows : List Row)
    (h : ∀ r ∈ rows, r.vals.map (·.1) = ts) :
    (if q.prepares ts then rows.map (fun r => (w.entityOf r.id, q.item ts r.vals)) else []) =
    ((rows.map (fun r => (w.entityOf r.id, r.vals))).filter (fun p => q.sat (p.2.map (·.1)))).map
      (fun p => (p.1, specItem q p.2)) := by
  rw [List.filter_map, List.map_map]
  have hf : rows.filter ((fun p : Entity × List Comp => q.sat (p.2.map (·.1))) ∘
      (fun r => (w.entityOf r.id, r.vals))) = rows.filter (fun _ => q.sat ts) := by
    apply List.filter_congr
    intro r hr
    simp [h r hr]
  rw [hf, Q.prepares_eq_sat]
  cases hs : q.sat ts
  · simp
  · simp only [if_true]
    rw [List.filter_eq_self.2 (fun _ _ => rfl)]
    apply List.map_congr_left
    intro r hr
    simp [Q.item_eq_specItem q ts r.vals (h r hr)]

theorem mem_archs_toList {w : World} {ar : Arch} (h : ar ∈ w.archs.toList) :
    ∃ a : Nat, w.archs[a]? = some ar := by
  obtain ⟨a, ha⟩ := List.mem_iff_getElem?.1 h
  exact ⟨a, by simpa using ha⟩

theorem mem_rows_toList {ar : Arch} {r : Row} (h : r ∈ ar.rows.toList) :
    ∃ i : Nat, ar.rows[i]? = some r := by
  obtain ⟨i, hi⟩ := List.mem_iff_getElem?.1 h
  exact ⟨i, by simpa using hi⟩

theorem queryIter_spec (w : World) (q : Q)
    (hT : ∀ (a : Nat) (ar : Arch) (i : Nat) (r : Row), w.archs[a]? = some ar → ar.rows[i]? = some r →
      r.vals.map (·.1) = ar.types) :
    w.queryIter q =
      (w.liveRows.filter (fun p => q.sat (p.2.map (·.1)))).map (fun p => (p.1, specItem q p.2)) := by
  simp only [queryIter, liveRows, List.filter_flatMap, List.map_flatMap]
  apply flatMap_congr'
  intro ar har
  obtain ⟨a, ha⟩ := mem_archs_toList har
  apply rows_spec
  intro r hr
  obtain ⟨i, hi⟩ := mem_rows_toList hr
  exact hT a ar i r ha hi

/-! ### batches -/

theorem chunks_flatten {α} (n : Nat) (hn : 1 ≤ n) (fuel : Nat) (l : List α) (h : l.length ≤ fuel) :
    (chunks n l fuel).flatten = l := by
  induction fuel generalizing l with
  | zero =>
    have : l = [] := List.eq_nil_of_length_eq_zero (by omega)
    simp [chunks, this]
  | succ fuel ih =>
    simp only [chunks]
    split
    · rename_i he
      simp [List.isEmpty_iff.1 he]
    · rw [List.flatten_cons, ih (l.drop n) (by simp only [List.length_drop]; omega)]
      exact List.take_append_drop n l

theorem chunks_sizes {α} (n : Nat) (hn : 1 ≤ n) (fuel : Nat) (l : List α) :
    ∀ b ∈ chunks n l fuel, 0 < b.length ∧ b.length ≤ n := by
  induction fuel generalizing l with
  | zero => intro b hb; simp [chunks] at hb
  | succ fuel ih =>
    intro b hb
    simp only [chunks] at hb
    split at hb
    · simp at hb
    · rename_i he
      rcases List.mem_cons.1 hb with rfl | hb
      · have : 0 < l.length := by
          cases l with
          | nil => simp at he
          | cons => simp
        simp only [List.length_take]
        omega
      · exact ih _ b hb

theorem batched_concat (w : World) (q : Q) (n : Nat) (hn : 1 ≤ n) :
    (w.queryBatched q n).flatten = w.queryIter q := by
  simp only [queryBatched, queryIter, flatten_flatMap']
  apply flatMap_congr'
  intro ar _
  split
  · exact chunks_flatten n hn _ _ (by simp)
  · rfl

theorem batched_sizes (w : World) (q : Q) (n : Nat) (hn : 1 ≤ n) :
    ∀ b ∈ w.queryBatched q n, 0 < b.length ∧ b.length ≤ n := by
  intro b hb
  simp only [queryBatched, List.mem_flatMap] at hb
  obtain ⟨ar, _, hb⟩ := hb
  split at hb
  · exact chunks_sizes n hn _ _ b hb
  · simp at hb

/-! ### random access -/

theorem get_located_iff (w : World) (e : Entity) (a i : Nat) :
    w.get e = some (some (a, i)) ↔ w.locOf e.id = some (a, i) ∧ w.genOf e.id = e.gen := by
  unfold get locOf genOf
  cases hm : w.metas[e.id]? with
  | none => simp
  | some m =>
    simp only [Option.bind_some, Option.map_some, Option.getD_some]
    by_cases hg : m.gen = e.gen
    · cases hl : m.loc with
      | none => simp [hg]
      | some l => simp [hg]
    · simp [hg]

theorem viewGet_eq_some (w : World) (q : Q) (e : Entity) (it : Item) :
    w.viewGet q e = some it ↔
      ∃ a i ar r, w.locOf e.id = some (a, i) ∧ w.genOf e.id = e.gen ∧ w.archs[a]? = some ar ∧
        ar.rows[i]? = some r ∧ q.sat ar.types = true ∧ it = q.item ar.types r.vals := by
  unfold viewGet locOf genOf
  cases hm : w.metas[e.id]? with
  | none => simp
  | some m =>
    simp only [Option.bind_some, Option.map_some, Option.getD_some]
    by_cases hg : m.gen = e.gen
    · cases hl : m.loc with
      | none => simp [hg]
      | some l =>
        obtain ⟨a, i⟩ := l
        cases ha : w.archs[a]? with
        | none => simp [hg, ha]
        | some ar =>
          cases hs : q.sat ar.types with
          | false => simp [hg, ha, Q.prepares_eq_sat, hs]
          | true =>
            cases hr : ar.rows[i]? with
            | none => simp [hg, ha, Q.prepares_eq_sat, hs, hr]
            | some r =>
              simp only [hg, bne_self_eq_false, Bool.false_eq_true, if_false, ha, Q.prepares_eq_sat, hs,
                if_true, hr, Option.map_some, Option.some.injEq]
              constructor
              · rintro rfl
                exact ⟨a, i, ar, r, rfl, trivial, ha, hr, hs, rfl⟩
              · rintro ⟨a', i', ar', r', hl', -, ha', hr', -, rfl⟩
                simp only [Prod.mk.injEq] at hl'
                obtain ⟨rfl, rfl⟩ := hl'
                rw [ha] at ha'
                cases ha'
                rw [hr] at hr'
                cases hr'
                rfl
    · simp [hg]

theorem getElem?_mem_archs {w : World} {a : Nat} {ar : Arch} (h : w.archs[a]? = some ar) :
    ar ∈ w.archs.toList :=
  List.mem_iff_getElem?.2 ⟨a, by simpa using h⟩

theorem getElem?_mem_rows {ar : Arch} {i : Nat} {r : Row} (h : ar.rows[i]? = some r) :
    r ∈ ar.rows.toList :=
  List.mem_iff_getElem?.2 ⟨i, by simpa using h⟩

theorem mem_queryIter (w : World) (q : Q) (e : Entity) (it : Item) :
    (e, it) ∈ w.queryIter q ↔
      ∃ (a i : Nat) (ar : Arch) (r : Row), w.archs[a]? = some ar ∧ ar.rows[i]? = some r ∧
        q.sat ar.types = true ∧ e = w.entityOf r.id ∧ it = q.item ar.types r.vals := by
  simp only [queryIter, List.mem_flatMap, Q.prepares_eq_sat]
  constructor
  · rintro ⟨ar, har, h⟩
    obtain ⟨a, ha⟩ := mem_archs_toList har
    cases hs : q.sat ar.types with
    | false => simp [hs] at h
    | true =>
      simp only [hs, if_true, List.mem_map, Prod.mk.injEq] at h
      obtain ⟨r, hr, he, hi⟩ := h
      obtain ⟨i, hi'⟩ := mem_rows_toList hr
      exact ⟨a, i, ar, r, ha, hi', hs, he.symm, hi.symm⟩
  · rintro ⟨a, i, ar, r, ha, hr, hs, he, hi⟩
    refine ⟨ar, getElem?_mem_archs ha, ?_⟩
    simp only [hs, if_true, List.mem_map, Prod.mk.injEq]
    exact ⟨r, getElem?_mem_rows hr, he.symm, hi.symm⟩

theorem rowAt_eq_archs {w : World} {a i : Nat} {ar : Arch} {r : Row}
    (ha : w.archs[a]? = some ar) (hr : ar.rows[i]? = some r) : w.rowAt a i = some r := by
  simp [rowAt, ha, hr]

theorem rowAt_some {w : World} {a i : Nat} {r : Row} (h : w.rowAt a i = some r) :
    ∃ ar, w.archs[a]? = some ar ∧ ar.rows[i]? = some r := by
  unfold rowAt at h
  cases ha : w.archs[a]? with
  | none => simp [ha] at h
  | some ar => exact ⟨ar, rfl, by simpa [ha] using h⟩

/-- under the representation invariant the view answers exactly what iteration yields -/
theorem viewGet_some_iff_mem (w : World) (hc : w.Core) (q : Q) (e : Entity) (it : Item) :
    w.viewGet q e = some it ↔ (e, it) ∈ w.queryIter q := by
  rw [viewGet_eq_some, mem_queryIter]
  constructor
  · rintro ⟨a, i, ar, r, hl, hg, ha, hr, hs, hi⟩
    obtain ⟨r', hr', hid⟩ := hc.loc_row _ _ _ hl
    rw [rowAt_eq_archs ha hr] at hr'
    cases hr'
    refine ⟨a, i, ar, r, ha, hr, hs, ?_, hi⟩
    cases e
    simp only [entityOf] at *
    subst hid
    rw [hg]
  · rintro ⟨a, i, ar, r, ha, hr, hs, he, hi⟩
    have hl := hc.row_loc _ _ _ (rowAt_eq_archs ha hr)
    subst he
    exact ⟨a, i, ar, r, hl, rfl, ha, hr, hs, hi⟩

/-- a located entity's single-entity query is the view's answer -/
theorem queryOne_located (w : World) (hc : w.Core) (q : Q) (e : Entity) (a i : Nat)
    (h : w.get e = some (some (a, i))) : w.queryOne q e = some (w.viewGet q e) := by
  obtain ⟨hl, hg⟩ := (get_located_iff w e a i).1 h
  obtain ⟨r, hr, -⟩ := hc.loc_row _ _ _ hl
  obtain ⟨ar, ha, -⟩ := rowAt_some hr
  unfold queryOne viewGet
  unfold locOf at hl
  unfold genOf at hg
  cases hm : w.metas[e.id]? with
  | none => simp [hm] at hl
  | some m =>
    simp only [hm, Option.bind_some, Option.map_some, Option.getD_some] at hl hg
    simp [h, ha, hl, hg]

theorem queryOne_reserved (w : World) (q : Q) (e : Entity) (h : w.get e = some none) :
    w.queryOne q e = some (if q.sat [] then some (specItem q []) else none) := by
  simp [queryOne, h, Q.prepares_eq_sat, Q.item_eq_specItem q [] [] rfl]

theorem queryOne_nosuch (w : World) (q : Q) (e : Entity) (h : w.get e = none) :
    w.queryOne q e = none := by
  simp [queryOne, h]

theorem satisfiesQ_eq (w : World) (q : Q) (e : Entity) (b : Bool) (h : w.satisfiesQ q e = some b) :
    (w.get e = some none ∧ b = q.sat []) ∨
    (∃ a i ar, w.get e = some (some (a, i)) ∧ w.archs[a]? = some ar ∧ b = q.sat ar.types) := by
  unfold satisfiesQ at h
  split at h
  · simp at h
  · rename_i hg
    simp only [Q.access_isSome_eq_sat, Option.some.injEq] at h
    exact Or.inl ⟨hg, h.symm⟩
  · rename_i a i hg
    cases ha : w.archs[a]? with
    | none => simp [ha] at h
    | some ar =>
      simp only [ha, Option.map_some, Q.access_isSome_eq_sat, Option.some.injEq] at h
      exact Or.inr ⟨a, i, ar, hg, ha, h.symm⟩

/-- `satisfies` is "the single-entity query yields an item" -/
theorem satisfiesQ_eq_queryOne_isSome (w : World) (hc : w.Core) (q : Q) (e : Entity) :
    w.satisfiesQ q e = (w.queryOne q e).map Option.isSome := by
  unfold satisfiesQ queryOne
  split
  · rfl
  · simp only [Q.access_isSome_eq_sat, Q.prepares_eq_sat, Option.map_some]
    cases q.sat [] <;> rfl
  · rename_i a i hg
    obtain ⟨hl, -⟩ := (get_located_iff w e a i).1 hg
    obtain ⟨r, hr, -⟩ := hc.loc_row _ _ _ hl
    obtain ⟨ar, ha, hr⟩ := rowAt_some hr
    simp only [ha, Option.map_some, Q.access_isSome_eq_sat, Q.prepares_eq_sat, hr]
    cases q.sat ar.types <;> rfl

/-! ### each entity once -/

theorem liveRows_ids (w : World) :
    w.liveRows.map (·.1.id) = w.archs.toList.flatMap (fun ar => ar.rows.toList.map (·.id)) := by
  simp only [liveRows, List.map_flatMap, List.map_map]
  rfl

theorem toList_getElem?_archs (w : World) (a : Nat) (h : a < w.archs.toList.length) :
    w.archs[a]? = some w.archs.toList[a] := by
  simp only [Array.length_toList] at h
  simp [h]

theorem toList_getElem?_rows (ar : Arch) (i : Nat) (h : i < ar.rows.toList.length) :
    ar.rows[i]? = some ar.rows.toList[i] := by
  simp only [Array.length_toList] at h
  simp [h]

theorem liveRows_nodup (w : World) (hc : w.Core) : (w.liveRows.map (·.1.id)).Nodup := by
  rw [liveRows_ids, List.nodup_iff_pairwise_ne, List.pairwise_flatMap]
  constructor
  · intro ar har
    obtain ⟨a, ha⟩ := mem_archs_toList har
    rw [List.pairwise_map, List.pairwise_iff_getElem]
    intro i j hi hj hij heq
    have h1 := hc.row_loc a i _ (rowAt_eq_archs ha (toList_getElem?_rows ar i hi))
    have h2 := hc.row_loc a j _ (rowAt_eq_archs ha (toList_getElem?_rows ar j hj))
    rw [heq, h2] at h1
    simp only [Option.some.injEq, Prod.mk.injEq] at h1
    omega
  · rw [List.pairwise_iff_getElem]
    intro a b ha hb hab x hx y hy hxy
    simp only [List.mem_map] at hx hy
    obtain ⟨r, hr, rfl⟩ := hx
    obtain ⟨r', hr', rfl⟩ := hy
    obtain ⟨i, hi⟩ := mem_rows_toList hr
    obtain ⟨j, hj⟩ := mem_rows_toList hr'
    have h1 := hc.row_loc a i r (rowAt_eq_archs (toList_getElem?_archs w a ha) hi)
    have h2 := hc.row_loc b j r' (rowAt_eq_archs (toList_getElem?_archs w b hb) hj)
    rw [hxy, h2] at h1
    simp only [Option.some.injEq, Prod.mk.injEq] at h1
    omega

/-- iteration yields no entity twice -/
theorem queryIter_nodup (w : World) (hc : w.Core) (q : Q) :
    ((w.queryIter q).map (·.1.id)).Nodup := by
  rw [queryIter_spec w q hc.row_types, List.map_map]
  have hsub : ((w.liveRows.filter (fun p => q.sat (p.2.map (·.1)))).map (·.1.id)).Sublist
      (w.liveRows.map (·.1.id)) := List.Sublist.map _ List.filter_sublist
  exact List.Pairwise.sublist hsub (liveRows_nodup w hc)

end World

/-! ### `assert_borrow` -/

theorem Q.assertBorrowOk_sound (q : Q) (h : q.assertBorrowOk = true) (i j : Nat) (hij : i ≠ j)
    (hi : i < q.borrows.length) (hj : j < q.borrows.length)
    (hu : (q.borrows.getD i (0, false)).2 = true) :
    (q.borrows.getD i (0, false)).1 ≠ (q.borrows.getD j (0, false)).1 := by
  unfold Q.assertBorrowOk at h
  simp only [List.all_eq_true, List.mem_range] at h
  have := h i hi j hj
  simp only [hu, Bool.true_and, Bool.not_eq_true', Bool.and_eq_false_iff, bne_eq_false_iff_eq,
    beq_eq_false_iff_ne] at this
  rcases this with h1 | h1
  · exact absurd h1 hij
  · exact h1

/-! ### a concrete world for non-vacuity checks -/
namespace QueryExample
open World

def qEx : Q := .pair (.read 0) (.pair (.opt (.read 1)) .unit)

def wEx : World :=
  { metas := #[⟨1, some (1, 0)⟩, ⟨1, some (2, 0)⟩], pending := #[], cursor := 0, len := 2,
    archs := #[⟨[], #[]⟩, ⟨[0, 1], #[⟨0, [(0, 1), (1, 2)]⟩]⟩, ⟨[0], #[⟨1, [(0, 3)]⟩]⟩] }

theorem wEx_arch (a : Nat) (ar : Arch) (h : wEx.archs[a]? = some ar) :
    (a = 0 ∧ ar = ⟨[], #[]⟩) ∨ (a = 1 ∧ ar = ⟨[0, 1], #[⟨0, [(0, 1), (1, 2)]⟩]⟩) ∨
    (a = 2 ∧ ar = ⟨[0], #[⟨1, [(0, 3)]⟩]⟩) := by
  rcases a with _ | _ | _ | a <;> simp [wEx] at h <;> simp [← h]

theorem wEx_core : wEx.Core := by
  refine ⟨?_, ?_, ?_, ?_, ?_, ?_⟩
  · intro id a i h
    rcases id with _ | _ | id <;> simp [locOf, wEx] at h
    · obtain ⟨rfl, rfl⟩ := h; exact ⟨⟨0, [(0, 1), (1, 2)]⟩, by decide, rfl⟩
    · obtain ⟨rfl, rfl⟩ := h; exact ⟨⟨1, [(0, 3)]⟩, by decide, rfl⟩
  · intro a i r h
    obtain ⟨ar, ha, hr⟩ := rowAt_some h
    rcases wEx_arch a ar ha with ⟨rfl, rfl⟩ | ⟨rfl, rfl⟩ | ⟨rfl, rfl⟩
    · simp at hr
    · rcases i with _ | i <;> simp at hr
      subst hr; decide
    · rcases i with _ | i <;> simp at hr
      subst hr; decide
  · exact ⟨⟨[], #[]⟩, rfl, rfl⟩
  · intro a ar ha
    rcases wEx_arch a ar ha with ⟨rfl, rfl⟩ | ⟨rfl, rfl⟩ | ⟨rfl, rfl⟩ <;> decide
  · intro a b ar br ha hb hab
    rcases wEx_arch a ar ha with ⟨rfl, rfl⟩ | ⟨rfl, rfl⟩ | ⟨rfl, rfl⟩ <;>
    rcases wEx_arch b br hb with ⟨rfl, rfl⟩ | ⟨rfl, rfl⟩ | ⟨rfl, rfl⟩ <;> simp at hab <;> rfl
  · intro a ar i r ha hr
    rcases wEx_arch a ar ha with ⟨rfl, rfl⟩ | ⟨rfl, rfl⟩ | ⟨rfl, rfl⟩
    · simp at hr
    · rcases i with _ | i <;> simp at hr
      subst hr; rfl
    · rcases i with _ | i <;> simp at hr
      subst hr; rfl

end QueryExample
end Hecs
