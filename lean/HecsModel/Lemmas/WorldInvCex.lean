import HecsModel.Lemmas.WorldInvStep
/-
  Why `inv_step` carries the side condition `Op.WF`: out-of-contract calls break the invariant in
  the model (the Rust code panics or the type system rules the call out).
-/
namespace Hecs
namespace World

theorem flush_new : World.new.flush = World.new := by
  simp [flush_eq, World.new, flushTail, flushPending]

theorem cex_archs_spawn_dup :
    (step World.new (.spawn [(1,0),(1,1)])).1.archs = #[⟨[], #[]⟩, ⟨[1,1], #[⟨0, [(1,0),(1,1)]⟩]⟩] := by
  simp only [step, World.spawn, flush_new]
  simp [World.new, alloc, spawnInner, getArch, findArch, canon, insertComp, pushRow, setLoc, rowsOf]

/-- a bundle naming a type twice creates an archetype whose type list is not strictly sorted -/
theorem cex_spawn_dup : ¬ (step World.new (.spawn [(1,0),(1,1)])).1.Inv := by
  intro h
  have := h.core.types_sorted 1 _ (by rw [cex_archs_spawn_dup]; rfl)
  simp [strictSorted] at this

theorem cex_archs_reserve_dup :
    (step World.new (.reserve [1,1])).1.archs = #[⟨[], #[]⟩, ⟨[1,1], #[]⟩] := by
  simp only [step, World.reserve, flush_new]
  simp [World.new, getArch, findArch, sortNat, insertNat]

theorem cex_reserve_dup : ¬ (step World.new (.reserve [1,1])).1.Inv := by
  intro h
  have := h.core.types_sorted 1 _ (by rw [cex_archs_reserve_dup]; rfl)
  simp [strictSorted] at this

theorem cex_archs_columnBatch_unsorted :
    (step World.new (.spawnColumnBatch [2,1] [])).1.archs = #[⟨[], #[]⟩, ⟨[2,1], #[]⟩] := by
  simp only [step, World.spawnColumnBatch, flush_new]
  simp [World.new, insertBatch, findArch, assignRows]

/-- a column batch whose type list is not in canonical order -/
theorem cex_columnBatch_unsorted : ¬ (step World.new (.spawnColumnBatch [2,1] [])).1.Inv := by
  intro h
  have := h.core.types_sorted 1 _ (by rw [cex_archs_columnBatch_unsorted]; rfl)
  simp [strictSorted] at this

theorem cex_archs_spawnBatch_row :
    (step World.new (.spawnBatch [1] [[(2,0)]])).1.archs = #[⟨[], #[]⟩, ⟨[1], #[⟨0, [(2,0)]⟩]⟩] := by
  simp only [step, World.spawnBatch, World.reserve, flush_new]
  simp [World.new, getArch, findArch, sortNat, insertNat, spawnBatchRows, alloc, canon, insertComp,
    pushRow, setLoc, rowsOf]

/-- a batch row whose types differ from the batch's static type -/
theorem cex_spawnBatch_row : ¬ (step World.new (.spawnBatch [1] [[(2,0)]])).1.Inv := by
  intro h
  have := h.core.row_types 1 _ 0 ⟨0, [(2,0)]⟩ (by rw [cex_archs_spawnBatch_row]; rfl) (by rfl)
  simp at this

end World
end Hecs
