import HecsModel.Lemmas.GuardsStep
/-
  C05 helper lemmas, part 5: the actions on live guards (`iter`, `get`, `with`, `without`, `clone`,
  `drop`) preserve `WInv`, the grant criterion for the acquiring ones, exclusivity among live
  guards, and "everything dropped ⇒ every word is zero".
-/
namespace Hecs.GuardLemmas
open Hecs Hecs.Guards

/-- the columns `act` tries to acquire -/
def wantAct (s : St) (n : String) : Act → List H
  | .iter =>
    match s.guard n with
    | some (.query q false) => held s (.query q true)
    | _ => []
  | .get =>
    match s.guard n with
    | some (.one q ar false) => if q.prepares (s.arch ar).types then held s (.one q ar true) else []
    | _ => []
  | .clone _ =>
    match s.guard n with
    | some (.ref ar t) => [((ar, t), false)]
    | some (.col ar t) => [((ar, t), false)]
    | _ => []
  | _ => []

theorem WInv.unchanged {s : St} {leak : List H} (h : WInv s leak) (o : Outcome) (want : List H)
    (hw : o = .panic → want = []) :
    WInv s (if o = .panic then acqPre s.words want ++ leak else leak) := by
  by_cases ho : o = .panic
  · simpa [ho, hw ho, acqPre] using h
  · simpa [ho] using h

theorem act_spec {s : St} {leak : List H} (h : WInv s leak) (n : String) (a : Act)
    (hf : ∀ into, a = .clone into → s.guard into = none) :
    WInv (act s n a).1
      (if (act s n a).2 = .panic then acqPre s.words (wantAct s n a) ++ leak else leak) := by
  cases hg : s.guard n with
  | none =>
    simp only [act, hg]
    exact h.unchanged _ _ (by simp)
  | some g =>
    cases a with
    | iter =>
      cases g with
      | query q b =>
        cases b
        · simp only [act, hg, wantAct, startBorrow_eq, held_query_true]
          exact (multi_step h (g' := .query q true) (others_of_nil h.names hg rfl) rfl).1
        · simp only [act, hg]
          exact h.unchanged _ _ (by simp)
      | _ =>
        simp only [act, hg]
        exact h.unchanged _ _ (by simp)
    | get =>
      cases g with
      | one q ar b =>
        cases b
        · simp only [act, hg, wantAct]
          by_cases hp : q.prepares (s.arch ar).types = true
          · simp only [hp, Bool.not_true, Bool.false_eq_true, if_false, if_true, acquireList_eq]
            exact (multi_step h (g' := .one q ar true) (others_of_nil h.names hg rfl) rfl).1
          · have hp' : q.prepares (s.arch ar).types = false := Bool.eq_false_iff.2 hp
            simp only [hp', Bool.not_false, if_true, Bool.false_eq_true, if_false]
            exact h.unchanged _ _ (by simp)
        · simp only [act, hg, wantAct]
          simpa [acqPre] using h
      | _ =>
        simp only [act, hg]
        exact h.unchanged _ _ (by simp)
    | with_ r =>
      cases g with
      | query q b =>
        simp only [act, hg]
        simpa using h.release_set hg (g' := .query (.with_ q r) false) rfl
      | one q ar b =>
        simp only [act, hg]
        simpa using h.release_set hg (g' := .one (.with_ q r) ar false) rfl
      | _ =>
        simp only [act, hg]
        exact h.unchanged _ _ (by simp)
    | without r =>
      cases g with
      | query q b =>
        simp only [act, hg]
        simpa using h.release_set hg (g' := .query (.without q r) false) rfl
      | one q ar b =>
        simp only [act, hg]
        simpa using h.release_set hg (g' := .one (.without q r) ar false) rfl
      | _ =>
        simp only [act, hg]
        exact h.unchanged _ _ (by simp)
    | clone into =>
      have ho := others_of_none (hf into rfl)
      cases g with
      | ref ar t =>
        simp only [act, hg, wantAct]
        exact (single_step h (n := into) (g' := .ref ar t) (c := (ar, t)) (u := false) ho rfl).1
      | col ar t =>
        simp only [act, hg, wantAct]
        exact (single_step h (n := into) (g' := .col ar t) (c := (ar, t)) (u := false) ho rfl).1
      | _ =>
        simp only [act, hg]
        exact h.unchanged _ _ (by simp)
    | drop =>
      simp only [act, hg]
      simpa using h.release_del hg

/-! ### grant criterion for the acquiring actions -/

theorem iter_granted_iff {s : St} {leak : List H} (h : WInv s leak) {n : String} {q : Q}
    (hg : s.guard n = some (.query q false)) :
    (act s n .iter).2 ≠ .panic ↔ (acquireCols s.words (held s (.query q true))).2 = true := by
  simp only [act, hg, startBorrow_eq, held_query_true]
  exact (multi_step h (g' := .query q true) (others_of_nil h.names hg rfl) rfl).2

theorem get_granted_iff {s : St} {leak : List H} (h : WInv s leak) {n : String} {q : Q} {ar : Nat}
    (hg : s.guard n = some (.one q ar false)) (hp : q.prepares (s.arch ar).types = true) :
    (act s n .get).2 ≠ .panic ↔ (acquireCols s.words (held s (.one q ar true))).2 = true := by
  simp only [act, hg, hp, Bool.not_true, Bool.false_eq_true, if_false, acquireList_eq]
  exact (multi_step h (g' := .one q ar true) (others_of_nil h.names hg rfl) rfl).2

theorem clone_ref_granted_iff {s : St} {leak : List H} (h : WInv s leak) {n into : String} {ar t : Nat}
    (hg : s.guard n = some (.ref ar t)) (hf : s.guard into = none) :
    (act s n (.clone into)).2 ≠ .panic ↔ (acquireCols s.words [((ar, t), false)]).2 = true := by
  simp only [act, hg]
  exact (single_step h (n := into) (g' := .ref ar t) (c := (ar, t)) (u := false) (others_of_none hf) rfl).2

theorem clone_col_granted_iff {s : St} {leak : List H} (h : WInv s leak) {n into : String} {ar t : Nat}
    (hg : s.guard n = some (.col ar t)) (hf : s.guard into = none) :
    (act s n (.clone into)).2 ≠ .panic ↔ (acquireCols s.words [((ar, t), false)]).2 = true := by
  simp only [act, hg]
  exact (single_step h (n := into) (g' := .col ar t) (c := (ar, t)) (u := false) (others_of_none hf) rfl).2

/-- `wouldConflict` against all holders = against the holders of the *other* guards, when the
guard itself holds nothing -/
theorem wouldConflict_others {s : St} {leak : List H} {n : String}
    (ho : (heldAll s).Perm (heldAll (s.delGuard n))) (want : List H) :
    wouldConflict (heldAll s ++ leak) want = wouldConflict (heldAll (s.delGuard n) ++ leak) want :=
  wouldConflict_perm_left (ho.append_right leak) want

/-! ### exclusivity -/

/-- no column has a unique holder together with any other holder -/
theorem WInv.column_exclusive {s : St} {leak : List H} (h : WInv s leak) (c : Col) :
    nU (heldAll s ++ leak) c ≤ 1 ∧ (0 < nU (heldAll s ++ leak) c → nS (heldAll s ++ leak) c = 0) :=
  h.excl c

/-- holdings of two live guards at different positions of the guard list never conflict -/
theorem WInv.exclusive_idx {s : St} {leak : List H} (h : WInv s leak) {i j : Nat} {p₁ p₂ : String × Guard}
    (hi : s.guards[i]? = some p₁) (hj : s.guards[j]? = some p₂) (hij : i ≠ j)
    {x y : H} (hx : x ∈ held s p₁.2) (hy : y ∈ held s p₂.2) : conflicts x y = false := by
  have hp := h.excl.pairwise
  rw [List.pairwise_append] at hp
  have hp := hp.1
  unfold heldAll at hp
  rw [List.pairwise_flatMap] at hp
  have hpw := hp.2
  rw [List.pairwise_iff_getElem] at hpw
  obtain ⟨hi', hi⟩ := List.getElem?_eq_some_iff.1 hi
  obtain ⟨hj', hj⟩ := List.getElem?_eq_some_iff.1 hj
  rcases Nat.lt_or_gt_of_ne hij with hlt | hlt
  · have := hpw i j hi' hj' hlt x (by rw [hi]; exact hx) y (by rw [hj]; exact hy)
    exact this
  · have := hpw j i hj' hi' hlt y (by rw [hj]; exact hy) x (by rw [hi]; exact hx)
    rw [conflicts_symm]; exact this

/-- aliasing-xor-mutation among live guards: what two distinct live guards hold never conflicts -/
theorem WInv.exclusive {s : St} {leak : List H} (h : WInv s leak) {n₁ n₂ : String} {g₁ g₂ : Guard}
    (h₁ : s.guard n₁ = some g₁) (h₂ : s.guard n₂ = some g₂) (hne : n₁ ≠ n₂)
    {x y : H} (hx : x ∈ held s g₁) (hy : y ∈ held s g₂) : conflicts x y = false := by
  obtain ⟨i, hi⟩ := List.mem_iff_getElem?.1 (guard_mem h₁)
  obtain ⟨j, hj⟩ := List.mem_iff_getElem?.1 (guard_mem h₂)
  have hij : i ≠ j := by
    intro e; subst e
    rw [hi] at hj
    injection hj with hj
    injection hj with hj
    exact hne hj
  exact h.exclusive_idx hi hj hij hx hy

/-- … and the same within one guard, at different positions of its holdings -/
theorem WInv.exclusive_within {s : St} {leak : List H} (h : WInv s leak) {n : String} {g : Guard}
    (hg : s.guard n = some g) : (held s g).Pairwise (fun x y => conflicts x y = false) := by
  have hp := h.excl.pairwise
  rw [List.pairwise_append] at hp
  have hp := hp.1
  unfold heldAll at hp
  rw [List.pairwise_flatMap] at hp
  exact hp.1 (n, g) (guard_mem hg)

/-- a live guard's holdings never conflict with what a failed acquisition left behind -/
theorem WInv.exclusive_leak {s : St} {leak : List H} (h : WInv s leak) {n : String} {g : Guard}
    (hg : s.guard n = some g) {x y : H} (hx : x ∈ held s g) (hy : y ∈ leak) : conflicts x y = false := by
  have hp := h.excl.pairwise
  rw [List.pairwise_append] at hp
  refine hp.2.2 x ?_ y hy
  unfold heldAll
  exact List.mem_flatMap.2 ⟨(n, g), guard_mem hg, hx⟩

/-! ### everything dropped -/

theorem heldAll_of_no_guards {s : St} (hg : s.guards = []) : heldAll s = [] := by
  simp [heldAll, hg]

/-- with every guard dropped, the only residue is what failed acquisitions left behind -/
theorem WInv.residue {s : St} {leak : List H} (h : WInv s leak) (hg : s.guards = []) :
    Counts s.words leak := by
  have := h.counts
  rwa [heldAll_of_no_guards hg, List.nil_append] at this

/-- with every guard dropped and no failed acquisition, every word is zero -/
theorem WInv.all_released {s : St} (h : WInv s []) (hg : s.guards = []) (c : Col) :
    wordOf s.words c = 0 := by
  have := h.residue hg c
  simpa using this

theorem WInv.init (archs : List GArch) : WInv { archs := archs } [] := by
  refine ⟨List.Pairwise.nil, ⟨?_, Excl.nil⟩⟩
  intro c
  simp [heldAll, wordOf]

/-! ### scripts -/

/-- one line of a guard script -/
inductive Cmd
  | new (n : String) (g : Guard)
  | act (n : String) (a : Act)

def Cmd.run (s : St) : Cmd → St × Outcome
  | .new n g => newGuard s n g
  | .act n a => Guards.act s n a

/-- guard names are fresh where a guard is created -/
def Cmd.fresh (s : St) : Cmd → Prop
  | .new n _ => s.guard n = none
  | .act _ (.clone into) => s.guard into = none
  | .act _ _ => True

/-- `s'` is reached from `s` by a script with fresh names in which nothing panicked -/
inductive Reach : St → St → Prop
  | refl (s : St) : Reach s s
  | step {s s' : St} (c : Cmd) : Reach s s' → c.fresh s' → (c.run s').2 ≠ .panic → Reach s (c.run s').1

theorem Cmd.run_spec {s : St} {leak : List H} (h : WInv s leak) (c : Cmd) (hf : c.fresh s)
    (hp : (c.run s).2 ≠ .panic) : WInv (c.run s).1 leak := by
  cases c with
  | new n g =>
    have := (newGuard_spec h hf g).1
    simp only [Cmd.run] at hp ⊢
    simpa [hp] using this
  | act n a =>
    have hf' : ∀ into, a = .clone into → s.guard into = none := by
      intro into e; subst e; exact hf
    have := act_spec h n a hf'
    simp only [Cmd.run] at hp ⊢
    simpa [hp] using this

theorem Reach.winv {s s' : St} {leak : List H} (r : Reach s s') (h : WInv s leak) : WInv s' leak := by
  induction r with
  | refl => exact h
  | step c _ hf hp ih => exact Cmd.run_spec ih c hf hp

/-- along any script in which no acquisition is refused, once every guard has been dropped (in any
order) all words are back to zero -/
theorem Reach.all_released {archs : List GArch} {s' : St} (r : Reach { archs := archs } s')
    (hg : s'.guards = []) (c : Col) : wordOf s'.words c = 0 :=
  (r.winv (WInv.init archs)).all_released hg c

end Hecs.GuardLemmas
