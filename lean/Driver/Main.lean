import HecsModel.Model.WorldJudge
import HecsModel.Model.BitsJudge
import HecsModel.Model.BorrowJudge
import HecsModel.Model.ContainerJudge
import HecsModel.Model.GuardJudge
/-
  `hecs_judge`: reads a trace on stdin, one request per line, answers one line per request.

    history <engine> <id>          reset the engine state
    <lhs> => <impl rhs>            step the model, compare renderings
    #...                           engine-specific annotations

  Answers: `ok`, `DIFF model=<rhs>`, `skip` (after a DIFF in the same history), `ERR <msg>`.
-/
open Hecs

structure JState where
  engine : String := "world"
  worlds : WorldJudge.MState := {}
  specs : WorldJudge.Specs := []
  /-- the concrete model no longer tracks the implementation in this history -/
  diverged : Bool := false
  /-- the specification oracle stopped (its state is unknown after a rejected step) -/
  specDead : Bool := false
  borrow : BorrowJudge.St := {}
  containers : ContainerJudge.CState := {}
  guards : GuardJudge.JSt := {}

def splitArrow (line : String) : String × Option String :=
  match line.splitOn " => " with
  | [l] => (l, none)
  | l :: rest => (l, some (" => ".intercalate rest))
  | [] => ("", none)

def stepLine (st : JState) (line : String) : JState × String :=
  let line := line.trimAscii.toString
  if line.startsWith "history " then
    match line.splitOn " " with
    | _ :: eng :: _ => ({ engine := eng }, "ok")
    | _ => (st, "ERR bad history line")
  else if line.startsWith "#state " then
    match SerdeJudge.parseDump ((line.splitOn " ").filter (· ≠ "")) with
    | some d => match SerdeJudge.checkDump d with
      | none => (st, "ok")
      | some m => (st, "INV " ++ m)
    | none => (st, "ERR unparsable #state line")
  else if line.startsWith "#" && !(line.startsWith "#arena" || line.startsWith "#fill") then (st, "ok")
  else
    let (lhs, rhs) := splitArrow line
    let verb := ((lhs.trimAscii.toString.splitOn " ").headD "")
    if (st.engine == "world" || st.engine == "sched-reserve") && ContainerJudge.isContainerVerb verb then
      if st.diverged && st.specDead then (st, "skip") else
      let (cs, m, ss, v) := ContainerJudge.line st.containers st.worlds st.specs lhs (rhs.getD "")
      let st' := { st with containers := cs, worlds := m, specs := ss }
      match v with
      | .ok => (st', "ok")
      | .spec _ => ({ st' with diverged := true, specDead := true }, v.render)
      | .diff _ => if st.diverged then (st', "skip") else ({ st' with diverged := true }, v.render)
      | .inv _ => ({ st' with diverged := true }, v.render)
      | .err _ => ({ st' with diverged := true, specDead := true }, v.render)
      | .advisory _ => (st', v.render)
    else
    match st.engine with
    | "world" | "sched-reserve" =>
      -- (S) specification oracle on the implementation's own answer
      let (st, specMsg) : JState × Option String :=
        match rhs with
        | none => (st, none)
        | some r =>
          if st.specDead then (st, none)
          else if lhs.startsWith "de_bytes" then
            (if r.trimAscii.toString.startsWith "panic" then
              ({ st with specDead := true }, some "the deserialiser panicked on malformed bytes instead of returning an error")
             else if !((r.splitOn " ").contains "leak=0") then
              ({ st with specDead := true }, some ("components decoded from malformed bytes were leaked or dropped twice: " ++ r))
             else (st, none))
          else if r.trimAscii.toString == "panic" && (lhs.startsWith "reserve_bulk" || lhs.startsWith "reserve_entit") then
            -- "too many entities": the documented refusal at the end of the `u32` id space, legitimate exactly
            -- where the model (the checked calls) refuses too; the history ends here
            if !st.diverged && (match WorldJudge.stepLine st.worlds lhs with | .ok (_, a) => a == "panic" | .error _ => false) then
              ({ st with specDead := true }, none)
            else ({ st with specDead := true }, some "operation panicked inside hecs")
          else if r.trimAscii.toString == "panic" && WorldJudge.outOfContract lhs then
            -- rejected out-of-contract call: nothing is specified about the state afterwards — except for
            -- the array accessors, which refuse a repeated handle before touching anything
            ((if lhs.startsWith "query " then st else { st with specDead := true }), none)
          else if WorldJudge.outOfContract lhs && !(lhs.startsWith "spawn_cb_at") && !(r.trimAscii.toString.startsWith "nosuch") then
            ({ st with specDead := true }, some "a bundle naming a component type twice must be rejected")
          else if r.trimAscii.toString == "panic" && !(lhs.startsWith "spawn_cb_at") && !WorldJudge.aliasingQueryLine lhs then
            ({ st with specDead := true }, some "operation panicked inside hecs")
          else match WorldJudge.specLine st.specs lhs r with
            | .ok ss => ({ st with specs := ss }, none)
            | .error m => ({ st with specDead := true }, some m)
      match specMsg with
      | some m => ({ st with diverged := true }, "SPEC " ++ m)
      | none =>
        if st.diverged then (st, "skip")
        else
          -- (O) the concrete model
          match WorldJudge.stepLine st.worlds lhs with
          | .error m => ({ st with diverged := true }, "ERR " ++ m)
          | .ok (ws, model) =>
            match rhs with
            | none => ({ st with worlds := ws }, "MODEL " ++ model)
            | some r =>
              if (WorldJudge.normRhs lhs r).trimAscii.toString == model then ({ st with worlds := ws }, "ok")
              else ({ st with worlds := ws, diverged := true }, "DIFF model=" ++ model)
    | "bits" =>
      match BitsJudge.stepLine lhs with
      | .error m => (st, "ERR " ++ m)
      | .ok model =>
        match rhs with
        | none => (st, "MODEL " ++ model)
        | some r => if r.trimAscii.toString == model then (st, "ok") else (st, "SPEC model=" ++ model)
    | "borrow" =>
      let (g, ans) := GuardJudge.stepLine st.guards lhs rhs
      ({ st with guards := g }, ans)
    | "sched-borrow" =>
      let (b, ans) := BorrowJudge.stepLine st.borrow lhs rhs
      ({ st with borrow := b }, ans)
    | e => (st, "ERR unknown engine " ++ e)

partial def loop (h : IO.FS.Stream) (out : IO.FS.Stream) (st : JState) : IO Unit := do
  let line ← h.getLine
  if line.isEmpty then return ()
  if line.trimAscii.toString.isEmpty then
    out.putStrLn "ok"
    loop h out st
  else
    let (st', ans) := stepLine st line
    out.putStrLn ans
    loop h out st'

def main : IO Unit := do
  let stdin ← IO.getStdin
  let stdout ← IO.getStdout
  loop stdin stdout {}
  stdout.flush
