import HecsModel.Model.WorldJudge
/-
  `hecs_judge`: reads a trace on stdin, one request per line, answers one line per request.

    history <engine> <id>          reset the engine state
    <lhs> => <impl rhs>            step the model, compare renderings
    #...                           engine-specific annotations

  Answers: `ok`, `DIFF model=<rhs>`, `skip` (after a DIFF in the same history), `ERR <msg>`.
-/
open Hecs

structure JState where
  engine : String := "world"
  worlds : WorldJudge.Worlds := []
  diverged : Bool := false

def splitArrow (line : String) : String × Option String :=
  match line.splitOn " => " with
  | [l] => (l, none)
  | l :: rest => (l, some (" => ".intercalate rest))
  | [] => ("", none)

def stepLine (st : JState) (line : String) : JState × String :=
  let line := line.trimAscii.toString
  if line.startsWith "history " then
    match line.splitOn " " with
    | _ :: eng :: _ => ({ engine := eng }, "ok")
    | _ => (st, "ERR bad history line")
  else if st.diverged then (st, "skip")
  else if line.startsWith "#" then (st, "ok")
  else
    let (lhs, rhs) := splitArrow line
    match st.engine with
    | "world" =>
      match WorldJudge.stepLine st.worlds lhs with
      | .error m => ({ st with diverged := true }, "ERR " ++ m)
      | .ok (ws, model) =>
        match rhs with
        | none => ({ st with worlds := ws }, "MODEL " ++ model)
        | some r =>
          if r.trimAscii.toString == model then ({ st with worlds := ws }, "ok")
          else ({ st with worlds := ws, diverged := true }, "DIFF model=" ++ model)
    | e => (st, "ERR unknown engine " ++ e)

partial def loop (h : IO.FS.Stream) (out : IO.FS.Stream) (st : JState) : IO Unit := do
  let line ← h.getLine
  if line.isEmpty then return ()
  if line.trimAscii.toString.isEmpty then
    out.putStrLn "ok"
    loop h out st
  else
    let (st', ans) := stepLine st line
    out.putStrLn ans
    loop h out st'

def main : IO Unit := do
  let stdin ← IO.getStdin
  let stdout ← IO.getStdout
  loop stdin stdout {}
  stdout.flush
