import HecsModel.Model.Basic
import HecsModel.Model.Proto
import HecsModel.Model.World
import HecsModel.Model.WorldJudge
import HecsModel.Spec.World
import HecsModel.Lemmas.WorldInv
import HecsModel.Props.C01
