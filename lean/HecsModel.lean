import HecsModel.Model.Basic
import HecsModel.Model.Proto
import HecsModel.Model.World
import HecsModel.Model.WorldJudge
